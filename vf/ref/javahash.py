"""Independent Minecraft session hash: SHA-1 over (server id UTF-8, secret,
public key), read as a signed big-endian integer, printed like Java's
BigInteger.toString(16).  Own two's-complement negation and nibble loop; does
not use int.from_bytes(signed=) or format()."""
import hashlib

HEX = '0123456789abcdef'


def java_hex(digest):
    b = list(digest)
    negative = bool(b) and b[0] >= 128
    if negative:
        # two's complement negate: invert, add one
        b = [255 - x for x in b]
        i = len(b) - 1
        while i >= 0:
            b[i] += 1
            if b[i] < 256:
                break
            b[i] = 0
            i -= 1
    nibbles = []
    for x in b:
        nibbles.append(x // 16)
        nibbles.append(x % 16)
    while len(nibbles) > 1 and nibbles[0] == 0:
        nibbles.pop(0)
    s = ''.join(HEX[n] for n in nibbles) if nibbles else '0'
    return ('-' if negative and s != '0' else '') + s


def server_hash(server_id, secret, public_key):
    h = hashlib.sha1()
    h.update(server_id.encode('utf-8') + bytes(secret) + bytes(public_key))
    return java_hex(h.digest())


def selftest():
    # the three published vectors (wiki.vg Protocol Encryption)
    assert java_hex(hashlib.sha1(b'Notch').digest()) == \
        '4ed1f46bbe04bc756bcb17c0c7ce3e4632f06a48'
    assert java_hex(hashlib.sha1(b'jeb_').digest()) == \
        '-7c9d5b0044c130109a5d7b5fb5c317c02b4e28c1'
    assert java_hex(hashlib.sha1(b'simon').digest()) == \
        '88e16a1019277b15d58faf0541e11910eb756f6'
    assert java_hex(b'\x00' * 20) == '0'
    assert java_hex(b'\xff' * 20) == '-1'
    assert java_hex(b'\x80' + b'\x00' * 19) == '-8' + '0' * 39
    return True
