"""Minimal independent NBT writer (subset sufficient for the join-game
dimension codec): values are (tag, payload) tuples."""
import struct

END, BYTE, SHORT, INT, LONG, FLOAT, DOUBLE, BARR, STR, LIST, COMP, IARR, LARR \
    = range(13)


def _name(s):
    raw = s.encode('utf-8')
    return struct.pack('>H', len(raw)) + raw


def payload(tag, v):
    if tag == BYTE:
        return struct.pack('>b', v)
    if tag == SHORT:
        return struct.pack('>h', v)
    if tag == INT:
        return struct.pack('>i', v)
    if tag == LONG:
        return struct.pack('>q', v)
    if tag == FLOAT:
        return struct.pack('>f', v)
    if tag == DOUBLE:
        return struct.pack('>d', v)
    if tag == BARR:
        return struct.pack('>i', len(v)) + bytes(x % 256 for x in v)
    if tag == STR:
        return _name(v)
    if tag == LIST:
        etag, items = v
        return bytes([etag]) + struct.pack('>i', len(items)) + \
            b''.join(payload(etag, i) for i in items)
    if tag == COMP:
        return b''.join(bytes([t]) + _name(k) + payload(t, x)
                        for k, (t, x) in v) + b'\x00'
    if tag == IARR:
        return struct.pack('>i', len(v)) + b''.join(
            struct.pack('>i', x) for x in v)
    if tag == LARR:
        return struct.pack('>i', len(v)) + b''.join(
            struct.pack('>q', x) for x in v)
    raise ValueError(tag)


def document(items, name=''):
    """A named root compound: items = [(key, (tag, value)), ...]."""
    return bytes([COMP]) + _name(name) + payload(COMP, items)


def dimension_type():
    return [('piglin_safe', (BYTE, 0)), ('natural', (BYTE, 1)),
            ('ambient_light', (FLOAT, 0.0)), ('infiniburn', (STR,
             'minecraft:infiniburn_overworld')), ('logical_height', (INT, 256)),
            ('coordinate_scale', (DOUBLE, 1.0)), ('ultrawarm', (BYTE, 0)),
            ('has_ceiling', (BYTE, 0)), ('min_y', (INT, -64)),
            ('height', (INT, 384))]


def dimension_codec():
    return [('minecraft:dimension_type', (COMP, [
        ('type', (STR, 'minecraft:dimension_type')),
        ('value', (LIST, (COMP, [[
            ('name', (STR, 'minecraft:overworld')), ('id', (INT, 0)),
            ('element', (COMP, dimension_type()))]])))])),
        ('minecraft:worldgen/biome', (COMP, [
            ('type', (STR, 'minecraft:worldgen/biome')),
            ('value', (LIST, (COMP, [[
                ('name', (STR, 'minecraft:plains')), ('id', (INT, 1)),
                ('element', (COMP, [('precipitation', (STR, 'rain')),
                                    ('depth', (FLOAT, 0.125)),
                                    ('temperature', (FLOAT, 0.8))]))]])))]))]


def sample_documents():
    docs = [
        (document([]), 'empty'),
        (document([('a', (BYTE, -1)), ('b', (SHORT, -2)), ('c', (INT, 3)),
                   ('d', (LONG, -4)), ('e', (FLOAT, 1.5)), ('f', (DOUBLE, -2.5)),
                   ('g', (STR, 'héllo €')), ('h', (BARR, [1, 2, 255])),
                   ('i', (IARR, [1, -1])), ('j', (LARR, [2 ** 62, -1]))]),
         'scalars'),
        (document([('l', (LIST, (INT, [1, 2, 3]))),
                   ('e', (LIST, (END, []))),
                   ('n', (COMP, [('x', (COMP, [('y', (BYTE, 1))]))]))]),
         'nested'),
        (document(dimension_type()), 'dimension_type'),
        (document(dimension_codec()), 'dimension_codec'),
    ]
    return docs
