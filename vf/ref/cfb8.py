"""Independent AES-128-CFB8 (NIST SP 800-38A, s = 8): a 16-byte shift register
initialised with the IV; each plaintext byte is XORed with the first byte of
E_K(register); the *ciphertext* byte is shifted into the register.

Two block back-ends: the pure-Python AES of vf.ref.aes (validated by FIPS-197)
and, for volume, single-block ECB from `cryptography` (never its CFB8 mode)."""
from . import aes


def _pure_block(key):
    rk = aes.expand_key(key)
    return lambda block: aes.encrypt_block(rk, block)


def _fast_block(key):
    from cryptography.hazmat.primitives.ciphers import Cipher, algorithms, modes
    enc = Cipher(algorithms.AES(key), modes.ECB()).encryptor()
    return lambda block: enc.update(bytes(block))


class CFB8(object):
    """One direction of a CFB8 stream (stateful)."""

    def __init__(self, key, iv, fast=True):
        self.block = (_fast_block if fast else _pure_block)(bytes(key))
        self.reg = bytearray(iv)

    def encrypt(self, data):
        out = bytearray()
        for p in data:
            c = p ^ self.block(self.reg)[0]
            self.reg = self.reg[1:] + bytes([c])
            out.append(c)
        return bytes(out)

    def decrypt(self, data):
        out = bytearray()
        for c in data:
            p = c ^ self.block(self.reg)[0]
            self.reg = self.reg[1:] + bytes([c])
            out.append(p)
        return bytes(out)


def selftest():
    # NIST SP 800-38A F.3.7 CFB8-AES128.Encrypt
    key = bytes.fromhex('2b7e151628aed2a6abf7158809cf4f3c')
    iv = bytes.fromhex('000102030405060708090a0b0c0d0e0f')
    pt = bytes.fromhex('6bc1bee22e409f96e93d7e117393172aae2d')
    ct = bytes.fromhex('3b79424c9c0dd436bace9e0ed4586a4f32b9')
    for fast in (False, True):
        assert CFB8(key, iv, fast).encrypt(pt) == ct
        assert CFB8(key, iv, fast).decrypt(ct) == pt
    return True
