"""Independent table of the core Minecraft packets (ids and byte layouts) for
every release protocol from 1.8 (47) to 1.18.1 (757), transcribed from the
protocol documentation history (wiki.vg "Protocol" page per release; see
DESIGN.md Appendix A).  Imports nothing from `minecraft`.

layout(name, pv) -> (packet id, [(field, type code), ...]) or None if the
packet does not exist in that release.
"""
import struct

from . import varint
from . import wiretypes as w

RELEASES = [47, 107, 108, 109, 110, 210, 315, 316, 335, 338, 340, 393, 401,
            404, 477, 480, 485, 490, 498, 573, 575, 578, 735, 736, 751, 753,
            754, 755, 756, 757]


# release name -> protocol number (protocol documentation; the README of the
# library lists exactly these names as supported)
RELEASE_NAMES = {
    '1.8': 47, '1.8.1': 47, '1.8.2': 47, '1.8.3': 47, '1.8.4': 47, '1.8.5': 47,
    '1.8.6': 47, '1.8.7': 47, '1.8.8': 47, '1.8.9': 47,
    '1.9': 107, '1.9.1': 108, '1.9.2': 109, '1.9.3': 110, '1.9.4': 110,
    '1.10': 210, '1.10.1': 210, '1.10.2': 210,
    '1.11': 315, '1.11.1': 316, '1.11.2': 316,
    '1.12': 335, '1.12.1': 338, '1.12.2': 340,
    '1.13': 393, '1.13.1': 401, '1.13.2': 404,
    '1.14': 477, '1.14.1': 480, '1.14.2': 485, '1.14.3': 490, '1.14.4': 498,
    '1.15': 573, '1.15.1': 575, '1.15.2': 578,
    '1.16': 735, '1.16.1': 736, '1.16.2': 751, '1.16.3': 753, '1.16.4': 754,
    '1.16.5': 754,
    '1.17': 755, '1.17.1': 756,
    '1.18': 757, '1.18.1': 757,
}


def _era(pv, table):
    """table: [(first protocol of era, value)] ascending."""
    val = None
    for first, v in table:
        if pv >= first:
            val = v
    return val


# ---- play ids ----------------------------------------------------------------
CB_IDS = [   # first pv, (keep alive, join game, chat, position+look, disconnect)
    (47, (0x00, 0x01, 0x02, 0x08, 0x40)),
    (107, (0x1F, 0x23, 0x0F, 0x2E, 0x1A)),
    (338, (0x1F, 0x23, 0x0F, 0x2F, 0x1A)),
    (393, (0x21, 0x25, 0x0E, 0x32, 0x1B)),
    (477, (0x20, 0x25, 0x0E, 0x35, 0x1A)),
    (573, (0x21, 0x26, 0x0F, 0x36, 0x1B)),
    (735, (0x20, 0x25, 0x0E, 0x35, 0x1A)),
    (751, (0x1F, 0x24, 0x0E, 0x34, 0x19)),
    (755, (0x21, 0x26, 0x0F, 0x38, 0x1A)),
]
SB_IDS = [   # first pv, (teleport confirm, chat, keep alive, position+look)
    (47, (None, 0x01, 0x00, 0x06)),
    (107, (0x00, 0x02, 0x0B, 0x0D)),
    (335, (0x00, 0x03, 0x0C, 0x0F)),
    (338, (0x00, 0x02, 0x0B, 0x0E)),
    (393, (0x00, 0x02, 0x0E, 0x11)),
    (477, (0x00, 0x03, 0x0F, 0x12)),
    (735, (0x00, 0x03, 0x10, 0x13)),
    (755, (0x00, 0x03, 0x0F, 0x12)),
]


def _join_game(pv):
    if pv < 108:
        return [('eid', 'int'), ('gamemode', 'ubyte'), ('dimension', 'byte'),
                ('difficulty', 'ubyte'), ('max_players', 'ubyte'),
                ('level_type', 'string'), ('reduced_debug', 'bool')]
    if pv < 477:
        return [('eid', 'int'), ('gamemode', 'ubyte'), ('dimension', 'int'),
                ('difficulty', 'ubyte'), ('max_players', 'ubyte'),
                ('level_type', 'string'), ('reduced_debug', 'bool')]
    if pv < 573:
        return [('eid', 'int'), ('gamemode', 'ubyte'), ('dimension', 'int'),
                ('max_players', 'ubyte'), ('level_type', 'string'),
                ('view_distance', 'varint'), ('reduced_debug', 'bool')]
    if pv < 735:
        return [('eid', 'int'), ('gamemode', 'ubyte'), ('dimension', 'int'),
                ('hashed_seed', 'long'), ('max_players', 'ubyte'),
                ('level_type', 'string'), ('view_distance', 'varint'),
                ('reduced_debug', 'bool'), ('respawn_screen', 'bool')]
    if pv < 751:
        return [('eid', 'int'), ('gamemode', 'ubyte'),
                ('previous_gamemode', 'ubyte'), ('world_names', 'strings_v'),
                ('dimension_codec', 'nbt'), ('dimension', 'string'),
                ('world_name', 'string'), ('hashed_seed', 'long'),
                ('max_players', 'ubyte'), ('view_distance', 'varint'),
                ('reduced_debug', 'bool'), ('respawn_screen', 'bool'),
                ('is_debug', 'bool'), ('is_flat', 'bool')]
    fields = [('eid', 'int'), ('is_hardcore', 'bool'), ('gamemode', 'ubyte'),
              ('previous_gamemode', 'ubyte'), ('world_names', 'strings_v'),
              ('dimension_codec', 'nbt'), ('dimension', 'nbt'),
              ('world_name', 'string'), ('hashed_seed', 'long'),
              ('max_players', 'varint'), ('view_distance', 'varint')]
    if pv >= 757:
        fields.append(('simulation_distance', 'varint'))
    fields += [('reduced_debug', 'bool'), ('respawn_screen', 'bool'),
               ('is_debug', 'bool'), ('is_flat', 'bool')]
    return fields


def layout(name, pv):
    cb = _era(pv, CB_IDS)
    sb = _era(pv, SB_IDS)
    ka = [('id', 'long' if pv >= 340 else 'varint')]
    if name == 'handshake':
        return 0x00, [('protocol', 'varint'), ('host', 'string'),
                      ('port', 'ushort'), ('next_state', 'varint')]
    if name == 'status_request':
        return 0x00, []
    if name == 'status_response':
        return 0x00, [('json', 'string')]
    if name == 'status_ping':
        return 0x01, [('payload', 'long')]
    if name == 'status_pong':
        return 0x01, [('payload', 'long')]
    if name == 'login_start':
        return 0x00, [('name', 'string')]
    if name == 'encryption_request':
        return 0x01, [('server_id', 'string'), ('public_key', 'bytes_v'),
                      ('verify_token', 'bytes_v')]
    if name == 'encryption_response':
        return 0x01, [('shared_secret', 'bytes_v'), ('verify_token', 'bytes_v')]
    if name == 'login_success':
        return 0x02, [('uuid', 'uuid' if pv >= 735 else 'string'),
                      ('username', 'string')]
    if name == 'set_compression':
        return 0x03, [('threshold', 'varint')]
    if name == 'login_disconnect':
        return 0x00, [('reason', 'string')]
    if name == 'cb_keep_alive':
        return cb[0], ka
    if name == 'join_game':
        return cb[1], _join_game(pv)
    if name == 'cb_chat':
        f = [('json', 'string'), ('position', 'byte')]
        if pv >= 735:
            f.append(('sender', 'uuid'))
        return cb[2], f
    if name == 'cb_position_look':
        f = [('x', 'double'), ('y', 'double'), ('z', 'double'),
             ('yaw', 'float'), ('pitch', 'float'), ('flags', 'byte')]
        if pv >= 107:
            f.append(('teleport_id', 'varint'))
        if pv >= 755:
            f.append(('dismount', 'bool'))
        return cb[3], f
    if name == 'play_disconnect':
        return cb[4], [('reason', 'string')]
    if name == 'teleport_confirm':
        if sb[0] is None:
            return None
        return sb[0], [('teleport_id', 'varint')]
    if name == 'sb_chat':
        return sb[1], [('message', 'string')]
    if name == 'sb_keep_alive':
        return sb[2], ka
    if name == 'sb_position_look':
        return sb[3], [('x', 'double'), ('feet_y', 'double'), ('z', 'double'),
                       ('yaw', 'float'), ('pitch', 'float'),
                       ('on_ground', 'bool')]
    raise KeyError(name)


NAMES = ['handshake', 'status_request', 'status_response', 'status_ping',
         'status_pong', 'login_start', 'encryption_request',
         'encryption_response', 'login_success', 'set_compression',
         'login_disconnect', 'cb_keep_alive', 'join_game', 'cb_chat',
         'cb_position_look', 'play_disconnect', 'teleport_confirm', 'sb_chat',
         'sb_keep_alive', 'sb_position_look']


def encode_field(code, v):
    if code == 'varint':
        return varint.encode(v)
    if code == 'varlong':
        return varint.encode(v)
    if code == 'string':
        return w.string(v)
    if code == 'ushort':
        return w.int_be(v, 2, False)
    if code == 'long':
        return w.int_be(v, 8, True)
    if code == 'int':
        return w.int_be(v, 4, True)
    if code == 'ubyte':
        return w.int_be(v, 1, False)
    if code == 'byte':
        return w.int_be(v, 1, True)
    if code == 'bool':
        return b'\x01' if v else b'\x00'
    if code == 'double':
        return w.float64(v)
    if code == 'float':
        return w.float32(v)
    if code == 'bytes_v':
        return w.varint_bytes(v)
    if code == 'uuid':
        return w.uuid_bytes(v)
    if code == 'nbt':
        return bytes(v)            # value is the document's bytes
    if code == 'strings_v':
        return varint.encode(len(v)) + b''.join(w.string(s) for s in v)
    raise KeyError(code)


def encode(name, pv, values):
    """Returns (id, payload bytes) for a dict of field values."""
    pid, fields = layout(name, pv)
    return pid, b''.join(encode_field(code, values[f]) for f, code in fields)


def frame(name, pv, values):
    pid, payload = encode(name, pv, values)
    body = varint.encode(pid) + payload
    return varint.encode(len(body)) + body


def selftest():
    # a 1.8 handshake for localhost:25565, protocol 47, next state 2,
    # assembled by hand
    f = frame('handshake', 47, {'protocol': 47, 'host': 'localhost',
                                'port': 25565, 'next_state': 2})
    assert f == bytes([15, 0, 47, 9]) + b'localhost' + bytes([0x63, 0xDD, 2])
    assert layout('cb_keep_alive', 340) == (0x1F, [('id', 'long')])
    assert layout('cb_keep_alive', 338) == (0x1F, [('id', 'varint')])
    assert layout('teleport_confirm', 47) is None
    assert layout('join_game', 757)[0] == 0x26
    assert struct.pack('>d', 1.5) == encode_field('double', 1.5)
    return True


def decode_field(code, data, pos):
    """Returns (value, new_pos); raises EOFError/ValueError on bad data."""
    def take(n):
        if pos + n > len(data):
            raise EOFError('field %s truncated' % code)
        return data[pos:pos + n], pos + n
    if code in ('varint', 'varlong'):
        return varint.decode(data, pos)
    if code == 'string':
        n, p = varint.decode(data, pos)
        if p + n > len(data):
            raise EOFError('string truncated')
        return data[p:p + n].decode('utf-8'), p + n
    if code == 'bytes_v':
        n, p = varint.decode(data, pos)
        if p + n > len(data):
            raise EOFError('byte array truncated')
        return bytes(data[p:p + n]), p + n
    sizes = {'ushort': (2, False), 'long': (8, True), 'int': (4, True),
             'ubyte': (1, False), 'byte': (1, True)}
    if code in sizes:
        n, signed = sizes[code]
        raw, p = take(n)
        return w.int_from(raw, signed), p
    if code == 'bool':
        raw, p = take(1)
        return raw != b'\x00', p
    if code == 'double':
        raw, p = take(8)
        return w.float_from(raw), p
    if code == 'float':
        raw, p = take(4)
        return w.float_from(raw), p
    if code == 'uuid':
        raw, p = take(16)
        return w.uuid_text(raw), p
    raise KeyError(code)


def decode(name, pv, payload):
    """Decode payload (without id) -> dict; raises ValueError on leftovers."""
    _pid, fields = layout(name, pv)
    pos, out = 0, {}
    for f, code in fields:
        out[f], pos = decode_field(code, payload, pos)
    if pos != len(payload):
        raise ValueError('%d unread bytes in %s' % (len(payload) - pos, name))
    return out


SERVERBOUND = {
    'handshake': ['handshake'],
    'status': ['status_request', 'status_ping'],
    'login': ['login_start', 'encryption_response'],
    'play': ['teleport_confirm', 'sb_chat', 'sb_keep_alive',
             'sb_position_look'],
}


def identify(state, pv, pid):
    """Name of the serverbound core packet with this id in this state."""
    for name in SERVERBOUND[state]:
        lay = layout(name, pv)
        if lay is not None and lay[0] == pid:
            return name
    return None
