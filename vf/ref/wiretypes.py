"""Independent encoders/decoders of the primitive Minecraft wire types, written
from the protocol documentation.  Shares no code with `minecraft`."""
import math
import struct
import uuid as _uuid

from . import varint


# ---- integers -----------------------------------------------------------
def int_be(value, nbytes, signed):
    return value.to_bytes(nbytes, 'big', signed=signed)


def int_from(data, signed):
    return int.from_bytes(data, 'big', signed=signed)


# ---- floats: bit-level IEEE-754 packing, cross-checked with struct -------
def float_bits(value, ebits, mbits):
    """Round-to-nearest-even encoding of a Python float into a binary
    interchange format with `ebits` exponent and `mbits` mantissa bits."""
    bias = (1 << (ebits - 1)) - 1
    emax = (1 << ebits) - 1
    if value != value:
        return (emax << mbits) | (1 << (mbits - 1))
    sign = 1 if math.copysign(1.0, value) < 0 else 0
    a = abs(value)
    if a == math.inf:
        return (sign << (ebits + mbits)) | (emax << mbits)
    if a == 0:
        return sign << (ebits + mbits)
    m, e = math.frexp(a)           # a = m * 2**e, 0.5 <= m < 1
    e -= 1                         # a = (2m) * 2**e, 1 <= 2m < 2
    from fractions import Fraction
    fa = Fraction(a)
    if e + bias >= 1:
        scaled = fa / Fraction(2) ** e * (1 << mbits)   # in [2^mbits, 2^(mbits+1))
        q = _round_half_even(scaled)
        if q == (1 << (mbits + 1)):
            q >>= 1
            e += 1
        if e + bias >= emax:
            return (sign << (ebits + mbits)) | (emax << mbits)
        return (sign << (ebits + mbits)) | ((e + bias) << mbits) | (q - (1 << mbits))
    # subnormal
    scaled = fa / Fraction(2) ** (1 - bias) * (1 << mbits)
    q = _round_half_even(scaled)
    return (sign << (ebits + mbits)) | q     # q == 2^mbits rolls into exponent 1


def _round_half_even(fr):
    fl = fr.numerator // fr.denominator
    rem = fr - fl
    from fractions import Fraction
    half = Fraction(1, 2)
    if rem > half or (rem == half and fl % 2 == 1):
        return fl + 1
    return fl


def float32(value):
    bits = float_bits(value, 8, 23)
    return bits.to_bytes(4, 'big')


def float64(value):
    bits = float_bits(value, 11, 52)
    return bits.to_bytes(8, 'big')


def float_from(data):
    n = len(data)
    ebits, mbits = (8, 23) if n == 4 else (11, 52)
    bits = int.from_bytes(data, 'big')
    sign = -1.0 if bits >> (ebits + mbits) else 1.0
    e = (bits >> mbits) & ((1 << ebits) - 1)
    m = bits & ((1 << mbits) - 1)
    bias = (1 << (ebits - 1)) - 1
    if e == (1 << ebits) - 1:
        return sign * math.inf if m == 0 else math.nan
    if e == 0:
        return sign * math.ldexp(m, 1 - bias - mbits)
    return sign * math.ldexp(m + (1 << mbits), e - bias - mbits)


# ---- strings, arrays, uuid -------------------------------------------------
def string(s):
    raw = s.encode('utf-8')
    return varint.encode(len(raw)) + raw


def varint_bytes(b):
    return varint.encode(len(b)) + bytes(b)


def short_bytes(b):
    return int_be(len(b), 2, True) + bytes(b)


def uuid_bytes(text):
    hexs = text.replace('-', '').replace('{', '').replace('}', '') \
               .replace('urn:uuid:', '')
    return bytes.fromhex(hexs)


def uuid_text(data):
    h = bytes(data).hex()
    return '%s-%s-%s-%s-%s' % (h[:8], h[8:12], h[12:16], h[16:20], h[20:])


# ---- angle: 1/256 of a full turn -------------------------------------------
def angle_byte_candidates(degrees):
    """The protocol stores an angle as steps of 1/256 turn in one byte.  For a
    value that is not an exact step either neighbouring step is within one
    quantum; the nearest is preferred.  Returns (nearest_set, within_quantum_set)
    of byte values (mod 256)."""
    from fractions import Fraction
    steps = Fraction(degrees) * 256 / 360
    lo = steps.numerator // steps.denominator
    if steps == lo:
        return {lo % 256}, {lo % 256}
    hi = lo + 1
    d_lo, d_hi = steps - lo, hi - steps
    nearest = {lo % 256} if d_lo < d_hi else {hi % 256} if d_hi < d_lo \
        else {lo % 256, hi % 256}
    return nearest, {lo % 256, hi % 256}


def angle_from(byte):
    return byte * 360 / 256


# ---- positions ----------------------------------------------------------------
def pack_position(x, y, z, layout):
    """layout 'xyz' = 26/12/26 x|y|z (<= 1.13.2), 'xzy' = 26/26/12 x|z|y (1.14+)"""
    ux, uy, uz = x % (1 << 26), y % (1 << 12), z % (1 << 26)
    if layout == 'xyz':
        word = ux * (1 << 38) + uy * (1 << 26) + uz
    else:
        word = ux * (1 << 38) + uz * (1 << 12) + uy
    return word.to_bytes(8, 'big')


def _sx(v, bits):
    return v - (1 << bits) if v >= (1 << (bits - 1)) else v


def unpack_position(data, layout):
    word = int.from_bytes(data, 'big')
    x = _sx(word >> 38, 26)
    if layout == 'xyz':
        y = _sx((word >> 26) % (1 << 12), 12)
        z = _sx(word % (1 << 26), 26)
    else:
        z = _sx((word >> 12) % (1 << 26), 26)
        y = _sx(word % (1 << 12), 12)
    return x, y, z


def pack_section_pos(x, y, z):
    """Chunk section position: x 22 bits | z 22 bits | y 20 bits."""
    word = (x % (1 << 22)) * (1 << 42) + (z % (1 << 22)) * (1 << 20) \
        + (y % (1 << 20))
    return word.to_bytes(8, 'big')


def unpack_section_pos(data):
    word = int.from_bytes(data, 'big')
    return (_sx(word >> 42, 22), _sx(word % (1 << 20), 20),
            _sx((word >> 20) % (1 << 22), 22))


def pack_block_record_new(x, y, z, state):
    """>= 741: VarLong of state << 12 | x << 8 | z << 4 | y."""
    return varint.encode(state * 4096 + x * 256 + z * 16 + y)


def pack_block_record_old(x, y, z, state):
    """< 741: UByte (x << 4 | z), UByte y, VarInt state."""
    return bytes([x * 16 + z, y]) + varint.encode(state)


def selftest():
    for v in (0.0, -0.0, 1.0, -1.5, 3.14159, 1e-45, 1e-40, 3.4028234e38,
              1e39, 5e-324, 2.2250738585072014e-308, 1e308, math.inf,
              -math.inf, 0.1, 16777217.0, 1.17549435e-38, 1.1754942e-38):
        try:
            exp32 = struct.pack('>f', v)
        except OverflowError:
            exp32 = struct.pack('>f', math.copysign(math.inf, v))
        # struct raises OverflowError for finite values that round to inf;
        # IEEE says inf.  Only compare where struct accepts.
        if abs(v) <= 3.4028235677973366e38 or abs(v) == math.inf:
            assert float32(v) == exp32, (v, float32(v).hex(), exp32.hex())
        assert float64(v) == struct.pack('>d', v), v
        assert float_from(struct.pack('>d', v)) == v
    assert float32(math.nan)[0] & 0x7F == 0x7F
    assert string('aé€\U0001F600') == \
        b'\x0a' + 'aé€\U0001F600'.encode()
    assert pack_position(-1, -1, -1, 'xyz') == b'\xff' * 8
    # documented example (wiki.vg, 1.14+): x=18357644 y=831 z=-20882616
    assert pack_position(18357644, 831, -20882616, 'xzy') == \
        bytes([0b01000110, 0b00000111, 0b01100011, 0b00101100,
               0b00010101, 0b10110100, 0b10000011, 0b00111111])
    assert unpack_position(pack_position(18357644, 831, -20882616, 'xzy'),
                           'xzy') == (18357644, 831, -20882616)
    assert angle_byte_candidates(90)[0] == {64}
    assert angle_byte_candidates(359.9)[0] == {0}
    assert uuid_text(uuid_bytes('12345678-1234-5678-1234-567812345678')) == \
        '12345678-1234-5678-1234-567812345678'
    assert varint.encode(2147483647) == bytes([255, 255, 255, 255, 7])
    assert varint.encode_signed(-1, 32) == bytes([255, 255, 255, 255, 15])
    assert varint.encode_signed(-2147483648, 32) == bytes([128, 128, 128, 128, 8])
    assert varint.encode(25565) == bytes([0xdd, 0xc7, 0x01])
    assert varint.encode_signed(-1, 64) == b'\xff' * 9 + b'\x01'
    assert varint.decode(bytes([0xdd, 0xc7, 0x01, 0x55]))[0:2] == (25565, 3)
    return True
