"""Independent Minecraft packet framing.

Uncompressed format:  VarInt length | VarInt id | data
Compressed format:    VarInt packet length | VarInt data length (0 = not
                      compressed) | (zlib-compressed) id+data
A payload (id+data) is compressed iff its size >= threshold (vanilla); a
client may also send any payload of size >= threshold compressed and must send
smaller ones uncompressed.  threshold < 0 disables compression of bodies but the
compressed *format* (data length 0) stays once enabled.
"""
import zlib

from . import varint


class FrameError(Exception):
    pass


def deflate(payload, level=6, zmode='finished'):
    """zlib streams as different peers produce them: 'finished' (one-shot
    compress), 'sync-flush' (a deflater that is flushed per packet and never
    finished: no final block, no Adler-32 trailer - what an inflater that is
    asked for exactly the announced number of bytes accepts), 'blocks' (a full
    flush in the middle, then finished), 'stored' (level 0)."""
    if zmode == 'finished':
        return zlib.compress(payload, level)
    if zmode == 'stored':
        return zlib.compress(payload, 0)
    c = zlib.compressobj(level)
    if zmode == 'sync-flush':
        return c.compress(payload) + c.flush(zlib.Z_SYNC_FLUSH)
    if zmode == 'blocks':
        half = len(payload) // 2
        return c.compress(payload[:half]) + c.flush(zlib.Z_FULL_FLUSH) + \
            c.compress(payload[half:]) + c.flush()
    raise ValueError(zmode)


def frame(packet_id, data, threshold=None, compress_at=None, level=6,
          pad=0, zmode='finished'):
    """Encode one packet.  threshold None = uncompressed format.
    compress_at: payload size from which the body is compressed (defaults to
    the vanilla rule size >= threshold; never compress when threshold < 0).
    pad: width (in bytes) of zero-padded, non-minimal frame- and data-length
    fields, as fixed-width writers (proxies) emit; 0 = minimal."""
    enc = varint.encode if not pad else \
        (lambda n: varint.encode_padded(n, pad))
    payload = varint.encode(packet_id) + bytes(data)
    if threshold is None:
        return enc(len(payload)) + payload
    if compress_at is None:
        compress_at = threshold
    if threshold >= 0 and len(payload) >= compress_at:
        body = enc(len(payload)) + deflate(payload, level, zmode)
    else:
        body = varint.encode(0) + payload
    return enc(len(body)) + body


def parse_stream(data, compressed=False, threshold=None, strict_threshold=True):
    """Parse a whole byte stream into [(id, data, info)] and the number of
    leftover bytes (an incomplete trailing frame).  Raises FrameError on a
    malformed frame.  info = {'compressed': bool, 'frame_len': n}."""
    out, pos = [], 0
    n = len(data)
    while pos < n:
        start = pos
        try:
            length, p = varint.decode(data, pos)
        except EOFError:
            return out, n - start
        if p - pos > 3 and length > (1 << 21):
            raise FrameError('length prefix longer than 3 bytes at %d' % pos)
        if p + length > n:
            return out, n - start
        body = data[p:p + length]
        pos = p + length
        info = {'compressed': False, 'frame_len': pos - start, 'at': start}
        if compressed:
            try:
                dlen, q = varint.decode(body, 0)
            except EOFError:
                raise FrameError('no data length in compressed-format frame')
            if dlen:
                try:
                    payload = zlib.decompress(body[q:])
                except zlib.error as e:
                    raise FrameError('bad zlib body at %d: %s' % (start, e))
                if len(payload) != dlen:
                    raise FrameError('data length %d != inflated %d'
                                     % (dlen, len(payload)))
                # vanilla rejects only "compressed although below threshold"
                if strict_threshold and threshold is not None and \
                        dlen < threshold:
                    raise FrameError('compressed a payload of %d bytes below '
                                     'threshold %d' % (dlen, threshold))
                info['compressed'] = True
            else:
                # an uncompressed body of any size is acceptable to a vanilla
                # peer (only "compressed but below threshold" is rejected)
                payload = body[q:]
        else:
            payload = body
        try:
            pid, r = varint.decode(payload, 0)
        except EOFError:
            raise FrameError('frame without packet id at %d' % start)
        out.append((pid, payload[r:], info))
    return out, 0


def selftest():
    f = frame(0x0F, b'hello')
    assert f == bytes([6, 0x0F]) + b'hello'
    assert parse_stream(f)[0][0][:2] == (0x0F, b'hello')
    f2 = frame(0x0F, b'hello', threshold=256)
    assert f2 == bytes([7, 0, 0x0F]) + b'hello'
    big = b'x' * 300
    f3 = frame(1, big, threshold=256)
    (pid, data, info), = parse_stream(f3, True, 256)[0]
    assert (pid, data, info['compressed']) == (1, big, True)
    assert parse_stream(f3[:-1], True, 256) == ([], len(f3) - 1)
    return True
