"""Independent LEB128 (Minecraft VarInt/VarLong) reference, from the protocol
text: 7 payload bits per byte, least significant group first, bit 7 set on
every byte except the last."""


def encode(n):
    if n < 0:
        raise ValueError('unsigned only')
    groups = []
    while True:
        groups.append(n % 128)
        n //= 128
        if n == 0:
            break
    return bytes(g + (128 if i < len(groups) - 1 else 0)
                 for i, g in enumerate(groups))


def encode_padded(n, width):
    """Non-minimal form of fixed width (what writers that reserve the space
    for a length in advance emit): continuation bits on all but the last
    group, high groups zero."""
    if n >= 1 << (7 * width):
        return encode(n)
    groups = [(n >> (7 * i)) & 0x7F for i in range(width)]
    return bytes(g | (0x80 if i < width - 1 else 0)
                 for i, g in enumerate(groups))


def encode_signed(n, bits):
    """Two's-complement form the protocol uses for negative VarInt/VarLong."""
    return encode(n % (1 << bits))


def size(n):
    s = 1
    while n >= 128:
        n //= 128
        s += 1
    return s


def decode(data, pos=0):
    """Returns (value, new_pos); raises EOFError when data ends first."""
    value, shift = 0, 0
    while True:
        if pos >= len(data):
            raise EOFError('truncated varint')
        b = data[pos]
        pos += 1
        value += (b % 128) * (2 ** shift)
        shift += 7
        if b < 128:
            return value, pos


def terminator_index(data):
    """Index of the first byte without the continuation bit, or None."""
    for i, b in enumerate(data):
        if b < 128:
            return i
    return None
