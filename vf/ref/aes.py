"""Pure-Python AES-128 block encryption (FIPS-197), used only as the block
primitive under the independent CFB8 implementation."""


def _xtime(a):
    a <<= 1
    return (a ^ 0x11B) & 0xFF if a & 0x100 else a


def _gmul(a, b):
    r = 0
    while b:
        if b & 1:
            r ^= a
        a = _xtime(a)
        b >>= 1
    return r


def _make_sbox():
    # multiplicative inverse in GF(2^8) followed by the affine transform
    inv = [0] * 256
    for a in range(1, 256):
        for b in range(1, 256):
            if _gmul(a, b) == 1:
                inv[a] = b
                break
    sbox = []
    for a in range(256):
        x = inv[a]
        y = x
        for _ in range(4):
            x = ((x << 1) | (x >> 7)) & 0xFF
            y ^= x
        sbox.append(y ^ 0x63)
    return sbox


SBOX = _make_sbox()
RCON = [0x01, 0x02, 0x04, 0x08, 0x10, 0x20, 0x40, 0x80, 0x1B, 0x36]


def expand_key(key):
    assert len(key) == 16
    w = [list(key[4 * i:4 * i + 4]) for i in range(4)]
    for i in range(4, 44):
        t = list(w[i - 1])
        if i % 4 == 0:
            t = t[1:] + t[:1]
            t = [SBOX[b] for b in t]
            t[0] ^= RCON[i // 4 - 1]
        w.append([a ^ b for a, b in zip(w[i - 4], t)])
    return [sum((w[4 * r + c] for c in range(4)), []) for r in range(11)]


def encrypt_block(round_keys, block):
    s = [b ^ k for b, k in zip(block, round_keys[0])]
    for r in range(1, 11):
        s = [SBOX[b] for b in s]
        # shift rows (state is column-major: s[4*c + r])
        s = [s[4 * ((c + row) % 4) + row] for c in range(4) for row in range(4)]
        if r != 10:
            out = []
            for c in range(4):
                a = s[4 * c:4 * c + 4]
                out += [
                    _gmul(a[0], 2) ^ _gmul(a[1], 3) ^ a[2] ^ a[3],
                    a[0] ^ _gmul(a[1], 2) ^ _gmul(a[2], 3) ^ a[3],
                    a[0] ^ a[1] ^ _gmul(a[2], 2) ^ _gmul(a[3], 3),
                    _gmul(a[0], 3) ^ a[1] ^ a[2] ^ _gmul(a[3], 2)]
            s = out
        s = [b ^ k for b, k in zip(s, round_keys[r])]
    return bytes(s)


def selftest():
    # FIPS-197 Appendix B and C.1
    rk = expand_key(bytes.fromhex('2b7e151628aed2a6abf7158809cf4f3c'))
    assert encrypt_block(rk, bytes.fromhex(
        '3243f6a8885a308d313198a2e0370734')).hex() == \
        '3925841d02dc09fbdc118597196a0b32'
    rk = expand_key(bytes.fromhex('000102030405060708090a0b0c0d0e0f'))
    assert encrypt_block(rk, bytes.fromhex(
        '00112233445566778899aabbccddeeff')).hex() == \
        '69c4e0d86a7b0430d8cdb78070b4c55a'
    return True
