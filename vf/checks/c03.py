"""C03 - VarInt/VarLong decoding is bounded; encoding terminates and is canonical.

Monitor: a counting stream records every read() the real decoder performs
(bytes consumed, reads after end of data); a sys.monitoring step budget turns
"encoding never terminates" into an observable event.  Oracle: vf.ref.varint.
"""
import itertools

from ..probes.linemon import LineMonitor, budgeted
from ..ref import varint as ref

SHARDS = {'quick': 4, 'thorough': 16}


class SpinDetected(BaseException):
    pass


class CountingStream(object):
    __slots__ = ('data', 'pos', 'reads', 'empty_reads')

    def __init__(self, data):
        self.data, self.pos, self.reads, self.empty_reads = data, 0, 0, 0

    def read(self, n=None):
        self.reads += 1
        if self.reads > 64:
            raise SpinDetected()
        if n is None:
            n = len(self.data) - self.pos
        out = self.data[self.pos:self.pos + n]
        self.pos += len(out)
        if not out and n:
            self.empty_reads += 1
        return out


def check_decode(run, T, name, nominal, data):
    s = CountingStream(data)
    try:
        value = T.read(s)
        outcome = 'ret'
    except SpinDetected:
        run.violation('decode/%s/spin' % name,
                      '%s.read kept reading (64 reads) - no bound' % name,
                      {'data': data})
        return
    except (EOFError, ValueError) as e:
        value, outcome = e, 'raise'
    except Exception as e:  # other exception types still count as "raises"
        value, outcome = e, 'raise'
        run.count('decode.other_exception_types')
    t = ref.terminator_index(data)
    consumed = s.pos
    w = {'type': name, 'data': data, 'outcome': outcome,
         'value': value if outcome == 'ret' else repr(value),
         'consumed': consumed}
    if consumed > nominal + 1:
        run.violation('decode/%s/consumed>max+1' % name,
                      'read consumed more than nominal max + 1 bytes', w)
    if t is not None and consumed > t + 1:
        run.violation('decode/%s/past-terminator' % name,
                      'read consumed bytes after the terminating byte', w)
    if s.empty_reads > 1:
        run.violation('decode/%s/reads-after-eof' % name,
                      'kept reading after end of stream', w)
    if outcome == 'ret':
        run.count('decode.returned')
        if t is None or t + 1 > nominal + 1:
            run.violation('decode/%s/returned-without-terminator' % name,
                          'returned a value for a truncated/over-long '
                          'encoding', w)
            return
        exp, _ = ref.decode(data)
        if not isinstance(value, int) or isinstance(value, bool) \
                or value < 0 or value != exp:
            w['expected'] = exp
            run.violation('decode/%s/wrong-value' % name,
                          'decoded value differs from reference', w)
        if consumed != t + 1:
            run.violation('decode/%s/cursor' % name,
                          'cursor not just after the terminating byte', w)
    else:
        run.count('decode.raised')
        if t is not None and t + 1 <= nominal and \
                data[:t + 1] == ref.encode(ref.decode(data)[0]):
            # canonical encoding within the nominal width must decode
            run.violation('decode/%s/raised-on-valid' % name,
                          'raised on a canonical in-width encoding', w)
        elif t is not None and t + 1 <= nominal:
            # the statement allows raising only at end of stream or on an
            # over-long encoding: a terminated encoding within the nominal
            # width - also a zero-padded one, as fixed-width writers emit -
            # is neither
            run.violation('decode/%s/raised-on-padded' % name, 'raised on a '
                          'terminated, in-width (non-minimal) encoding', w)


def stream_kinds(run, types, thorough):
    """The decode result must not depend on what kind of file object the
    bytes come from or on how they trickle in: the same encodings are decoded
    from io.BytesIO and from an io.BufferedReader (what open(..., 'rb') and
    socket.makefile('rb') return) over a raw stream that delivers them in every
    possible partition into chunks."""
    import io

    class ChunkedRaw(io.RawIOBase):
        def __init__(self, chunks):
            self.chunks = list(chunks)

        def readable(self):
            return True

        def readinto(self, b):
            if not self.chunks:
                return 0
            c = self.chunks[0]
            n = min(len(b), len(c))
            b[:n] = c[:n]
            if n == len(c):
                self.chunks.pop(0)
            else:
                self.chunks[0] = c[n:]
            return n

    def outcome(T, stream):
        try:
            return ('ret', T.read(stream))
        except EOFError:
            return ('raise', 'EOFError')
        except ValueError:
            return ('raise', 'ValueError')
        except Exception as e:
            return ('raise', type(e).__name__)
    rng = run.rng('stream-kinds')
    vectors = []
    for k in range(0, 64, 7):
        for n in (2 ** k - 1, 2 ** k, 2 ** k + 1):
            if n >= 0:
                vectors.append(ref.encode(n))
    vectors += [ref.encode(2 ** 31 - 1), ref.encode(2 ** 32 - 1),
                ref.encode(2 ** 63 - 1), ref.encode(2 ** 64 - 1),
                b'\x80\x00', b'\x80\x80\x00', b'\xff\xff\xff\xff\xff\x01',
                b'\x80', b'\xff\xff', b'\x80' * 11 + b'\x01']
    vectors += [ref.encode(rng.getrandbits(rng.randrange(1, 65)))
                for _ in range(40 if thorough else 10)]
    for vi, enc in enumerate(sorted(set(vectors))):
        if not run.mine(vi):
            continue
        data = enc + b'\x5a\x5b'
        L = len(enc)
        if L <= 7:
            masks = range(2 ** (L - 1)) if L else [0]
        else:
            masks = sorted({0, 2 ** (L - 1) - 1} |
                           {rng.getrandbits(L - 1) for _ in range(40)})
        for T, name, nominal in types:
            base = outcome(T, CountingStream(data))
            plain = io.BytesIO(data)
            o = outcome(T, plain)
            rest = plain.read()
            ok_rest = None
            if base[0] == 'ret':
                ok_rest = data[ref.terminator_index(data) + 1:]
            if o != base or (ok_rest is not None and rest != ok_rest):
                run.violation('decode/%s/stream-kind/BytesIO' % name, 'decoding'
                              ' from io.BytesIO differs from decoding the same'
                              ' bytes from a plain read() stream', {
                                  'data': data, 'plain': base, 'got': o,
                                  'left': rest})
            for mask in masks:
                cuts = [i + 1 for i in range(L - 1) if mask >> i & 1]
                chunks, prev = [], 0
                for c in cuts + [len(data)]:
                    chunks.append(data[prev:c])
                    prev = c
                for bufsize in (8192, 1, 3):
                    rd = io.BufferedReader(ChunkedRaw(chunks), bufsize)
                    o = outcome(T, rd)
                    rest = rd.read()
                    run.count('stream_kinds.partitions')
                    if o != base or (ok_rest is not None and
                                     rest != ok_rest):
                        run.violation(
                            'decode/%s/stream-kind/buffered-partial' % name,
                            'decoding through a buffered reader whose buffer '
                            'holds only part of the encoding differs from '
                            'decoding the same bytes from a plain stream', {
                                'data': data, 'chunks': [len(c) for c in
                                                         chunks],
                                'buffer_size': bufsize, 'plain': base,
                                'got': o, 'left': rest,
                                'expected_left': ok_rest})
                        break
            run.case(('stream-kinds', name, enc))


def sinks_and_overrides(run, types, thorough):
    """(a) A sink may keep the object it is handed and look at it later (a
    transport that coalesces writes, a mock): what it was handed must still be
    the encoding then.  (b) A stream class may override read() (a frame-limited
    or counting PacketBuffer): the decoder must go through that read()."""
    from minecraft.networking.packets import PacketBuffer
    rng = run.rng('sinks')

    class KeepingSink(object):
        def __init__(self):
            self.kept = []

        def send(self, data):
            self.kept.append(data)          # no copy

    for T, name, nominal in types:
        sink = KeepingSink()
        values = [rng.getrandbits(rng.randrange(1, 8 * nominal - 3))
                  for _ in range(60)] + [0, 127, 128, 2 ** 31 - 1]
        values = [v for v in values if len(ref.encode(v)) <= nominal]
        for v in values:
            T.send(v, sink)
        got = b''.join(bytes(k) for k in sink.kept)
        exp = b''.join(ref.encode(v) for v in values)
        run.count('sinks.kept_chunks', len(sink.kept))
        if got != exp:
            run.violation('encode/%s/chunk-changed-after-send' % name, 'what a '
                          'sink was handed by send() no longer holds the '
                          'encoding when the sink looks at it later (a '
                          'shared buffer was handed out)', {
                              'values': values[:6],
                              'first_chunks': [bytes(k) for k in
                                               sink.kept[:4]]})

    class CountingBuffer(PacketBuffer):
        """A buffer that limits reads to the current frame."""

        def __init__(self, limit):
            PacketBuffer.__init__(self)
            self.limit, self.taken, self.read_calls = limit, 0, 0

        def read(self, length=None):
            self.read_calls += 1
            room = self.limit - self.taken
            n = room if length is None else min(length, room)
            out = PacketBuffer.read(self, n) if n > 0 else b''
            self.taken += len(out)
            return out
    for T, name, nominal in types:
        for v in (300, 2 ** 21 + 5, 2 ** 28 + 1):
            enc = ref.encode(v)
            for limit in range(0, len(enc) + 2):
                buf = CountingBuffer(limit)
                buf.send(enc + b'\x05')          # next frame starts with 5
                buf.reset_cursor()
                try:
                    got = ('ret', T.read(buf))
                except EOFError:
                    got = ('raise', 'EOFError')
                except Exception as e:
                    got = ('raise', type(e).__name__)
                want = ('ret', v) if limit >= len(enc) else ('raise',
                                                             'EOFError')
                run.count('overridden_read.decodes')
                if got != want or buf.taken > limit or (
                        buf.read_calls == 0 and limit > 0):
                    run.violation('decode/%s/bypasses-stream-read' % name,
                                  'the decoder did not go through the '
                                  'stream\'s own read() (a buffer class that '
                                  'overrides it)', {
                                      'value': v, 'frame_limit': limit,
                                      'got': got, 'expected': want,
                                      'read_calls': buf.read_calls})
                    break


def second_api_and_reuse(run, types, thorough):
    """(a) `read_with_context`/`send_with_context` are the same codec as
    `read`/`send` (packet definitions go through them); (b) decoding does not
    depend on what an *earlier* read on the same stream object ran into: after
    a read that was cut short, the object is refilled/rewound and read again."""
    import io
    from minecraft.networking.connection import ConnectionContext
    from minecraft.networking.packets import PacketBuffer
    ctx = ConnectionContext(protocol_version=757)
    rng = run.rng('second-api')
    values = [0, 1, 127, 128, 2 ** 21 - 1, 2 ** 28, 2 ** 31 - 1, 2 ** 32 - 1,
              2 ** 35, 2 ** 42 - 1, 2 ** 42, 2 ** 49, 2 ** 56, 2 ** 63 - 1,
              2 ** 63, 2 ** 64 - 1] + [rng.getrandbits(rng.randrange(1, 65))
                                       for _ in range(200 if thorough else 40)]
    for i, n in enumerate(values):
        if not run.mine(i):
            continue
        enc = ref.encode(n)
        for T, name, nominal in types:
            if len(enc) > nominal:
                continue
            s1, s2 = CountingStream(enc + b'\x5a'), CountingStream(enc + b'\x5a')
            try:
                a = ('ret', T.read(s1), s1.pos)
            except Exception as e:
                a = ('raise', type(e).__name__, None)
            try:
                b = ('ret', T.read_with_context(s2, ctx), s2.pos)
            except Exception as e:
                b = ('raise', type(e).__name__, None)
            run.count('second_api.decodes')
            if a != b or a[:2] != ('ret', n):
                run.violation('decode/%s/with-context-differs' % name,
                              'read_with_context does not decode like read',
                              {'n': n, 'read': a, 'read_with_context': b})
            b1, b2 = PacketBuffer(), PacketBuffer()
            try:
                T.send(n, b1)
                T.send_with_context(n, b2, ctx)
                same = b1.get_writable() == b2.get_writable() == enc
            except Exception as e:
                same = repr(e)
            if same is not True:
                run.violation('encode/%s/with-context-differs' % name,
                              'send_with_context does not encode like send',
                              {'n': n, 'detail': same})
    # (b) one stream object, a truncated read, then fresh content
    shapes = [b'\xff', b'\x80\x80', b'\xff\xff\xff', b'\x80' * 4,
              b'\xff' * 6, b'\x81\x82\x83\x84\x85\x86\x87']
    follow = [0, 1, 127, 128, 300, 2 ** 28, 2 ** 31 - 1, 2 ** 32 - 1]
    for j, cut in enumerate(shapes):
        if not run.mine(1000 + j):
            continue
        for T, name, nominal in types:
            for T2, name2, nominal2 in types:
                for n in follow:
                    enc = ref.encode(n)
                    for kind in ('PacketBuffer', 'BytesIO'):
                        if kind == 'PacketBuffer':
                            st = PacketBuffer()
                            st.send(cut)
                            st.reset_cursor()
                        else:
                            st = io.BytesIO(cut)
                        try:
                            T.read(st)
                            first = 'ret'
                        except (EOFError, ValueError):
                            first = 'raise'
                        # the application re-uses the object for new data
                        if kind == 'PacketBuffer':
                            st.reset()
                            st.send(enc + b'\x5a')
                            st.reset_cursor()
                        else:
                            st.seek(0)
                            st.truncate()
                            st.write(enc + b'\x5a')
                            st.seek(0)
                        try:
                            got = ('ret', T2.read(st))
                        except Exception as e:
                            got = ('raise', type(e).__name__)
                        run.count('second_api.reads_after_a_truncated_read')
                        rest = st.read()
                        if got != ('ret', n) or rest != b'\x5a':
                            run.violation(
                                'decode/%s/depends-on-earlier-read' % name2,
                                'a read that follows a truncated read on the '
                                'same (refilled) stream object does not decode'
                                ' the new content on its own', {
                                    'truncated': cut, 'first_type': name,
                                    'first': first, 'stream': kind, 'n': n,
                                    'got': got, 'left': rest})
                            break


def reentrant_use(run, types, thorough):
    """The codec called from inside a callback of itself, on the same thread:
    a de-framing stream whose read() has to decode the next record's length
    (with the same type) before it can serve the bytes, and a sink whose
    send() encodes a count of its own."""
    from minecraft.networking.packets import PacketBuffer
    rng = run.rng('reentrant')
    for T, name, _nom in types:
        width = 64 if name == 'VarLong' else 31

        class Deframer(object):
            """records: [length as T][payload]; read(n) serves payload bytes
            and crosses into the next record by decoding its length"""
            def __init__(self, payload, sizes):
                raw, pos = b'', 0
                for k in sizes:
                    raw += ref.encode(k) + payload[pos:pos + k]
                    pos += k
                self.inner = CountingStream(raw)
                self.cur = b''
                self.nested = 0

            def read(self, n):
                if not self.cur:
                    if self.inner.pos >= len(self.inner.data):
                        return b''
                    self.nested += 1
                    k = T.read(self.inner)
                    self.cur = self.inner.read(k)
                out, self.cur = self.cur[:n], self.cur[n:]
                return out

        class CountingSink(object):
            """send() keeps the chunk and notes its length in a side channel,
            encoded with the same type"""
            def __init__(self):
                self.chunks, self.side = [], PacketBuffer()

            def send(self, data):
                self.chunks.append(bytes(data))
                T.send(len(data) + 200, self.side)

        for rep in range(400 if thorough else 60):
            v = rng.getrandbits(rng.randrange(8, width))
            enc = ref.encode(v)
            sizes, left = [], len(enc)
            while left:
                k = rng.choice((1, 1, 2, left))
                k = min(k, left)
                sizes.append(k)
                left -= k
            st = Deframer(enc, sizes)
            try:
                back = T.read(st)
            except Exception as e:
                back = repr(e)
            run.count('reentrant_decodes')
            run.case(('reentrant', name, v, tuple(sizes)))
            if back != v:
                run.violation('decode/%s/reentrant-stream' % name,
                              'decoding from a stream whose read() itself '
                              'decodes a value of the same type (record '
                              'lengths) gives a wrong result', {
                                  'type': name, 'value': v, 'got': back,
                                  'record_sizes': sizes,
                                  'nested_decodes': st.nested})
                break
            sink = CountingSink()
            try:
                T.send(v, sink)
                got = b''.join(sink.chunks)
            except Exception as e:
                got = repr(e)
            run.count('reentrant_encodes')
            if got != enc:
                run.violation('encode/%s/reentrant-sink' % name,
                              'encoding into a sink whose send() itself '
                              'encodes a value of the same type gives wrong '
                              'bytes', {'type': name, 'value': v, 'got': got,
                                        'expected': enc})
                break


def run(run):
    from minecraft.networking.types import VarInt, VarLong
    from minecraft.networking.packets import PacketBuffer
    run.level = 'exploration'
    thorough = run.tier == 'thorough'
    run.rule = ('decode: every byte string of length <= %d (exhaustive), every '
                'continuation-bit shape up to 13 bytes with payload bits '
                '{0,1,0x7f,random} and every truncation, seeded random strings;'
                ' encode: every n < 2^%d, 2^k-1/2^k/2^k+1 for k<=77, seeded '
                'random in-domain n, negatives (termination under a line-event'
                ' step budget). A case is distinct by (type, bytes) / (type, n).'
                % (3 if thorough else 2, 21 if thorough else 16))
    run.assumptions = [
        'vf.ref.varint (self-tested against the protocol page examples) is the'
        ' oracle', 'a step budget of 20000 line events stands for "does not '
        'terminate" (a canonical 12-byte encoding needs < 100)']
    types = [(VarInt, 'VarInt', 5), (VarLong, 'VarLong', 10)]

    # ---- decode: exhaustive short strings -------------------------------
    maxlen = 3 if thorough else 2
    idx = 0
    for L in range(0, maxlen + 1):
        if L == 3:
            # shard by first byte
            firsts = [b for b in range(256) if run.mine(b)]
            for b0 in firsts:
                for b1 in range(256):
                    for b2 in range(256):
                        data = bytes((b0, b1, b2))
                        for T, name, nominal in types:
                            check_decode(run, T, name, nominal, data)
                run.bulk(2 * 65536, 2 * 65536)
            continue
        for tup in itertools.product(range(256), repeat=L):
            idx += 1
            if not run.mine(idx):
                continue
            data = bytes(tup)
            for T, name, nominal in types:
                check_decode(run, T, name, nominal, data)
            run.bulk(2, 2)
    run.exhaustive = True
    run.extra['exhaustive_part'] = 'all byte strings of length <= %d' % maxlen

    # ---- decode: continuation shapes up to 13 bytes ------------------------
    rng = run.rng('shapes')
    n_shapes = 0
    for L in range(1, 14):
        for k in range(0, L + 1):           # k continuation bytes first
            for payload in (0, 1, 0x7F, None):
                for rep in range(3 if payload is None else 1):
                    n_shapes += 1
                    if not run.mine(n_shapes):
                        continue
                    bs = []
                    for i in range(L):
                        p = payload if payload is not None \
                            else rng.randrange(128)
                        if i < k:
                            bs.append(0x80 | p)
                        elif i == k:
                            bs.append(p)
                        else:
                            bs.append(rng.randrange(256))
                    data = bytes(bs)
                    for cut in range(len(data) + 1):   # every truncation
                        for T, name, nominal in types:
                            check_decode(run, T, name, nominal, data[:cut])
                            run.case((name, data[:cut]))
    rng = run.rng('random-decode')
    for i in range(40000 if thorough else 4000):
        L = rng.randrange(1, 16)
        data = bytes(rng.randrange(256) if rng.random() < 0.5
                     else 0x80 | rng.randrange(128) for _ in range(L))
        for T, name, nominal in types:
            check_decode(run, T, name, nominal, data)
            run.case((name, data))

    # ---- encode ------------------------------------------------------------
    def check_encode(T, name, bits, n, judge_canonical=True):
        buf = PacketBuffer()
        try:
            T.send(n, buf)
        except Exception as e:
            if judge_canonical:
                run.violation('encode/%s/raised' % name,
                              'send raised for an in-domain integer',
                              {'n': n, 'exc': repr(e)})
            return
        got = buf.get_writable()
        if not judge_canonical:
            return
        exp = ref.encode(n)
        if got != exp:
            run.violation('encode/%s/not-canonical' % name,
                          'send() bytes differ from canonical LEB128',
                          {'n': n, 'got': got, 'expected': exp})
            return
        try:
            sz = T.size(n)
        except Exception as e:
            sz = repr(e)
        if sz != len(exp):
            run.violation('encode/%s/size' % name,
                          'size(n) != encoded length',
                          {'n': n, 'size': sz, 'len': len(exp)})
        s = CountingStream(got + b'\x5a')
        try:
            back = T.read(s)
        except Exception as e:
            back = repr(e)
        if back != n or s.pos != len(got):
            run.violation('encode/%s/roundtrip' % name,
                          'read(send(n)) != n or cursor off',
                          {'n': n, 'back': back, 'pos': s.pos})

    top = (1 << 21) if thorough else (1 << 16)
    for n in range(run.shard, top, run.nshards):
        check_encode(VarInt, 'VarInt', 32, n)
    run.bulk(len(range(run.shard, top, run.nshards)),
             len(range(run.shard, top, run.nshards)))
    for n in range(run.shard, 1 << 14, run.nshards):
        check_encode(VarLong, 'VarLong', 64, n)
        run.case(('VarLong', n))
    ks = 0
    for k in range(0, 78):
        for d in (-1, 0, 1):
            n = (1 << k) + d
            ks += 1
            if n < 0 or not run.mine(ks):
                continue
            check_encode(VarInt, 'VarInt', 32, n, judge_canonical=n < 2 ** 32)
            check_encode(VarLong, 'VarLong', 64, n, judge_canonical=n < 2 ** 64)
            run.case(('pow', n))
    rng = run.rng('random-encode')
    for i in range(200000 if thorough else 20000):
        bits = rng.randrange(1, 65)
        n = rng.getrandbits(bits)
        if n < 2 ** 32:
            check_encode(VarInt, 'VarInt', 32, n)
        check_encode(VarLong, 'VarLong', 64, n)
        run.case(('rnd', n))

    # ---- termination for every integer, incl. negatives ---------------------
    negs = [-1, -2, -127, -128, -129, -2 ** 31, -2 ** 31 - 1, -2 ** 63,
            -2 ** 64, -2 ** 77] + [-rng.getrandbits(rng.randrange(1, 70)) - 1
                                   for _ in range(20)]
    bigs = [2 ** 77, 2 ** 84 - 1, 2 ** 84, 2 ** 200]
    with LineMonitor(files=['minecraft/networking/types/basic.py'],
                     budget=20000) as mon:
        for j, n in enumerate(negs + bigs):
            if not run.mine(j):
                continue
            for T, name in ((VarInt, 'VarInt'), (VarLong, 'VarLong')):
                buf = PacketBuffer()
                kind, res = budgeted(mon, T.send, n, buf)
                run.case(('term', name, n))
                run.count('termination.' + kind)
                if kind == 'budget':
                    run.violation(
                        'encode/nontermination/%s' % (
                            'negative' if n < 0 else 'large'),
                        '%s.send(n) did not terminate within the step budget'
                        % name, {'n': n, 'where': res,
                                 'buffer_len': len(buf.get_writable())})
                elif kind == 'ok' and n < 0:
                    # if it returns for a negative it must be the documented
                    # two's-complement form of some width, or at least finite
                    run.count('termination.negative_returned')
        # ... and whatever the sink's send() *returns* (a socket reports how
        # many bytes it took; other sinks return None, a bool, anything):
        # encoding terminates - by returning or by raising
        class ReturningSink(object):
            def __init__(self, rets):
                self.rets, self.calls, self.n = rets, 0, 0

            def send(self, data):
                self.n += len(data)
                r = self.rets[min(self.calls, len(self.rets) - 1)]
                self.calls += 1
                if self.n > 10 ** 6:
                    raise StepBudgetExceededBySink()
                return r if r != 'len' else len(data)

        class StepBudgetExceededBySink(BaseException):
            pass
        rets_list = [[None], ['len'], [1], [0], [2, 1], [1, 1, 1, 1], [-1],
                     [True], [False], [10 ** 9], ['1'], [1.0]]
        for j, rets in enumerate(rets_list):
            if not run.mine(j):
                continue
            for T, name in ((VarInt, 'VarInt'), (VarLong, 'VarLong')):
                for n in (1, 300, 2 ** 14, 2 ** 21 + 5, 2 ** 31 - 1):
                    sink = ReturningSink(rets)
                    try:
                        kind, res = budgeted(mon, T.send, n, sink)
                    except StepBudgetExceededBySink:
                        kind, res = 'budget', 'more than 10^6 bytes sent'
                    run.case(('term-ret', name, n, repr(rets)))
                    run.count('termination.sink_return_values')
                    if kind == 'budget':
                        run.violation(
                            'encode/nontermination/sink-return-value',
                            '%s.send(n) did not terminate: the sink\'s send() '
                            'returned %r' % (name, rets),
                            {'n': n, 'where': res, 'send_calls': sink.calls})
                        break
        run.count('termination.line_events', mon.events)
    # ---- a failing sink must not poison later encodings ---------------------
    class FailingSink(object):
        def __init__(self, fail_at=1):
            self.calls, self.fail_at = 0, fail_at

        def send(self, data):
            self.calls += 1
            if self.calls >= self.fail_at:
                raise BrokenPipeError(32, 'Broken pipe')
    for j in range(200 if thorough else 40):
        if not run.mine(j):
            continue
        a = rng.getrandbits(rng.randrange(1, 64))
        b = rng.getrandbits(rng.randrange(1, 64))
        T1, T2 = rng.choice(types)[0], rng.choice(types)[0]
        try:
            T1.send(a, FailingSink())
            failed = False
        except OSError:
            failed = True
        buf = PacketBuffer()
        if T2 is types[0][0]:
            b &= 2 ** 32 - 1               # the 32-bit type's own domain
        try:
            T2.send(b, buf)
        except Exception as e:
            run.violation('encode/%s/raised' % T2.__name__, 'send raised for '
                          'an in-domain integer', {'n': b, 'exc': repr(e)})
            break
        run.case(('after-failed-send', a, b))
        run.count('sends_after_failed_send')
        if not failed:
            run.count('failing_sink_error_swallowed')
        if buf.get_writable() != ref.encode(b):
            run.violation('encode/after-failed-send', 'an encoding written '
                          'after an earlier send() had failed in the sink is '
                          'not the canonical encoding of its own value',
                          {'failed_value': a, 'value': b,
                           'got': buf.get_writable(),
                           'expected': ref.encode(b)})
            break

    # ---- two threads encoding/decoding at the same time ---------------------
    if run.shard < 2:
        import sys
        import threading
        errors = []
        old_si = sys.getswitchinterval()
        sys.setswitchinterval(1e-6)

        def hammer(seed, n):
            import random
            r = random.Random(seed)
            for _ in range(n):
                T, name, _nom = types[r.randrange(2)]
                v = r.getrandbits(r.randrange(1, 64 if name == 'VarLong'
                                              else 32))
                buf = PacketBuffer()
                try:
                    T.send(v, buf)
                    got = buf.get_writable()
                    st = CountingStream(ref.encode(v))
                    back = T.read(st)
                except Exception as e:
                    errors.append({'type': name, 'value': v,
                                   'raised': repr(e)})
                    return
                if got != ref.encode(v):
                    errors.append({'type': name, 'value': v, 'got': got,
                                   'expected': ref.encode(v)})
                    return
                if back != v:
                    errors.append({'type': name, 'value': v,
                                   'decode': 'wrong'})
                    return
        try:
            n = 60000 if thorough else 12000
            ts = [threading.Thread(target=hammer, args=(run.seed * 7 + k, n))
                  for k in range(3)]
            for t in ts:
                t.start()
            for t in ts:
                t.join(300.0)
            run.bulk(3 * n, 0)
            run.count('concurrent_codec_calls', 3 * n)
            # the same under yield injection at every statement of the codec
            # module: a pre-emption *inside* an encoding or decoding loop is
            # then the rule, not a matter of luck
            if not errors:
                n2 = 6000 if thorough else 1500
                with LineMonitor(files=['minecraft/networking/types/basic.py'],
                                 yield_prob=0.3, seed=run.seed) as mon:
                    ts = [threading.Thread(target=hammer,
                                           args=(run.seed * 11 + k, n2))
                          for k in range(4)]
                    for t in ts:
                        t.start()
                    for t in ts:
                        t.join(300.0)
                    run.count('concurrent_codec_calls_with_yield_injection',
                              4 * n2)
                    run.count('codec_yields_injected', mon.yields)
        finally:
            sys.setswitchinterval(old_si)
        # and decided systematically for one switch: thread A's call is
        # stopped at each of its statements in turn while thread B encodes /
        # decodes another value
        if not errors:
            from ..probes.linemon import PreemptEverywhere
            pe = PreemptEverywhere(['minecraft/networking/types/basic.py'],
                                   max_k=80)
            for T, name, _nom in types:
                for va, vb in ((300, 2 ** 28 + 5), (2 ** 31 - 1, 128),
                               (16384, 2 ** 21)):
                    ea, eb = ref.encode(va), ref.encode(vb)

                    def enc(v):
                        buf = PacketBuffer()
                        T.send(v, buf)
                        return buf.get_writable()

                    def judge(k, ra, rb, T=T, name=name, va=va, vb=vb, ea=ea,
                              eb=eb, what='encode'):
                        if ra != ('ok', ea) or rb != ('ok', eb):
                            return {'type': name, 'op': what, 'values':
                                    (va, vb), 'stopped_after_statements': k,
                                    'thread_a': repr(ra), 'thread_b': repr(rb)}
                    wit = pe.run(lambda: enc(va), lambda: enc(vb), judge)
                    if not wit:
                        def judge_d(k, ra, rb, name=name, va=va, vb=vb):
                            if ra != ('ok', va) or rb != ('ok', vb):
                                return {'type': name, 'op': 'decode',
                                        'values': (va, vb),
                                        'stopped_after_statements': k,
                                        'thread_a': repr(ra),
                                        'thread_b': repr(rb)}
                        wit = pe.run(
                            lambda: T.read(CountingStream(ea)),
                            lambda: T.read(CountingStream(eb)), judge_d)
                    if wit:
                        errors.append(wit)
                        break
                if errors:
                    break
            run.count('codec_preemption_points', pe.points)
        if errors:
            run.violation('encode/concurrent', 'encodings produced by threads '
                          'running at the same time differ from the canonical '
                          'form (shared state inside the codec)', errors[0])

    if run.shard == 0:
        run.sample({'decode': 'ff ff ff ff ff 01 -> VarInt', 'encode': 300,
                    'canonical': ref.encode(300)})
        run.sample({'negatives_tried': negs[:6]})
    stream_kinds(run, types, thorough)
    second_api_and_reuse(run, types, thorough)
    if run.shard == 0:
        reentrant_use(run, types, thorough)
    if run.shard == 0:
        sinks_and_overrides(run, types, thorough)
    run.require('stream_kinds.partitions', 200)
    run.require('second_api.decodes', 20)
    run.require('second_api.reads_after_a_truncated_read', 50)
    run.require('decode.returned', 100)
    run.require('decode.raised', 100)
    run.require('termination.line_events', 50)
    run.require('sends_after_failed_send', 5)
    run.require('concurrent_codec_calls', 1000)
