"""Helper for C05: prints, as JSON, the field layout every definition-driven
packet class reports for every supported version, visiting the versions in the
requested order ('asc' or 'desc') in a fresh interpreter.  Two snapshots taken
in opposite orders differ iff a layout depends on which versions were used
before (process-history dependence)."""
import json
import sys

from .. import core


def type_repr(t):
    if isinstance(t, type):
        return t.__name__
    slots = getattr(type(t), '__slots__', ())
    slots = (slots,) if isinstance(slots, str) else slots
    return '%s(%s)' % (type(t).__name__, ','.join(
        type_repr(getattr(t, s)) if not isinstance(getattr(t, s), int)
        else str(getattr(t, s)) for s in slots))


def main(order):
    minecraft = core.load_repo()
    from minecraft.networking.connection import ConnectionContext
    from minecraft.networking.packets import Packet, clientbound, serverbound
    tables = [clientbound.handshake, clientbound.status, clientbound.login,
              clientbound.play, serverbound.handshake, serverbound.status,
              serverbound.login, serverbound.play]
    versions = list(minecraft.SUPPORTED_PROTOCOL_VERSIONS)
    if order == 'desc':
        versions.reverse()
    out = {}
    for pv in versions:
        ctx = ConnectionContext(protocol_version=pv)
        for mod in tables:
            for K in sorted(mod.get_packets(ctx),
                            key=lambda k: (k.__module__, k.__qualname__)):
                if K.read is not Packet.read:
                    continue
                try:
                    d = [[(n, type_repr(t)) for n, t in f.items()]
                         for f in K.get_definition(ctx)]
                except Exception as e:
                    d = repr(e)
                # touch the codec as ordinary use would
                try:
                    repr(K(context=ctx))
                except Exception:
                    pass
                out['%d %s.%s' % (pv, K.__module__, K.__qualname__)] = d
    json.dump(out, sys.stdout)


if __name__ == '__main__':
    main(sys.argv[1])
