"""Helper for C17: computes the server hash of a few server ids (ASCII and
not) in a fresh interpreter whose environment the caller has chosen (locale,
PYTHONUTF8, ...) and prints them as JSON.  The hash is a function of its three
arguments only."""
import json
import sys

from .. import core

IDS = ['', 'srv', 'zweite-é', '€100', '\U0001F600', 'café 中']


def main():
    core.load_repo()
    from minecraft.networking import encryption
    out = {}
    for sid in IDS:
        try:
            out[sid] = encryption.generate_verification_hash(
                sid, bytes(range(16)), b'key' * 30)
        except Exception as e:
            out[sid] = 'raised: %r' % (e,)
    import locale
    out['__encoding__'] = locale.getpreferredencoding(False)
    sys.stdout.write(json.dumps(out))


if __name__ == '__main__':
    main()
