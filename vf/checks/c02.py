"""C02 - primitive wire types encode/decode exactly as the protocol prescribes.

Monitors: a recording sink (every send() the real encoder performs), a counting
stream (bytes consumed by the real decoder), a step budget (termination).
Oracle: vf.ref.wiretypes / vf.ref.varint (independent).  Prefix rule: decoding
any strict prefix of an encoding of a self-delimiting type must raise.
"""
import math
import struct
from fractions import Fraction

from ..probes.linemon import LineMonitor, budgeted
from ..ref import varint as rv
from ..ref import wiretypes as rw
from ..ref import nbtmini

SHARDS = {'quick': 4, 'thorough': 16}


class Sink(object):
    __slots__ = ('chunks',)

    def __init__(self):
        self.chunks = []

    def send(self, b):
        self.chunks.append(bytes(b))

    def value(self):
        return b''.join(self.chunks)


class Stream(object):
    __slots__ = ('data', 'pos', 'reads')

    def __init__(self, data):
        self.data, self.pos, self.reads = data, 0, 0

    def read(self, n=None):
        self.reads += 1
        if self.reads > 100000:
            raise RuntimeError('spin')
        if n is None or n < 0:
            n = len(self.data) - self.pos
        out = self.data[self.pos:self.pos + n]
        self.pos += len(out)
        return out

    recv = read


class Ctx(object):
    """Minimal stand-in for a ConnectionContext built by the real class."""


INT_EDGES = {
    8: 1, 16: 2, 32: 4, 64: 8}


def int_boundaries(bits, signed):
    lo, hi = (-(1 << (bits - 1)), (1 << (bits - 1)) - 1) if signed \
        else (0, (1 << bits) - 1)
    vals = {lo, lo + 1, hi, hi - 1, 0, 1}
    if signed:
        vals |= {-1, -2}
    for k in range(bits):
        for d in (-1, 0, 1):
            for s in ((1, -1) if signed else (1,)):
                v = s * (1 << k) + d
                if lo <= v <= hi:
                    vals.add(v)
    return sorted(vals)


def strings(rng, n, thorough):
    out = ['', 'a', 'é', '€', '\U0001F600', 'aé€\U0001F600', '\x00', '\x7f',
           '\u0080', '߿', 'ࠀ', '￿', '\U00010000', '\U0010ffff']
    for target in (126, 127, 128, 129, 255, 256) + (
            (16382, 16383, 16384, 16385) if thorough else (16383, 16384)):
        for ch in ('a', 'é', '€', '\U0001F600'):
            w = len(ch.encode())
            k, rem = divmod(target, w)
            out.append(ch * k + 'a' * rem)
    # the protocol allows strings of up to 32767 characters, i.e. up to
    # 3 * 32767 + 3 bytes of UTF-8: lengths around that limit in characters and
    # in bytes (a length check applied to the wrong unit shows here)
    # code points that text layers like to treat specially
    out += ['\ufeff', '\ufeffabc', 'a\ufeff', '\ufeff\ufeff', '\ufffe',
            '\uffff', '\u2028\u2029', '\r\n', '\x00abc', 'abc\x00',
            '\u200b', '\ud7ff\ue000', '\x85', '\x1a']
    out += ['a' * 32767, 'a' * 32766, '中' * 10922, '中' * 10923, 'я' * 16383,
            'я' * 16384, 'я' * 20000, 'é' * 32767, '中' * 32767]
    # chat components travel as this same type and may be much longer
    # (262144 characters in the protocol): no limit of its own
    out += ['a' * 32768, 'q' * 40000, 'é' * 70000, 'z' * 262144]
    # lengths that are exact multiples of common block sizes (a writer that
    # hands its payload over in slices shows its last-slice arithmetic here)
    out += ['b' * (k * 4096) for k in (1, 2, 3, 5, 10, 16, 20)] + \
        ['é' * (20 * 1024), 'k' * 65536]
    pools = ['abc XYZ', 'éüñ', '€中文', '\U0001F600\U0001F4A9', '\x00\x01\x7f']
    for _ in range(n):
        L = rng.choice((0, 1, 2, 3, 5, 17, 60, 130, 300))
        out.append(''.join(rng.choice(rng.choice(pools)) for _ in range(L)))
    return out


def byte_arrays(rng, n, maxlen):
    out = [b'', b'\x00', b'\xff', bytes(range(256))]
    for L in (127, 128, 129, 16383, 16384):
        if L <= maxlen:
            out.append(bytes(rng.randrange(256) for _ in range(L)))
    for _ in range(n):
        out.append(bytes(rng.randrange(256)
                         for _ in range(rng.choice((0, 1, 2, 7, 33, 200)))))
    # exact multiples of common block sizes (sliced hand-over)
    for L in [k * 4096 for k in (1, 2, 3, 5, 10, 16, 20, 30)] + [65536,
                                                                 100000]:
        if L <= maxlen:
            out.append(rng.randbytes(L))
    return out


def run(run):
    from minecraft.networking import types as T
    from minecraft.networking.connection import ConnectionContext
    thorough = run.tier == 'thorough'
    run.level = 'exploration'
    run.rule = ('per wire type: exhaustive values for 8/16-bit types, booleans '
                'and angle bytes; boundary sets (0, +-1, min, max, +-2^k+-1) '
                'plus seeded random values for wider integers and floats (random'
                ' bit patterns, subnormals, inf, NaN); angles incl. values '
                'rounding up to a full turn, negatives, multiples of 360; '
                'fixed point over Byte/Short/Integer carriers; strings of all '
                'four UTF-8 widths around the 1/2/3-byte length-prefix '
                'boundaries; byte arrays; UUIDs; PrefixedArray nested to depth '
                '3 incl. context-aware elements; every strict prefix (<= 64 per'
                ' encoding) of every self-delimiting encoding. Distinct = '
                '(type, value).')
    run.assumptions = ['vf.ref.wiretypes is the oracle (bit-level IEEE-754 '
                       'packing cross-checked against struct in its selftest)',
                       'one quantum tolerance for Angle and FixedPoint as the '
                       'statement grants']
    rng = run.rng('values')
    ctx_new = ConnectionContext(protocol_version=757)
    ctx_old = ConnectionContext(protocol_version=47)

    specs = []     # (name, typeobj, values, ref(v)->bytes|set, cmp(v, back), selfdelim, ctx)

    def exact(v, back):
        return type(back) is type(v) and back == v

    def add(name, t, values, ref, cmp=exact, selfdelim=True, ctx=None):
        specs.append((name, t, values, ref, cmp, selfdelim, ctx))

    add('Boolean', T.Boolean, [False, True],
        lambda v: bytes([1 if v else 0]))
    add('Byte', T.Byte, range(-128, 128), lambda v: rw.int_be(v, 1, True))
    add('UnsignedByte', T.UnsignedByte, range(256),
        lambda v: rw.int_be(v, 1, False))
    add('Short', T.Short, range(-32768, 32768),
        lambda v: rw.int_be(v, 2, True))
    add('UnsignedShort', T.UnsignedShort, range(65536),
        lambda v: rw.int_be(v, 2, False))
    nrand = 60000 if thorough else 2500
    add('Integer', T.Integer, int_boundaries(32, True) + [
        rng.randrange(-2 ** 31, 2 ** 31) for _ in range(nrand)],
        lambda v: rw.int_be(v, 4, True))
    add('Long', T.Long, int_boundaries(64, True) + [
        rng.randrange(-2 ** 63, 2 ** 63) for _ in range(nrand)],
        lambda v: rw.int_be(v, 8, True))
    add('UnsignedLong', T.UnsignedLong, int_boundaries(64, False) + [
        rng.randrange(0, 2 ** 64) for _ in range(nrand)],
        lambda v: rw.int_be(v, 8, False))
    add('VarInt', T.VarInt, int_boundaries(32, False) + [
        rng.getrandbits(rng.randrange(1, 33)) for _ in range(nrand)],
        rv.encode)
    add('VarLong', T.VarLong, int_boundaries(64, False) + [
        rng.getrandbits(rng.randrange(1, 65)) for _ in range(nrand)],
        rv.encode)

    # floats
    def fcmp(v, back):
        if v != v:
            return back != back
        return isinstance(back, float) and back == v and \
            math.copysign(1, back) == math.copysign(1, v)
    f32 = [0.0, -0.0, 1.0, -1.0, math.inf, -math.inf, math.nan,
           rw.float_from(b'\x00\x00\x00\x01'), rw.float_from(b'\x00\x7f\xff\xff'),
           rw.float_from(b'\x00\x80\x00\x00'), rw.float_from(b'\x7f\x7f\xff\xff'),
           rw.float_from(b'\xff\x7f\xff\xff'), 0.1, 1 / 3, 16777217.0, 1e-46,
           1e-45, 3.4028235e38, 359.99999]
    for _ in range(nrand * 2):
        f32.append(rw.float_from(struct.pack('>I', rng.getrandbits(32))))
    for _ in range(nrand // 4):
        f32.append(rng.uniform(-1e6, 1e6))     # not binary32-representable
    f32 = [v for v in f32 if v != v or abs(v) == math.inf
           or abs(v) <= 3.4028235677973362e38]

    def f32cmp(v, back):
        if v != v:
            return back != back
        return fcmp(rw.float_from(rw.float32(v)), back)
    add('Float', T.Float, f32,
        lambda v: None if v != v else rw.float32(v), f32cmp)
    f64 = [0.0, -0.0, 1.0, math.inf, -math.inf, math.nan, 5e-324,
           2.2250738585072014e-308, 1.7976931348623157e308, 0.1, -1e-30]
    for _ in range(nrand * 2):
        f64.append(rw.float_from(struct.pack('>Q', rng.getrandbits(64))))
    add('Double', T.Double, f64,
        lambda v: None if v != v else rw.float64(v), fcmp)

    # angle
    angles = [0, 90, 180, 270, 360, 720, -90, -360, 359.9, 359.5, 359.3,
              359.296875, 359.2968, 359.29688, -0.1, -0.7, -1e-30, 1e-30,
              360 - 1e-13, 719.9, -719.9, 1.40625, 0.703125, 0.7031249,
              0.7031251, 1e9 + 0.5, -1e9, 45.0, 44.3, 1e300, 123456.789]
    angles += [b * 360 / 256 for b in range(256)]
    angles += [b * 360 / 256 + d for b in (0, 1, 127, 128, 254, 255)
               for d in (-0.7, -0.001, 0.001, 0.7)]
    for _ in range(nrand):
        angles.append(rng.uniform(-1000, 1000))
        angles.append(float(rng.randrange(-800, 800)))
    # (the protocol does not clamp a yaw: very large magnitudes, where a
    # float product loses the turn count's low bits, are still angles)
    import sys as _sys
    angles += [1e16, -1e16, 8.44e16, -3.3e17, 2.0 ** 60 + 2.0 ** 9, 1e22,
               -7.7e40, 1e308, _sys.float_info.max, -_sys.float_info.max,
               10 ** 17 + 45, -(10 ** 20) - 90]
    for _ in range(nrand // 10):
        angles.append(rng.uniform(-1, 1) * 10.0 ** rng.randrange(15, 300))

    def angle_ref(v):
        nearest, within = rw.angle_byte_candidates(v)
        return {bytes([b]) for b in within}

    def angle_cmp(v, back):
        d = (Fraction(back) - Fraction(v)) % 360
        d = min(d, 360 - d)
        return d <= Fraction(360, 256)
    add('Angle', T.Angle, angles, angle_ref, angle_cmp)

    # fixed point: instance-based types the suite never reaches
    def fixed_spec(label, inst, carrier_bytes, n):
        den = 1 << n
        bits = carrier_bytes * 8
        lo, hi = -(1 << (bits - 1)), (1 << (bits - 1)) - 1
        vals = [0.0, 1.0, -1.0, 1.5, -1.5, 0.5, 1 / den, -1 / den,
                hi / den, lo / den, (hi - 1) / den, (lo + 1) / den,
                0.3, -0.3, 2.71828, 1, -2, 3]
        for _ in range(nrand // 2):
            vals.append(rng.randrange(lo, hi + 1) / den)
            x = rng.uniform(lo / den, hi / den)
            if lo <= math.floor(x * den) and math.ceil(x * den) <= hi:
                vals.append(x)
        vals = [v for v in vals
                if lo <= math.floor(Fraction(v) * den)
                and math.ceil(Fraction(v) * den) <= hi]

        def ref(v):
            s = Fraction(v) * den
            return {rw.int_be(i, carrier_bytes, True)
                    for i in {math.floor(s), math.ceil(s)}}

        def cmp(v, back):
            return abs(Fraction(back) - Fraction(v)) <= Fraction(1, den)
        add(label, inst, vals, ref, cmp)
    fixed_spec('FixedPoint(Integer,5)', T.FixedPoint(T.Integer), 4, 5)
    fixed_spec('FixedPointInteger', T.FixedPointInteger, 4, 5)
    fixed_spec('FixedPoint(Short,12)', T.FixedPoint(T.Short, 12), 2, 12)
    fixed_spec('FixedPoint(Byte,5)', T.FixedPoint(T.Byte), 1, 5)
    # every number of fractional bits a user may ask for, 0 included (an
    # explicit 0 is not "use the default")
    for carrier, cb in ((T.Byte, 1), (T.Short, 2), (T.Integer, 4)):
        for n in (0, 1, 4, 7):
            if n < cb * 8 - 1:
                fixed_spec('FixedPoint(%s,%d)' % (carrier.__name__, n),
                           T.FixedPoint(carrier, n), cb, n)

    add('String', T.String, strings(rng, nrand // 4, thorough), rw.string)
    add('VarIntPrefixedByteArray', T.VarIntPrefixedByteArray,
        byte_arrays(rng, nrand // 4, 140000), rw.varint_bytes)
    add('ShortPrefixedByteArray', T.ShortPrefixedByteArray,
        byte_arrays(rng, nrand // 4, 20000), rw.short_bytes)
    add('TrailingByteArray', T.TrailingByteArray,
        byte_arrays(rng, nrand // 8, 140000), bytes, selfdelim=False)
    uuids = ['00000000-0000-0000-0000-000000000000',
             'ffffffff-ffff-ffff-ffff-ffffffffffff',
             '12345678-1234-5678-1234-567812345678']
    for _ in range(nrand // 2):
        uuids.append(rw.uuid_text(bytes(rng.randrange(256)
                                        for _ in range(16))))
    add('UUID', T.UUID, uuids, rw.uuid_bytes)

    # positions (context aware; full treatment in C04)
    pos_vals = [(0, 0, 0), (-1, -1, -1), (2 ** 25 - 1, 2 ** 11 - 1, -2 ** 25),
                (-2 ** 25, -2 ** 11, 2 ** 25 - 1), (1, 2, 3)]
    add('Position@757', T.Position, [T.Position(*p) for p in pos_vals],
        lambda v: rw.pack_position(v[0], v[1], v[2], 'xzy'),
        lambda v, back: tuple(back) == tuple(v), ctx=ctx_new)
    add('Position@47', T.Position, pos_vals,
        lambda v: rw.pack_position(v[0], v[1], v[2], 'xyz'),
        lambda v, back: tuple(back) == tuple(v), ctx=ctx_old)

    # prefixed arrays, nested, with context-aware elements
    def arr_ref(len_enc, elem_enc):
        return lambda v: len_enc(len(v)) + b''.join(elem_enc(e) for e in v)
    pa1 = T.PrefixedArray(T.VarInt, T.String)
    pa1_vals = [[], [''], ['a', 'é€'], ['x'] * 130] + [
        [rng.choice(('', 'a', 'é', '€\U0001F600')) for _ in
         range(rng.randrange(6))] for _ in range(nrand // 20)]
    add('PrefixedArray(VarInt,String)', pa1, pa1_vals,
        arr_ref(rv.encode, rw.string))
    pa2 = T.PrefixedArray(T.Short, T.PrefixedArray(T.VarInt, T.Integer))
    pa2_vals = [[], [[]], [[1, -1], [], [2 ** 31 - 1]]] + [
        [[rng.randrange(-2 ** 31, 2 ** 31) for _ in range(rng.randrange(4))]
         for _ in range(rng.randrange(4))] for _ in range(nrand // 20)]
    add('PrefixedArray(Short,PrefixedArray(VarInt,Integer))', pa2, pa2_vals,
        arr_ref(lambda n: rw.int_be(n, 2, True),
                arr_ref(rv.encode, lambda v: rw.int_be(v, 4, True))))
    pa3 = T.PrefixedArray(T.UnsignedByte, T.PrefixedArray(
        T.VarInt, T.PrefixedArray(T.Byte, T.Position)))
    pa3_vals = [[], [[[]]], [[[(1, 2, 3)], []], [[(-1, -1, -1), (0, 0, 0)]]]]
    for _ in range(nrand // 40):
        pa3_vals.append([[[(rng.randrange(-2 ** 25, 2 ** 25),
                            rng.randrange(-2 ** 11, 2 ** 11),
                            rng.randrange(-2 ** 25, 2 ** 25))
                           for _ in range(rng.randrange(3))]
                          for _ in range(rng.randrange(3))]
                         for _ in range(rng.randrange(3))])

    def pa3cmp(v, back):
        return [[[tuple(p) for p in c] for c in b] for b in back] == \
               [[[tuple(p) for p in c] for c in b] for b in v]
    for label, ctx, layout in (('@757', ctx_new, 'xzy'), ('@47', ctx_old,
                                                          'xyz')):
        add('PrefixedArray^3(Position)' + label, pa3, pa3_vals,
            arr_ref(lambda n: bytes([n]), arr_ref(rv.encode, arr_ref(
                lambda n: rw.int_be(n, 1, True),
                lambda p, layout=layout: rw.pack_position(
                    p[0], p[1], p[2], layout)))), pa3cmp, ctx=ctx)

    # the same array built from *user subclasses* of the library's types (a
    # position type with helpers of the program's own, an array type with a
    # name): the element codecs are inherited, not defined in the subclass
    class UserPosition(T.Position):
        __slots__ = ()

        def manhattan(self):
            return abs(self.x) + abs(self.y) + abs(self.z)

    class UserArray(T.PrefixedArray):
        __slots__ = ()
    pa4 = T.PrefixedArray(T.UnsignedByte, UserArray(
        T.VarInt, T.PrefixedArray(T.Byte, UserPosition)))
    for label, ctx, layout in (('@757', ctx_new, 'xzy'), ('@47', ctx_old,
                                                          'xyz')):
        add('PrefixedArray^3(user subclasses)' + label, pa4, pa3_vals,
            arr_ref(lambda n: bytes([n]), arr_ref(rv.encode, arr_ref(
                lambda n: rw.int_be(n, 1, True),
                lambda p, layout=layout: rw.pack_position(
                    p[0], p[1], p[2], layout)))), pa3cmp, ctx=ctx)

    # NBT: hand-assembled compounds
    nbt_docs = nbtmini.sample_documents()

    # ---- run ------------------------------------------------------------
    mon = LineMonitor(budget=200000)
    mon.__enter__()
    case_no = 0
    try:
        for name, t, values, ref, cmp, selfdelim, ctx in specs:
            n_budgeted = 0
            for v in values:
                case_no += 1
                if not run.mine(case_no):
                    continue
                run.case((name, repr(v)))
                run.seen('types', name)
                sink = Sink()
                call = (lambda: t.send_with_context(v, sink, ctx)) \
                    if ctx is not None else (lambda: t.send(v, sink))
                if n_budgeted < 300:
                    n_budgeted += 1
                    kind, res = budgeted(mon, call)
                    run.count('sends_under_step_budget')
                else:
                    try:
                        kind, res = 'ok', call()
                    except Exception as e:
                        kind, res = 'raised', e
                if kind != 'ok':
                    run.violation(
                        'send/%s/%s' % (name, 'hang' if kind == 'budget'
                                        else 'raised:' + type(res).__name__),
                        'encoding an in-domain value %s' % (
                            'exceeded the step budget' if kind == 'budget'
                            else 'raised'),
                        {'type': name, 'value': v, 'error': repr(res)})
                    continue
                got = sink.value()
                exp = ref(v)
                ok = True
                if exp is None:           # NaN: any NaN pattern of right size
                    back = rw.float_from(got) if len(got) in (4, 8) else 0
                    ok = back != back
                elif isinstance(exp, set):
                    ok = got in exp
                else:
                    ok = got == exp
                if not ok:
                    run.violation('send/%s/bytes' % name,
                                  'encoded bytes differ from the protocol '
                                  'encoding', {'type': name, 'value': v,
                                               'got': got, 'expected':
                                               sorted(exp) if isinstance(
                                                   exp, set) else exp})
                    continue
                # decode the (reference-approved) bytes followed by a sentinel
                st = Stream(got + (b'\xa5' if selfdelim else b''))
                try:
                    back = t.read_with_context(st, ctx) if ctx is not None \
                        else t.read(st)
                except Exception as e:
                    run.violation('read/%s/raised:%s' % (name,
                                                         type(e).__name__),
                                  'decoding a valid encoding raised',
                                  {'type': name, 'value': v, 'bytes': got,
                                   'error': repr(e)})
                    continue
                run.count('roundtrips')
                if st.pos != len(got):
                    run.violation('read/%s/cursor' % name,
                                  'decoder did not consume exactly the '
                                  'encoding', {'type': name, 'value': v,
                                               'bytes': got, 'pos': st.pos})
                if not cmp(v, back):
                    run.violation('read/%s/value' % name,
                                  'decoded value differs', {
                                      'type': name, 'value': v, 'back': back,
                                      'bytes': got})
                if selfdelim and got:
                    L = len(got)
                    cuts = range(L) if L <= 64 else sorted(
                        set(range(32)) | set(range(L - 32, L)))
                    for k in cuts:
                        st = Stream(got[:k])
                        try:
                            back = t.read_with_context(st, ctx) \
                                if ctx is not None else t.read(st)
                        except Exception:
                            run.count('prefix.raised')
                            continue
                        run.violation('prefix/%s' % name,
                                      'decoding a strict prefix returned a '
                                      'value instead of raising',
                                      {'type': name, 'value': v,
                                       'encoding': got, 'prefix_len': k,
                                       'returned': back})
                        break
            # a send that fails in the sink must not poison the next one
            vals = list(values)
            if vals and run.mine(len(name)):
                class FailingSink(object):
                    def __init__(self, at):
                        self.n, self.at = 0, at

                    def send(self, b):
                        self.n += 1
                        if self.n >= self.at:
                            raise BrokenPipeError(32, 'Broken pipe')
                for at in (1, 2):
                    v1, v2 = vals[0], vals[-1]
                    try:
                        t.send_with_context(v1, FailingSink(at), ctx) \
                            if ctx is not None else t.send(v1, FailingSink(at))
                    except Exception:
                        pass
                    sink = Sink()
                    try:
                        t.send_with_context(v2, sink, ctx) \
                            if ctx is not None else t.send(v2, sink)
                    except Exception:
                        continue
                    exp = ref(v2)
                    ok = exp is None or (sink.value() in exp if isinstance(
                        exp, set) else sink.value() == exp)
                    run.count('sends_after_failed_send')
                    if not ok:
                        run.violation('send/%s/after-failed-send' % name,
                                      'an encoding written after an earlier '
                                      'send() failed in the sink is wrong',
                                      {'type': name, 'failed_value': v1,
                                       'value': v2, 'got': sink.value()})
            # the whole value list again, in this one process and through one
            # sink that *keeps* the objects it is given (joined at the end):
            # values that compare equal but encode differently (0.0 / -0.0,
            # 1 / True / 1.0) meet each other here, forwards and backwards,
            # and a codec that hands the same buffer object to send() twice
            # shows in the kept chunks
            if vals and run.mine(len(name) + 1):
                class KeepingSink(object):
                    def __init__(self):
                        self.kept = []

                    def send(self, b):
                        self.kept.append(b)
                seq = vals[:400]
                for order in (seq, seq[::-1]):
                    sink, marks, exps = KeepingSink(), [], []
                    try:
                        for v in order:
                            exp = ref(v)
                            if exp is None or isinstance(exp, set):
                                continue
                            if ctx is not None:
                                t.send_with_context(v, sink, ctx)
                            else:
                                t.send(v, sink)
                            marks.append(len(sink.kept))
                            exps.append((v, exp))
                    except Exception as e:
                        run.violation('send/%s/raised-in-sequence' % name,
                                      'encoding raised in a sequence of '
                                      'in-domain values', {'type': name,
                                                           'error': repr(e)})
                        break
                    run.count('values_encoded_in_sequence', len(exps))
                    start = 0
                    for (v, exp), end in zip(exps, marks):
                        got = b''.join(bytes(c) for c in sink.kept[start:end])
                        start = end
                        if got != exp:
                            run.violation(
                                'send/%s/sequence' % name, 'a value encoded '
                                'after other values of the same type, into a '
                                'sink that keeps its chunks, has wrong bytes '
                                '(state kept between calls, or a buffer '
                                'handed out twice)', {
                                    'type': name, 'value': v, 'got': got,
                                    'expected': exp, 'reverse_order':
                                    order is not seq})
                            break
            if run.shard == 0 and len(run.samples) < 8:
                vs = list(values)[:2]
                run.sample({'type': name, 'values': vs})

        # NBT documents
        for i, (doc_bytes, label) in enumerate(nbt_docs):
            if not run.mine(i):
                continue
            run.case(('NBT', label))
            run.seen('types', 'NBT')
            st = Stream(doc_bytes + b'\xa5')
            try:
                tag = T.NBT.read(st)
                sink = Sink()
                T.NBT.send(tag, sink)
            except Exception as e:
                run.violation('read/NBT/raised:' + type(e).__name__,
                              'NBT document failed to decode/encode',
                              {'doc': label, 'error': repr(e)})
                continue
            if st.pos != len(doc_bytes) or sink.value() != doc_bytes:
                run.violation('read/NBT/bytes', 'NBT read->send not identical'
                              ' or cursor off', {'doc': label, 'pos': st.pos,
                                                 'got': sink.value(),
                                                 'expected': doc_bytes})
            for k in range(len(doc_bytes)):
                try:
                    T.NBT.read(Stream(doc_bytes[:k]))
                except Exception:
                    run.count('prefix.raised')
                    continue
                run.violation('prefix/NBT', 'truncated NBT decoded without '
                              'error', {'doc': label, 'prefix_len': k})
                break
    finally:
        mon.__exit__(None, None, None)
    run.count('line_events', mon.events)
    run.require('roundtrips', 1000)
    run.require('prefix.raised', 1000)
    run.require('sends_under_step_budget', 100)
    run.require('values_encoded_in_sequence', 500)
