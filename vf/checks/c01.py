"""C01 - framed packet stream survives any threshold, cipher and read segmentation.

Three pairings so that a consistent error on both sides is visible:
  A  real writer -> real reader     B  reference writer -> real reader
  C  real writer -> reference reader
The byte stream reaches the real PacketReactor.read_packet through a
ScriptedStream that cuts it at chosen positions (every single cut, every pair
of cuts for short streams, 1-byte reads, random partitions); with the cipher on
it is wrapped in the real EncryptedFileObjectWrapper.  Oracle: the generated
packet list, vf.ref.framing, vf.ref.cfb8.
"""
import itertools

from ..probes.streams import ScriptedStream, SpinDetected
from ..ref import cfb8, framing
from .c18 import RecSocket
from ..probes import client as pc
from ..server import mcserver, scripts
from ..server.codec import codec_for

SHARDS = {'quick': 8, 'thorough': 16}


class _Opts(object):
    def __init__(self, enabled, threshold):
        self.compression_enabled = enabled
        self.compression_threshold = threshold


class _StubConn(object):
    def __init__(self, context, enabled, threshold):
        self.context = context
        self.options = _Opts(enabled, threshold)


def run(run):
    from minecraft.networking import connection as C
    from minecraft.networking import encryption
    from minecraft.networking.packets import Packet, clientbound
    from minecraft.networking.types import TrailingByteArray
    thorough = run.tier == 'thorough'
    run.level = 'exploration'
    run.rule = ('packet sequences (1-40 packets: plugin messages with arbitrary'
                ' payloads, chat, keep-alives, unknown-id frames) with payload '
                'sizes 0..8 KiB always including threshold-1/threshold/'
                'threshold+1 and the 2-byte (thorough: 3-byte) length-prefix '
                'boundary; thresholds {disabled, -1, -5, 0, 1, 64, 256, random};'
                ' cipher off/on; partitions: every single cut and every pair of'
                ' cuts for short streams, 1-byte reads, random partitions. '
                'Three writer/reader pairings. Distinct = (sequence, threshold,'
                ' cipher, partition).')
    run.assumptions = ['segmentation produced is what a raw socket file may '
                       'legally return (1..n bytes, empty only at end)',
                       'generic (unknown-id) packets are compared by id only on'
                       ' the real reader (the library discards their body by '
                       'design); their bodies are compared by the reference '
                       'reader']
    rng = run.rng('c01')
    cbp = clientbound.play
    pv = 757
    ctx = C.ConnectionContext(protocol_version=pv)
    known_ids = {k.get_id(ctx) for k in cbp.get_packets(ctx)}
    unknown_ids = [i for i in (0x6F, 0x70, 0x7F, 0x80, 0x3FFF, 0x4000, 0x100)
                   if i not in known_ids]
    plug_id = cbp.PluginMessagePacket.get_id(ctx)
    chat_id = cbp.ChatMessagePacket.get_id(ctx)
    ka_id = cbp.KeepAlivePacket.get_id(ctx)

    def make_sequence(threshold, short):
        n = rng.randrange(1, 5 if short else 41)
        seq = []
        sizes = [0, 1, 2]
        if threshold is not None and threshold >= 0:
            sizes += [max(0, threshold - 1), threshold, threshold + 1,
                      threshold + 2]
        if not short:
            sizes += [126, 127, 128, 129, 300, 2000, 8192]
            if thorough:
                sizes += [16382, 16383, 16384, 16390, 70000, 2 ** 18]
        for _ in range(n):
            kind = rng.choice(('plugin', 'plugin', 'chat', 'ka', 'unknown'))
            if kind == 'plugin':
                # total payload = id(1) + channel(1+len) + data
                size = rng.choice(sizes)
                channel = rng.choice(('a', 'minecraft:brand', ''))
                overhead = 1 + 1 + len(channel)
                dlen = max(0, size - overhead)
                fill = rng.choice(('mixed', 'mixed', 'zeros', 'same', 'random',
                                   'period'))
                run.seen('payload_fills', fill)
                if fill == 'mixed':
                    data = bytes(rng.getrandbits(8) if rng.random() < 0.5
                                 else 0x41 for _ in range(dlen))
                elif fill == 'zeros':       # extreme compression ratios
                    data = bytes(dlen)
                elif fill == 'same':
                    data = bytes([rng.getrandbits(8)]) * dlen
                elif fill == 'random':      # incompressible: inflates slightly
                    data = rng.randbytes(dlen)
                else:
                    unit = rng.randbytes(rng.randrange(1, 9))
                    data = (unit * (dlen // len(unit) + 1))[:dlen]
                seq.append(('plugin', plug_id, (channel, data)))
            elif kind == 'chat':
                text = '{"text":"%s"}' % ('x' * rng.choice((0, 5, 50)))
                sender = '00000000-0000-0000-0000-%012x' % rng.getrandbits(48)
                seq.append(('chat', chat_id, (text, rng.randrange(3), sender)))
            elif kind == 'ka':
                seq.append(('ka', ka_id, rng.choice((0, -1, 2 ** 63 - 1,
                                                     rng.getrandbits(62)))))
            else:
                size = rng.choice(sizes)
                seq.append(('unknown', rng.choice(unknown_ids),
                            bytes(rng.getrandbits(8) for _ in range(size))))
        return seq

    def real_packet(item):
        kind, pid, v = item
        if kind == 'plugin':
            p = cbp.PluginMessagePacket(context=ctx, channel=v[0], data=v[1])
        elif kind == 'chat':
            p = cbp.ChatMessagePacket(context=ctx, json_data=v[0],
                                      position=v[1], sender=v[2])
        elif kind == 'ka':
            p = cbp.KeepAlivePacket(context=ctx, keep_alive_id=v)
        else:
            p = Packet(context=ctx)
            p.id = pid
            p.definition = [{'data': TrailingByteArray}]
            p.data = v
        return p

    def ref_payload(item):
        from ..ref import wiretypes as w
        kind, pid, v = item
        if kind == 'plugin':
            return w.string(v[0]) + v[1]
        if kind == 'chat':
            return w.string(v[0]) + w.int_be(v[1], 1, True) + w.uuid_bytes(v[2])
        if kind == 'ka':
            return w.int_be(v, 8, True)
        return v

    def decoded(p):
        """(id, comparable payload) of a packet returned by the real reader."""
        name = type(p).__name__
        if name == 'PluginMessagePacket':
            return (p.id, (p.channel, p.data))
        if name == 'ChatMessagePacket':
            return (p.id, (p.json_data, p.position, p.sender))
        if name == 'KeepAlivePacket':
            return (p.id, p.keep_alive_id)
        if type(p) is Packet:
            return (p.id, None)
        return (p.id, '<%s>' % name)

    def expected(item):
        kind, pid, v = item
        return (pid, None if kind == 'unknown' else v)

    def read_all(data, cuts, max_chunk, threshold, secret, n_expected, w):
        """Feed `data` to the real reader; returns list of decoded packets or
        None after recording a violation."""
        stream = ScriptedStream(data, cuts, max_chunk)
        src = stream
        if secret is not None:
            dec = encryption.create_AES_cipher(secret).decryptor()
            src = encryption.EncryptedFileObjectWrapper(stream, dec)
        reactor = C.PlayingReactor(_StubConn(ctx, threshold is not None,
                                             threshold if threshold is not None
                                             else -1))
        out = []
        try:
            while stream.pos < len(data) and len(out) <= n_expected:
                p = reactor.read_packet(src, timeout=0)
                if p is None:
                    run.violation('reader/none-while-readable', 'read_packet '
                                  'returned None although data was readable',
                                  w)
                    return None
                out.append(decoded(p))
        except SpinDetected as e:
            run.violation('reader/spin', 'reader kept reading after the end '
                          'of a complete stream', dict(w, detail=str(e)))
            return None
        except Exception as e:
            run.violation('reader/raised:%s' % type(e).__name__,
                          'real reader raised on a well-formed stream',
                          dict(w, error=repr(e), after_packets=len(out)))
            return None
        run.count('reader_runs')
        return out

    thresholds = [None, -1, -5, 0, 1, 64, 256, 'rand']
    n_seq = 3000 if thorough else 200
    for si in range(n_seq):
        if not run.mine(si):
            continue
        th = thresholds[si % len(thresholds)]
        if th == 'rand':
            th = rng.randrange(2, 600)
        short = si % 3 != 2
        cipher_on = (si // len(thresholds)) % 2 == 1
        secret = bytes(rng.getrandbits(8) for _ in range(16)) \
            if cipher_on else None
        seq = make_sequence(th, short)
        exp = [expected(i) for i in seq]
        w = {'threshold': th, 'cipher': cipher_on, 'packets': len(seq),
             'kinds': [i[0] for i in seq][:12],
             'sizes': [len(ref_payload(i)) for i in seq][:12]}
        # ---- real writer -------------------------------------------------
        rec = RecSocket()
        sock = rec
        if cipher_on:
            c = encryption.create_AES_cipher(secret)
            sock = encryption.EncryptedSocketWrapper(rec, c.encryptor(),
                                                     c.decryptor())
        # a third of the sequences also contain writes that *fail* half-way
        # (a field left unset): such a packet must raise, put nothing on the
        # wire and leave the packets written after it undisturbed
        broken_at = set(rng.sample(range(len(seq) + 1), min(
            len(seq) + 1, rng.randrange(1, 3)))) if si % 3 == 1 else set()
        w['failed_writes_at'] = sorted(broken_at)

        def write_broken():
            bad = cbp.PluginMessagePacket(context=ctx, channel='vf:broken',
                                          data=None)
            sent_before = len(rec.sent)
            try:
                bad.write(sock) if th is None else bad.write(sock, th)
            except Exception:
                run.count('failed_writes')
                if len(rec.sent) != sent_before:
                    run.violation('writer/failed-write-emitted-bytes', 'a '
                                  'write that raised still sent bytes', w)
                return
            run.violation('writer/broken-packet-accepted', 'a packet with an '
                          'unset field was written without error', w)
        try:
            for j, item in enumerate(seq):
                if j in broken_at:
                    write_broken()
                p = real_packet(item)
                if th is None:
                    p.write(sock)
                else:
                    p.write(sock, th)
            if len(seq) in broken_at:
                write_broken()
        except Exception as e:
            run.violation('writer/raised:%s' % type(e).__name__,
                          'real writer raised', dict(w, error=repr(e)))
            continue
        wire = b''.join(rec.sent)
        plain = cfb8.CFB8(secret, secret).decrypt(wire) if cipher_on else wire
        # ---- C: real writer -> reference reader ---------------------------
        try:
            parsed, leftover = framing.parse_stream(
                plain, compressed=th is not None, threshold=th)
            got = [(pid, data) for pid, data, _i in parsed]
            want = [(i[1], ref_payload(i)) for i in seq]
            run.count('ref_reader_runs')
            for (_pid, _d, info) in parsed:
                if info['compressed']:
                    run.count('frames_compressed')
                else:
                    run.count('frames_uncompressed')
            if leftover or got != want:
                run.violation('pairing-C/sequence', 'real writer output does '
                              'not parse (reference reader) to the packets '
                              'written', dict(w, leftover=leftover,
                                              n_parsed=len(got)))
        except framing.FrameError as e:
            run.violation('pairing-C/malformed', 'real writer produced a frame'
                          ' the reference reader rejects', dict(w,
                                                                error=str(e)))
        # ---- B: reference writer stream -----------------------------------
        # (a third of the reference streams use zero-padded 3-byte length
        # fields, as fixed-width writers emit: still well-formed VarInts)
        pad = 3 if si % 3 == 0 else 0
        w['reference_writer_pads_lengths'] = bool(pad)
        if pad:
            run.count('streams_with_padded_length_fields')
        # (and the deflate streams come in the forms different peers produce)
        zmode = ('finished', 'sync-flush', 'blocks', 'stored')[si % 4]
        w['reference_writer_zlib_streams'] = zmode
        run.seen('reference_zlib_stream_forms', zmode)
        ref_plain = b''.join(framing.frame(i[1], ref_payload(i), th,
                                           level=rng.choice((1, 6, 9)),
                                           pad=pad, zmode=zmode)
                             for i in seq)
        ref_wire = cfb8.CFB8(secret, secret).encrypt(ref_plain) \
            if cipher_on else ref_plain
        for label, data in (('A', wire), ('B', ref_wire)):
            L = len(data)
            plans = [('whole', (), None), ('bytewise', (), 1)]
            if L <= (400 if thorough else 160):
                plans += [('cut@%d' % k, (k,), None) for k in range(1, L)]
            else:
                ks = sorted({rng.randrange(1, L) for _ in range(
                    60 if thorough else 12)})
                plans += [('cut@%d' % k, (k,), None) for k in ks]
            if L <= (70 if thorough else 36):
                plans += [('cuts@%d,%d' % (a, b), (a, b), None)
                          for a, b in itertools.combinations(range(1, L), 2)]
            for _ in range(6 if thorough else 3):
                cuts = tuple(sorted({rng.randrange(1, max(2, L)) for _ in
                                     range(rng.randrange(1, 12))}))
                plans.append(('random%r' % (cuts[:4],), cuts,
                              rng.choice((None, 2, 3, 7, 100))))
            for pname, cuts, chunk in plans:
                ww = dict(w, pairing=label, partition=pname, stream_len=L)
                got = read_all(data, cuts, chunk, th, secret, len(seq), ww)
                run.case((si, label, pname))
                if got is None:
                    break
                if got != exp:
                    first = next((j for j, (a, b) in enumerate(zip(got, exp))
                                  if a != b), min(len(got), len(exp)))
                    run.violation('pairing-%s/sequence' % label, 'packets '
                                  'recovered by the real reader differ from '
                                  'those written (lost/duplicated/merged/'
                                  'reordered/altered)', dict(
                                      ww, n_got=len(got), n_expected=len(exp),
                                      first_difference=first,
                                      got=got[first:first + 1],
                                      expected=exp[first:first + 1]))
                    break
        if si < 3:
            run.sample(dict(w, wire_prefix=wire[:24]))
    live_sessions(run, thorough)
    run.require('reader_runs', 500)
    run.require('ref_reader_runs', 5)
    run.require('frames_compressed', 5)
    run.require('frames_uncompressed', 5)
    run.require('streams_with_padded_length_fields', 5)


LIVE_MODES = ('none', 'disconnect-late', 'disconnect-immediate-late',
              'forced-late', 'forced-early', 'queued-late', 'queued-early',
              'bulk-disconnect')


def live_sessions(run, thorough):
    """The same claim on a live connection: numbered chat packets queued on a
    real Connection (any threshold, cipher on/off) reach the independent
    server exactly once each and in order - also when an outgoing listener,
    running in the middle of the write loop, writes further packets or asks
    for a (flushing) disconnect."""
    from minecraft.networking.packets import clientbound, serverbound
    rng = run.rng('c01-live')
    n_cases = 160 if thorough else 28
    n_fault = 48 if thorough else 16
    for ci in range(n_cases + n_fault):
        mode = LIVE_MODES[ci % len(LIVE_MODES)] if ci < n_cases else 'none'
        pv = rng.choice((47, 340, 578, 757))
        threshold = rng.choice((None, 0, 1, 64, 256))
        encrypted = rng.random() < 0.4
        n = rng.randrange(3, 12)
        if mode == 'bulk-disconnect' or (mode == 'disconnect-late' and
                                         rng.random() < 0.3):
            # more than one write batch (300 packets) still queued when the
            # flushing disconnect comes
            n = (301, 5000, 300, 450, 299, 1500)[(ci // len(LIVE_MODES)) % 6]
            run.count('live_sessions_over_one_write_batch', int(n > 300))
        k = rng.randrange(0, min(n, 12))
        from_listener = rng.random() < 0.6 or mode != 'none'
        if not run.mine(100000 + ci):
            continue
        msgs = ['m%d-%s' % (i, 'x' * (rng.choice((0, 3, 70, 200)) if n < 100
                                      else 0))[:90]
                for i in range(n)]
        extra = 'extra-%d' % ci
        w = {'live': True, 'mode': mode, 'pv': pv, 'threshold': threshold,
             'encrypted': encrypted, 'n': n, 'k': k,
             'queued_from': 'listener' if from_listener else 'user thread'}
        codec = codec_for(pv)
        state = {'got': [], 'done': False}

        def handler(io, state=state, pv=pv, threshold=threshold,
                    encrypted=encrypted, codec=codec):
            scripts.read_handshake(io)
            scripts.login_offline(io, pv, threshold=threshold, codec=codec,
                                  encrypted=encrypted)
            while True:
                fr = io.recv_frame(10.0)
                if fr is None:
                    break
                try:
                    name, vals = codec.decode('play', fr[0], fr[1])
                except EOFError:
                    raise scripts.ProtocolViolation(
                        'undecodable serverbound frame id=%#x payload=%r'
                        % (fr[0], bytes(fr[1][:40])))
                state['got'].append(vals.get('message') if name == 'sb_chat'
                                    else '<%s>' % name)
            state['done'] = True
        server = mcserver.Server(handler)
        rec = pc.Recorder()
        conn = pc.make_connection(server.port, rec, allowed_versions={pv})
        fired = []
        # fault injection: in some plain sessions one send() call of the
        # client is refused once with a transient error (the kernel out of
        # buffers, an interrupted call).  Whatever the library makes of it, the
        # server must see whole frames in order - a clean prefix if an error
        # is reported, everything if not.
        fault = None
        if mode == 'none' and n < 100 and (
                ci >= n_cases or (ci // len(LIVE_MODES)) % 2 == 0):
            import errno as _errno
            errnos = (_errno.ENOBUFS, _errno.EINTR, _errno.EAGAIN,
                      _errno.ENOMEM)
            fault = {'at': rng.randrange(1, 2 * n) if ci < n_cases
                     else 1 + (ci - n_cases) % 6, 'n': 0, 'armed': False,
                     'errno': rng.choice(errnos) if ci < n_cases
                     else errnos[(ci - n_cases) // 6 % 4],
                     'done': False}
            w['send_refused_once'] = {'send_no': fault['at'],
                                      'errno': _errno.errorcode[
                                          fault['errno']]}

            def send_fault(kind, proxy, data, fault=fault):
                if kind != 'send' or not fault['armed'] or fault['done']:
                    return
                fault['n'] += 1
                if fault['n'] == fault['at']:
                    fault['done'] = True
                    raise OSError(fault['errno'], 'injected transient error')
            conn.vf_send_hook = send_fault

        def chat(text):
            p = serverbound.play.ChatPacket()
            p.message = text
            return p

        def on_out(packet, conn=conn, fired=fired, mode=mode, k=k,
                   msgs=msgs):
            if getattr(packet, 'message', None) != msgs[k] or fired:
                return
            fired.append(1)
            if mode == 'disconnect-late':
                conn.disconnect()
            elif mode == 'disconnect-immediate-late':
                conn.disconnect(immediate=True)
            elif mode.startswith('forced'):
                conn.write_packet(chat(extra), force=True)
            elif mode.startswith('queued'):
                conn.write_packet(chat(extra))
        if mode != 'none':
            conn.register_packet_listener(
                on_out, serverbound.play.ChatPacket, outgoing=True,
                early=mode.endswith('early'))

        def queue_all(_p=None):
            if fault is not None:
                fault['armed'] = True
            for m in msgs:
                conn.write_packet(chat(m))
            if mode == 'bulk-disconnect':
                conn.disconnect()
        if from_listener:
            conn.register_packet_listener(queue_all,
                                          clientbound.login.LoginSuccessPacket)
        try:
            conn.connect()
            if not from_listener:
                pc.wait_for(lambda: any(
                    type(p).__name__ == 'LoginSuccessPacket'
                    for p in rec.packets), 10.0)
                queue_all()
            if mode in ('disconnect-late', 'bulk-disconnect'):
                expect = list(msgs)
            elif mode == 'disconnect-immediate-late':
                expect = msgs[:k + 1]
            elif mode == 'forced-late':
                expect = msgs[:k + 1] + [extra] + msgs[k + 1:]
            elif mode == 'forced-early':
                expect = msgs[:k] + [extra] + msgs[k:]
            elif mode.startswith('queued'):
                expect = msgs + [extra]
            else:
                expect = list(msgs)
            if mode.startswith('disconnect') or mode == 'bulk-disconnect':
                pc.wait_for(lambda: state['done'], 10.0)
            else:
                pc.wait_for(lambda: len(state['got']) >= len(expect)
                            or state['done'], 10.0)
                import time
                time.sleep(0.02)      # a duplicate would follow immediately
                pc.safe_disconnect(conn)
            pc.wait_idle(conn, 10.0)
            server.join(10.0)
        finally:
            server.stop()
        run.case(('live', ci))
        run.count('live_sessions')
        run.seen('live_modes', mode)
        errs = [e for e in server.errors if e[1] == 'script']
        if errs:
            run.inconclusive_because('live: server script error %r'
                                     % (errs[:1],))
            continue
        if server.errors:
            run.violation('live/unparseable', 'the server could not parse '
                          'what the client wrote', dict(
                              w, error=repr(server.errors[:1])))
            continue
        if not state['done']:
            run.inconclusive_because('live: the session did not end')
            continue
        got = state['got']
        if fault is not None and fault['done']:
            run.count('live_sessions_with_a_refused_send')
            if got == expect[:len(got)] and (len(got) == len(expect)
                                             or rec.exceptions):
                run.count('live_packets_matched', len(got))
                continue
            w['client_reported_error'] = bool(rec.exceptions)
        if got != expect:
            first = next((j for j, (a, b) in enumerate(zip(got, expect))
                          if a != b), min(len(got), len(expect)))
            dup = len(set(got)) != len(got)
            run.violation('live/%s/%s' % (
                'duplicated' if dup else 'sequence', mode),
                'packets received by the server differ from those the client '
                'wrote (lost/duplicated/reordered)', dict(
                    w, n_got=len(got), n_expected=len(expect),
                    first_difference=first,
                    got=[g[:12] for g in got[first:first + 3]],
                    expected=[g[:12] for g in expect[first:first + 3]],
                    client_errors=repr(rec.exceptions[:1])))
        else:
            run.count('live_packets_matched', len(got))
    run.require('live_sessions', 1)
    run.require('live_sessions_over_one_write_batch', 1)
    live_incoming(run, thorough)
    compression_switch_during_write(run, thorough)


def live_incoming(run, thorough):
    """The read side on a live connection: everything the independent server
    sends (known packets - also ones whose collections are *empty* -, unknown
    ids, in bursts) is handed to the client's listeners as the same sequence:
    nothing lost, duplicated or reordered between the stream and dispatch."""
    from minecraft.networking.connection import ConnectionContext
    from minecraft.networking.packets import PacketBuffer, clientbound
    from ..ref import framing as rframing
    rng = run.rng('c01-live-in')
    cbp = clientbound.play

    def lib_frame(K, ctx, **fields):
        """(id, payload) of a packet written by the library's own class (the
        layout is not what is judged here, the delivery is)."""
        p = K(context=ctx, **fields)
        buf = PacketBuffer()
        p.write(buf)
        frames, _left = rframing.parse_stream(buf.get_writable(),
                                              compressed=False, threshold=None)
        return frames[0][0], bytes(frames[0][1])
    for ci in range(120 if thorough else 16):
        if not run.mine(200000 + ci):
            continue
        pv = rng.choice((47, 340, 578, 736, 757))
        ctx = ConnectionContext(protocol_version=pv)
        codec = codec_for(pv)
        known = {k.get_id(ctx) for k in cbp.get_packets(ctx)}
        unknown = [i for i in (0x7E, 0x7D, 0x6B, 0x69) if i not in known]
        threshold = rng.choice((None, 0, 64))
        seq = []                      # (class name, id, payload)
        add_action = cbp.PlayerListItemPacket.AddPlayerAction
        for _ in range(rng.randrange(4, 40)):
            kind = rng.choice(('ka', 'chat', 'unknown', 'explosion',
                               'plist', 'multiblock'))
            if kind == 'ka':
                pid, pl = codec.encode('cb_keep_alive',
                                       {'id': rng.getrandbits(31)})
                seq.append(('KeepAlivePacket', pid, pl))
            elif kind == 'chat':
                pid, pl = codec.encode('cb_chat', {
                    'json': '{"text":"%d"}' % len(seq), 'position': 0,
                    'sender': '00000000-0000-0000-0000-000000000001'})
                seq.append(('ChatMessagePacket', pid, pl))
            elif kind == 'unknown':
                seq.append(('Packet', rng.choice(unknown), rng.randbytes(
                    rng.choice((0, 1, 70)))))
            elif kind == 'explosion':
                n = rng.choice((0, 0, 1, 3))
                pid, pl = lib_frame(
                    cbp.ExplosionPacket, ctx, x=1.0, y=2.0, z=3.0, radius=4.0,
                    records=[cbp.ExplosionPacket.Record(1, 2, 3)] * n,
                    player_motion_x=0.0, player_motion_y=0.0,
                    player_motion_z=0.0)
                seq.append(('ExplosionPacket', pid, pl))
                run.count('live_in.empty_collections', int(n == 0))
            elif kind == 'plist':
                pid, pl = lib_frame(cbp.PlayerListItemPacket, ctx,
                                    action_type=add_action, actions=[])
                seq.append(('PlayerListItemPacket', pid, pl))
                run.count('live_in.empty_collections')
            else:
                kw = {'chunk_section_pos': (1, 2, 3), 'invert_trust_edges':
                      False} if pv >= 741 else {'chunk_x': 1, 'chunk_z': 2}
                try:
                    pid, pl = lib_frame(cbp.MultiBlockChangePacket, ctx,
                                        records=[], **kw)
                except Exception:
                    continue
                seq.append(('MultiBlockChangePacket', pid, pl))
                run.count('live_in.empty_collections')
        burst = rng.choice((1, 3, 10 ** 6))

        def handler(io, seq=seq, pv=pv, threshold=threshold, codec=codec,
                    burst=burst):
            scripts.read_handshake(io)
            scripts.login_offline(io, pv, threshold=threshold, codec=codec)
            buf = bytearray()
            for i, (_n, pid, pl) in enumerate(seq):
                buf += io.encode_frame(pid, pl)
                if (i + 1) % burst == 0:
                    io.send_raw(bytes(buf))
                    buf = bytearray()
            did, dp = codec.encode('play_disconnect', {'reason': '"end"'})
            buf += io.encode_frame(did, dp)
            io.send_raw(bytes(buf))
            io.half_close()
            io.drain(8.0)
        server = mcserver.Server(handler)
        rec = pc.Recorder()
        conn = pc.make_connection(server.port, rec, allowed_versions={pv})
        w = {'live': 'incoming', 'pv': pv, 'threshold': threshold,
             'packets': len(seq), 'burst': burst,
             'kinds': [n for n, _i, _p in seq][:16]}
        try:
            conn.connect()
            done = pc.wait_idle(conn, 20.0)
            server.join(10.0)
        finally:
            server.stop()
            pc.safe_disconnect(conn)
        run.case(('live-in', ci))
        if not done or [e for e in server.errors if e[1] == 'script']:
            run.inconclusive_because('live incoming %d: %r' % (
                ci, server.errors[:1]))
            continue
        run.count('live_in.sessions')
        got = [(type(p).__name__, p.id) for p in rec.packets
               if type(p).__name__ not in ('LoginSuccessPacket',
                                           'SetCompressionPacket',
                                           'DisconnectPacket')]
        want = [(n, i) for n, i, _p in seq]
        if got != want:
            first = next((j for j, (a, b) in enumerate(zip(got, want))
                          if a != b), min(len(got), len(want)))
            run.violation('live-in/sequence', 'packets handed to the listeners'
                          ' differ from the frames the server sent (lost/'
                          'duplicated/reordered between stream and dispatch)',
                          dict(w, n_got=len(got), n_expected=len(want),
                               first_difference=first,
                               got=got[first:first + 2],
                               expected=want[first:first + 2],
                               client_errors=repr(rec.exceptions[:1])))
        elif rec.exceptions:
            run.violation('live-in/error', 'an error was reported for a '
                          'well-formed stream', dict(
                              w, exc=repr(rec.exceptions[:1])))
    run.require('live_in.sessions', 2)
    run.require('live_in.empty_collections', 2)


def compression_switch_during_write(run, thorough):
    """Directed schedule: a forced write from a user thread is held in an
    early outgoing listener while the networking thread processes the
    server's Set Compression (protocol 47 switches in play state).  When the
    packet finally goes out, compression *is* in force, so the frame must be
    in the compressed format - the framing state that counts is the one at
    the moment of writing."""
    import threading
    from minecraft.networking import connection as C
    from minecraft.networking.packets import serverbound
    from ..ref import varint as rv
    rng = run.rng('c01-switch')
    pv = 47
    codec = codec_for(pv)
    for ci in range(12 if thorough else 3):
        if not run.mine(300000 + ci):
            continue
        threshold = (0, 64, 256)[ci % 3]
        entered, switched = threading.Event(), threading.Event()
        state = {'got': [], 'done': False}

        def handler(io, threshold=threshold, state=state, entered=entered,
                    switched=switched):
            scripts.read_handshake(io)
            scripts.login_offline(io, pv, threshold=None, codec=codec)
            entered.wait(8.0)
            io.send_frame(0x46, rv.encode(threshold))
            io.enable_compression(threshold)
            switched.set()
            while True:
                fr = io.recv_frame(8.0)
                if fr is None:
                    break
                name, vals = codec.decode('play', fr[0], fr[1])
                state['got'].append((vals.get('message') if name == 'sb_chat'
                                     else '<%s>' % name, fr[2]['compressed']))
            state['done'] = True
        server = mcserver.Server(handler)
        rec = pc.Recorder()
        conn = pc.make_connection(server.port, rec, allowed_versions={pv})
        msg = 'm' * rng.choice((3, 80, 200))
        held = []

        def hold(packet):
            if not held:
                held.append(1)
                entered.set()
                # (the networking thread can only process Set Compression if
                # it is in its read phase; had it just gone for the write
                # lock - which this forced write holds - the premise of the
                # case is not reached and nothing is judged)
                held.append(processed.wait(3.0))
        conn.register_packet_listener(hold, serverbound.play.ChatPacket,
                                      outgoing=True, early=True)
        # (the premise: the networking thread has *dealt with* the server's
        # Set Compression while the write was held - seen by an ordinary
        # listener, which runs after the built-in reaction)
        processed = threading.Event()
        from minecraft.networking.packets import clientbound as _cbp
        conn.register_packet_listener(
            lambda p: processed.set(), _cbp.play.SetCompressionPacket)
        w = {'live': 'compression-switch-during-forced-write', 'pv': pv,
             'threshold': threshold, 'message_len': len(msg)}
        try:
            conn.connect()
            if not pc.wait_for(lambda: isinstance(conn.reactor,
                                                  C.PlayingReactor), 8.0):
                run.inconclusive_because('switch case: never reached play')
                continue
            conn.write_packet(serverbound.play.ChatPacket(message=msg),
                              force=True)
            pc.wait_for(lambda: state['got'], 5.0)
            pc.safe_disconnect(conn)
            pc.wait_idle(conn, 10.0)
            server.join(10.0)
        finally:
            server.stop()
        run.case(('switch', ci))
        if [e for e in server.errors if e[1] == 'script'] or \
                not switched.is_set():
            run.inconclusive_because('switch case: %r' % (server.errors[:1],))
            continue
        if len(held) < 2 or not held[1]:
            # compression did not come into force while the write was held
            run.count('live.compression_switch_premise_not_reached')
            continue
        run.count('live.compression_switched_during_a_write')
        if [e for e in server.errors if e[1] == 'frame']:
            run.violation('live/framing-state-sampled-early', 'a packet written'
                          ' after compression had come into force is not in '
                          'the compressed format', dict(
                              w, error=server.errors[0][2]))
        elif [m for m, _c in state['got']] != [msg]:
            run.violation('live/sequence/compression-switch', 'the packet '
                          'written across the switch did not arrive intact',
                          dict(w, got=[(m or '')[:12] for m, _c in
                                       state['got']]))
    run.require('live.compression_switched_during_a_write', 1)
