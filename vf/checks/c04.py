"""C04 - block positions use the 26/12/26-bit packing of the connection's protocol.

The real Position / ChunkSectionPos / Record codecs are run for every known
protocol version; the 8 bytes on the wire and the decoded triples are compared
with an independent packing (vf.ref.wiretypes).  The layout actually used by
each version is *observed* and the sequence of layouts along the chronological
version list is checked to switch exactly once, between 404 and 477.
"""
import itertools

from ..ref import wiretypes as rw
from ..ref import varint as rv
from .c02 import Sink, Stream

SHARDS = {'quick': 4, 'thorough': 16}


def axis_values(bits):
    lo, hi = -(1 << (bits - 1)), (1 << (bits - 1)) - 1
    return [lo, lo + 1, -1, 0, 1, hi - 1, hi]


def run(run):
    import minecraft
    from minecraft.networking.types import Position

    def trace_layout(pv):
        # the layout a *fresh* context uses for pv (observed above for every
        # version and judged against the documented eras)
        s_ = Sink()
        Position.send_with_context(
            (1, 2, 3), s_, ConnectionContext(protocol_version=pv))
        return 'xyz' if s_.value() == rw.pack_position(1, 2, 3, 'xyz') \
            else 'xzy'
    from minecraft.networking.connection import ConnectionContext
    from minecraft.networking.packets.clientbound.play import \
        MultiBlockChangePacket as MBC
    thorough = run.tier == 'thorough'
    run.level = 'exploration'
    run.rule = ('all known protocol versions (read from the tree: %d) x {full '
                'product of per-axis boundary values (343 triples), every '
                'single-bit and sign-boundary 64-bit word decoded, seeded random'
                ' triples}; chunk-section positions over 22/20/22-bit '
                'boundaries; block records (nibble products, state ids across '
                'VarInt/VarLong widths) on both sides of 741. Distinct = '
                '(version, kind, value).' % len(minecraft.KNOWN_PROTOCOL_VERSIONS))
    run.assumptions = ['chronological order of versions is the order of '
                       'minecraft.KNOWN_PROTOCOL_VERSIONS (checked on its own '
                       'by C08)', 'vf.ref.wiretypes.pack_position validated on '
                       'the documented example word']
    versions = list(minecraft.KNOWN_PROTOCOL_VERSIONS)
    rng = run.rng('triples')
    triples = list(itertools.product(axis_values(26), axis_values(12),
                                     axis_values(26)))
    # a dense neighbourhood of the origin (values that differ by one in one
    # axis follow each other: anything remembered from the previous call that
    # is keyed too coarsely shows up as the neighbour's word)
    triples += [t for t in itertools.product(range(-3, 4), repeat=3)
                if t not in set(triples)]
    nrand = 20000 if thorough else 300
    words = [1 << k for k in range(64)] + [0, 2 ** 64 - 1] + \
        [((1 << 26) - 1) << 38, ((1 << 12) - 1) << 26, (1 << 26) - 1,
         ((1 << 26) - 1) << 12, (1 << 12) - 1, 1 << 63 | 1 << 37 | 1 << 25 |
         1 << 11]
    layouts = {}
    for vi, pv in enumerate(versions):
        if not run.mine(vi):
            continue
        ctx = ConnectionContext(protocol_version=pv)
        # observe the layout this version uses
        sink = Sink()
        try:
            Position.send_with_context((1, 2, 3), sink, ctx)
        except Exception as e:
            run.violation('position/send-raised', 'Position encode raised',
                          {'pv': pv, 'error': repr(e)})
            continue
        probe = sink.value()
        layout = 'xyz' if probe == rw.pack_position(1, 2, 3, 'xyz') else \
                 'xzy' if probe == rw.pack_position(1, 2, 3, 'xzy') else None
        if layout is None:
            run.violation('position/layout-unknown', 'encoding of (1,2,3) is '
                          'neither documented layout', {'pv': pv,
                                                        'bytes': probe})
            continue
        layouts[pv] = layout
        run.seen('layout.' + layout, pv)
        mine = triples + [(rng.randrange(-2 ** 25, 2 ** 25),
                           rng.randrange(-2 ** 11, 2 ** 11),
                           rng.randrange(-2 ** 25, 2 ** 25))
                          for _ in range(nrand)]
        # sibling runs: a position followed by variants that differ in one
        # axis only (by one, two, the sign, one bit) - consecutive calls
        for _ in range(nrand // 20 + 8):
            base = [rng.randrange(-2 ** 25, 2 ** 25),
                    rng.randrange(-2 ** 11, 2 ** 11),
                    rng.randrange(-2 ** 25, 2 ** 25)]
            if rng.random() < 0.5:
                base[rng.randrange(3)] = rng.choice((-1, -2, 0, 1))
            mine.append(tuple(base))
            lim = (2 ** 25, 2 ** 11, 2 ** 25)
            for _k in range(6):
                ax = rng.randrange(3)
                v = list(base)
                cand = rng.choice((v[ax] + 1, v[ax] - 1, v[ax] - 2, -v[ax],
                                   ~v[ax], v[ax] ^ (1 << rng.randrange(11))))
                if -lim[ax] <= cand < lim[ax]:
                    v[ax] = cand
                    mine.append(tuple(v))
                    run.count('position.sibling_calls')
        bad = 0
        for (x, y, z) in mine:
            exp = rw.pack_position(x, y, z, layout)
            sink = Sink()
            arg = Position(x, y, z) if (x + y + z) % 2 else (x, y, z)
            Position.send_with_context(arg, sink, ctx)
            got = sink.value()
            st = Stream(exp + b'\xa5')
            back = Position.read_with_context(st, ctx)
            if got != exp:
                bad += 1
                run.violation('position/bytes/' + layout, '8 bytes differ from'
                              ' the documented packing', {
                                  'pv': pv, 'triple': (x, y, z), 'got': got,
                                  'expected': exp})
            # (equal *and* of the same kind: integers, which can be encoded
            # again - a float -5.0 compares equal to -5 but is not a block
            # coordinate)
            reenc = None
            if all(type(c) is int for c in back):
                s2 = Sink()
                try:
                    Position.send_with_context(back, s2, ctx)
                    reenc = s2.value()
                except Exception as e:
                    reenc = repr(e)
            if tuple(back) != (x, y, z) or st.pos != 8 or \
                    type(back) is not Position or reenc != exp:
                bad += 1
                run.violation('position/decode/' + layout, 'decoded triple '
                              'differs / cursor off', {
                                  'pv': pv, 'triple': (x, y, z),
                                  'back': tuple(back), 'pos': st.pos,
                                  'coordinate_types': [type(c).__name__
                                                       for c in back],
                                  're_encoded': reenc})
            if bad > 5:
                break
        run.bulk(len(mine), len(mine))
        for w in words + [rng.getrandbits(64) for _ in range(nrand // 10)]:
            data = w.to_bytes(8, 'big')
            back = Position.read_with_context(Stream(data), ctx)
            exp = rw.unpack_position(data, layout)
            if tuple(back) != exp:
                run.violation('position/decode-word/' + layout, 'decoding a '
                              '64-bit word gives other coordinates', {
                                  'pv': pv, 'word': data, 'back': tuple(back),
                                  'expected': exp})
                break
        run.bulk(len(words), len(words))

        # block records on this version
        new = minecraft.PROTOCOL_VERSION_INDICES[pv] >= \
            minecraft.PROTOCOL_VERSION_INDICES[741]
        run.seen('record.new' if new else 'record.old', pv)
        states = [0, 1, 15, 16, 127, 128, 16383, 16384, 2 ** 21 - 1, 2 ** 21,
                  2 ** 28, 2 ** 31 - 1, 2 ** 32 - 1]
        if new:
            states += [2 ** 32, 2 ** 35, 2 ** 44 - 1, 2 ** 51, 2 ** 52 - 1]
        recs = [(x, y, z, s) for x in (0, 1, 7, 15) for z in (0, 8, 15)
                for y in ((0, 5, 15) if new else (0, 15, 16, 128, 255))
                for s in states]
        for _ in range(nrand // 5):
            recs.append((rng.randrange(16), rng.randrange(16 if new else 256),
                         rng.randrange(16), rng.getrandbits(
                             rng.randrange(1, 53 if new else 33))))
        for (x, y, z, s) in recs:
            exp = rw.pack_block_record_new(x, y, z, s) if new else \
                rw.pack_block_record_old(x, y, z, s)
            sink = Sink()
            try:
                # the record is filled field by field or through its
                # 'position' alias (tuple or Vector) - same record either way
                how = (x + y + z + (s & 7)) % 3
                if how == 0:
                    rec_ = MBC.Record(x=x, y=y, z=z, block_state_id=s)
                elif how == 1:
                    rec_ = MBC.Record(block_state_id=s)
                    rec_.position = (x, y, z)
                else:
                    from minecraft.networking.types import Vector as _V
                    rec_ = MBC.Record(position=_V(x, y, z), block_state_id=s)
                MBC.Record.send_with_context(rec_, sink, ctx)
                got = sink.value()
                st = Stream(exp + b'\xa5')
                back = MBC.Record.read_with_context(st, ctx)
                backt = (back.x, back.y, back.z, back.block_state_id)
            except Exception as e:
                run.violation('record/raised', 'record codec raised', {
                    'pv': pv, 'record': (x, y, z, s), 'error': repr(e)})
                break
            if got != exp or backt != (x, y, z, s) or st.pos != len(exp):
                run.violation('record/%s' % ('new' if new else 'old'),
                              'block record packing differs', {
                                  'pv': pv, 'record': (x, y, z, s),
                                  'got': got, 'expected': exp, 'back': backt})
                break
        run.bulk(len(recs), len(recs))

    # layout trace (each shard sees a slice; parent cannot re-join, so every
    # shard checks the constraints it can decide locally and shard 0 checks the
    # whole trace by observing all versions' probe word)
    if run.shard == 0:
        trace = []
        for pv in versions:
            sink = Sink()
            Position.send_with_context(
                (1, 2, 3), sink, ConnectionContext(protocol_version=pv))
            trace.append((pv, 'xyz' if sink.value() == rw.pack_position(
                1, 2, 3, 'xyz') else 'xzy'))
        idx = {pv: i for i, (pv, _l) in enumerate(trace)}
        switches = [(trace[i - 1][0], trace[i][0]) for i in range(1, len(trace))
                    if trace[i][1] != trace[i - 1][1]]
        run.extra['layout_switches_observed'] = switches
        for pv, lay in trace:
            if idx[pv] <= idx[404] and lay != 'xyz':
                run.violation('position/layout/old-era', 'a version up to '
                              '1.13.2 (404) uses the 1.14 layout', {'pv': pv})
            if idx[pv] >= idx[477] and lay != 'xzy':
                run.violation('position/layout/new-era', 'a version from 1.14 '
                              '(477) on uses the old layout', {'pv': pv})
        if len(switches) != 1:
            run.violation('position/layout/switches', 'layout switches %d '
                          'times along the version list' % len(switches),
                          {'switches': switches})
        run.count('layout_trace_versions', len(trace))
        run.sample({'layout_switch': switches})

    # ---- one context object re-used across versions --------------------------
    # (Connection.connect() reassigns context.protocol_version on every
    # reconnect: anything remembered per context object must follow)
    if run.shard == 0:
        reused = ConnectionContext(protocol_version=versions[0])
        walk = [404, 477, 757, 340, 47, 578, 340, 757, 404, 443, 442, 443]
        walk += [rng.choice(versions) for _ in range(300)]
        for pv in walk:
            if pv not in versions:
                continue
            reused.protocol_version = pv
            lay = trace_layout(pv)
            x, y, z = (rng.randrange(-2 ** 25, 2 ** 25),
                       rng.randrange(-2 ** 11, 2 ** 11),
                       rng.randrange(-2 ** 25, 2 ** 25))
            exp = rw.pack_position(x, y, z, lay)
            sink = Sink()
            Position.send_with_context((x, y, z), sink, reused)
            back = Position.read_with_context(Stream(exp), reused)
            run.case(('reused-context', pv, x, y, z))
            run.count('reused_context_cases')
            if sink.value() != exp or tuple(back) != (x, y, z):
                run.violation('position/reused-context', 'a context object '
                              'whose protocol version was reassigned keeps '
                              'using the layout of an earlier version',
                              {'pv': pv, 'walk_so_far': walk[:walk.index(pv)
                                                             + 1][-6:],
                               'got': sink.value(), 'expected': exp,
                               'back': tuple(back)})
                break

    # ---- two threads, versions on either side of the switch -----------------
    if run.shard in (0, 1):
        import sys
        import threading
        old_si = sys.getswitchinterval()
        sys.setswitchinterval(1e-6)
        errors = []
        pairs = [(340, 757), (404, 477), (47, 578)][run.shard::2] or \
            [(340, 757)]

        def hammer(pv, n, seed):
            import random
            r = random.Random(seed)
            ctx = ConnectionContext(protocol_version=pv)
            lay = trace_layout(pv)
            for _ in range(n):
                x, y, z = (r.randrange(-2 ** 25, 2 ** 25),
                           r.randrange(-2 ** 11, 2 ** 11),
                           r.randrange(-2 ** 25, 2 ** 25))
                exp = rw.pack_position(x, y, z, lay)
                sink = Sink()
                Position.send_with_context((x, y, z), sink, ctx)
                back = Position.read_with_context(Stream(exp), ctx)
                if sink.value() != exp or tuple(back) != (x, y, z):
                    errors.append({'pv': pv, 'triple': (x, y, z),
                                   'got': sink.value(), 'expected': exp,
                                   'back': tuple(back)})
                    return
                # a block record (x, z differ between the threads' records)
                new_ = ctx.protocol_later_eq(741)
                rx, ry, rz, rs = (r.randrange(16), r.randrange(16 if new_
                                                               else 256),
                                  r.randrange(16), r.getrandbits(12))
                exp = rw.pack_block_record_new(rx, ry, rz, rs) if new_ else \
                    rw.pack_block_record_old(rx, ry, rz, rs)
                sink = Sink()
                try:
                    MBC.Record.send_with_context(
                        MBC.Record(x=rx, y=ry, z=rz, block_state_id=rs),
                        sink, ctx)
                    b2 = MBC.Record.read_with_context(Stream(exp), ctx)
                    backt = (b2.x, b2.y, b2.z, b2.block_state_id)
                except Exception as e:
                    backt = repr(e)
                if sink.value() != exp or backt != (rx, ry, rz, rs):
                    errors.append({'pv': pv, 'record': (rx, ry, rz, rs),
                                   'got': sink.value(), 'expected': exp,
                                   'back': backt})
                    return
        try:
            for a, b in pairs:
                n = 60000 if thorough else 15000
                ts = [threading.Thread(target=hammer, args=(a, n, 1)),
                      threading.Thread(target=hammer, args=(b, n, 2))]
                for t in ts:
                    t.start()
                for t in ts:
                    t.join(120.0)
                run.bulk(2 * n, 0)
                run.count('concurrent_codec_calls', 2 * n)
                # the same with a pre-emption injected at the statements of
                # the codecs themselves (both threads on the same side of the
                # switches as well: shared scratch state needs no version
                # difference to show)
                if errors:
                    break
                from ..probes.linemon import LineMonitor as _LM
                n2 = 4000 if thorough else 800
                with _LM(files=['minecraft/networking/types/basic.py',
                                'minecraft/networking/packets/clientbound/'
                                'play/block_change_packet.py'],
                         yield_prob=0.3, seed=run.seed) as mon_:
                    ts = [threading.Thread(target=hammer, args=(a, n2, 3)),
                          threading.Thread(target=hammer, args=(b, n2, 4)),
                          threading.Thread(target=hammer, args=(b, n2, 5))]
                    for t in ts:
                        t.start()
                    for t in ts:
                        t.join(120.0)
                    run.count('concurrent_codec_calls_with_yield_injection',
                              3 * n2)
                    run.count('codec_yields_injected', mon_.yields)
        finally:
            sys.setswitchinterval(old_si)
        # decided systematically for one switch between two statements
        if not errors:
            from ..probes.linemon import PreemptEverywhere
            pe = PreemptEverywhere(
                ['minecraft/networking/types/basic.py',
                 'minecraft/networking/packets/clientbound/play/'
                 'block_change_packet.py', 'minecraft/utility.py',
                 'minecraft/networking/connection.py'], max_k=120)
            for pva, pvb in pairs + [(757, 757), (340, 340)]:
                ca = ConnectionContext(protocol_version=pva)
                cb_ = ConnectionContext(protocol_version=pvb)

                def rec_bytes(ctx, x, y, z, st):
                    sink = Sink()
                    MBC.Record.send_with_context(
                        MBC.Record(x=x, y=y, z=z, block_state_id=st), sink,
                        ctx)
                    return sink.value()

                def pos_bytes(ctx, t):
                    sink = Sink()
                    Position.send_with_context(t, sink, ctx)
                    return sink.value()

                def exp_rec(ctx, x, y, z, st):
                    return rw.pack_block_record_new(x, y, z, st) \
                        if ctx.protocol_later_eq(741) else \
                        rw.pack_block_record_old(x, y, z, st)
                ra_, rb_ = (3, 7, 12, 1234), (14, 2, 5, 77)
                ta_, tb_ = (-1000, 63, 2 ** 24), (77, -5, -3)
                for fa, fb, ea, eb, what in (
                        (lambda: rec_bytes(ca, *ra_),
                         lambda: rec_bytes(cb_, *rb_),
                         exp_rec(ca, *ra_), exp_rec(cb_, *rb_), 'record'),
                        (lambda: pos_bytes(ca, ta_),
                         lambda: pos_bytes(cb_, tb_),
                         rw.pack_position(*ta_, trace_layout(pva)),
                         rw.pack_position(*tb_, trace_layout(pvb)),
                         'position')):
                    def judge(k, ra, rb, ea=ea, eb=eb, what=what):
                        if ra != ('ok', ea) or rb != ('ok', eb):
                            return {'pv': (pva, pvb), what: True,
                                    'stopped_after_statements': k,
                                    'thread_a': repr(ra), 'thread_b': repr(rb),
                                    'expected': (ea, eb)}
                    wit = pe.run(fa, fb, judge)
                    if wit:
                        if what == 'position':
                            wit['triple'] = ta_
                        errors.append(wit)
                        break
                if errors:
                    break
            # ... and a call pre-empted by a *reassignment* of its context's
            # version (what connect() does to the connection's context while
            # a user thread is building packets): afterwards the codec follows
            # the current version
            if not errors:
                for pva, pvb in ((340, 757), (757, 340), (47, 578), (477, 404)):
                    holder = {}

                    def fresh(k, pva=pva):
                        holder['ctx'] = ConnectionContext(protocol_version=pva)

                    def call_a():
                        sink = Sink()
                        Position.send_with_context((5, 6, 7), sink,
                                                   holder['ctx'])
                        return sink.value()

                    def call_b(pvb=pvb):
                        holder['ctx'].protocol_version = pvb
                        return True

                    def judge(k, ra, rb, pva=pva, pvb=pvb):
                        sink = Sink()
                        try:
                            Position.send_with_context((5, 6, 7), sink,
                                                       holder['ctx'])
                            after = sink.value()
                        except Exception as e:
                            after = repr(e)
                        exp = rw.pack_position(5, 6, 7, trace_layout(pvb))
                        if after != exp:
                            return {'versions': (pva, pvb),
                                    'stopped_after_statements': k,
                                    'encoded_after_reassignment': after,
                                    'expected': exp}
                    wit = pe.run(call_a, call_b, judge, fresh=fresh)
                    if wit:
                        run.violation(
                            'position/stale-after-concurrent-reassignment',
                            'after another thread had reassigned the version '
                            'of a context in the middle of an encoding, the '
                            'codec does not follow the current version', wit)
                        break
            run.count('codec_preemption_points', pe.points)
        if errors:
            run.violation('position/concurrent-versions' if 'triple' in
                          errors[0] else 'record/concurrent', 'two or three '
                          'threads using the position / block-record codecs '
                          'at the same time disturb each other', errors[0])

    # ---- one context, its version reassigned by another thread ----------------
    # (what connect() does to the connection's context when negotiation ends,
    # while a user thread is building packets): once the reassignment is over,
    # the codec must follow the context's *current* version
    if run.shard in (0, 1):
        import sys
        import threading
        from ..probes.linemon import LineMonitor
        stale = []
        for rnd in range(40 if thorough else 12):
            ctx = ConnectionContext(protocol_version=757)
            stop = threading.Event()

            def user():
                while not stop.is_set():
                    Position.send_with_context((1, 2, 3), Sink(), ctx)

            def negotiator(final):
                for v in (404, 757, 340, 578, final):
                    ctx.protocol_version = v
            final = (404, 757, 47, 498)[rnd % 4]
            with LineMonitor(files=['minecraft/networking/connection.py',
                                    'minecraft/utility.py'],
                             yield_prob=0.3, seed=rnd + run.seed * 1000):
                tu = threading.Thread(target=user)
                tn = threading.Thread(target=negotiator, args=(final,))
                tu.start()
                tn.start()
                tn.join(30.0)
                stop.set()
                tu.join(30.0)
            lay = trace_layout(final)
            for triple in ((1, 2, 3), (-5, 7, 9)):
                sink = Sink()
                Position.send_with_context(triple, sink, ctx)
                exp = rw.pack_position(*triple, lay)
                back = Position.read_with_context(Stream(exp), ctx)
                run.count('position.calls_after_concurrent_reassignment')
                if sink.value() != exp or tuple(back) != triple:
                    stale.append({'final_version': final, 'triple': triple,
                                  'got': sink.value(), 'expected': exp,
                                  'back': tuple(back)})
        if stale:
            run.violation('position/stale-after-concurrent-reassignment',
                          'after another thread had reassigned the version of '
                          'a context that was in use, the position codec kept '
                          'using the layout of an earlier version', stale[0])

    # ---- versions registered at run time --------------------------------------
    if run.shard == 0:
        import json
        import subprocess
        import sys
        from .. import core
        p = subprocess.run([sys.executable, '-m', 'vf.checks.c04_runtime'],
                           cwd=core.VERIF_DIR, stdout=subprocess.PIPE,
                           stderr=subprocess.PIPE, timeout=120)
        if p.returncode:
            run.inconclusive_because('run-time registration helper failed: %s'
                                     % p.stderr.decode()[-300:])
        else:
            snap = json.loads(p.stdout.decode())
            run.count('position.runtime_registered_versions', 3)
            want = {'758': 'xzy', '10002': 'xzy', '10001': 'xyz', '47': 'xyz',
                    '757': 'xzy', '404': 'xyz', '477': 'xzy'}
            for pv_, lay in want.items():
                exp = rw.pack_position(1, 2, 3, lay).hex()
                got = snap.get(pv_, {})
                if got.get('encoded') != exp or \
                        tuple(got.get('back') or ()) != (1, 2, 3):
                    run.violation('position/runtime-registered-version',
                                  'after versions were registered at run time '
                                  '(records extended, tables rebuilt) the '
                                  'position codec does not follow the version '
                                  'list', {'pv': int(pv_), 'expected_layout':
                                           lay, 'snapshot': got})

    # chunk section positions (no context)
    sec = list(itertools.product(axis_values(22), axis_values(20),
                                 axis_values(22)))
    for _ in range(nrand * 5):
        sec.append((rng.randrange(-2 ** 21, 2 ** 21),
                    rng.randrange(-2 ** 19, 2 ** 19),
                    rng.randrange(-2 ** 21, 2 ** 21)))
    for i, (x, y, z) in enumerate(sec):
        if not run.mine(i):
            continue
        exp = rw.pack_section_pos(x, y, z)
        sink = Sink()
        MBC.ChunkSectionPos.send((x, y, z), sink)
        st = Stream(exp + b'\xa5')
        back = MBC.ChunkSectionPos.read(st)
        run.case(('sec', x, y, z))
        if sink.value() != exp or tuple(back) != (x, y, z) or st.pos != 8:
            run.violation('sectionpos', 'chunk section position packing '
                          'differs', {'triple': (x, y, z), 'got': sink.value(),
                                      'expected': exp, 'back': tuple(back)})
            break
    for w in [1 << k for k in range(64)] + [2 ** 64 - 1]:
        data = w.to_bytes(8, 'big')
        back = MBC.ChunkSectionPos.read(Stream(data))
        if tuple(back) != rw.unpack_section_pos(data):
            run.violation('sectionpos/decode-word', 'section pos decode of a '
                          'single-bit word differs', {
                              'word': data, 'back': tuple(back),
                              'expected': rw.unpack_section_pos(data)})
    if run.shard == 0:
        run.sample({'pv': 404, 'triple': (2 ** 25 - 1, -2 ** 11, -1),
                    'bytes': rw.pack_position(2 ** 25 - 1, -2 ** 11, -1,
                                              'xyz')})
        run.sample({'pv': 477, 'triple': (2 ** 25 - 1, -2 ** 11, -1),
                    'bytes': rw.pack_position(2 ** 25 - 1, -2 ** 11, -1,
                                              'xzy')})
        run.require('layout_trace_versions', 300)
    run.require('layout.xyz', 100)
    run.require('position.runtime_registered_versions', 1)
    run.require('position.calls_after_concurrent_reassignment', 10)
    run.require('layout.xzy', 100)
    run.require('record.new', 10)
    run.require('record.old', 100)
    if run.shard == 0:
        run.require('reused_context_cases', 100)
        run.require('concurrent_codec_calls', 1000)
