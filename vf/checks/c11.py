"""C11 - in play, keep-alives and teleports are always answered; unknown packets
pass; a server disconnect ends the connection cleanly.

A real Connection logs in (single allowed version) against the independent
server, which then plays a generated packet history, sends a disconnect packet,
half-closes and drains until the client closes.  Monitors: the serverbound
frame sequence recorded by the server (compared for *sequence equality* with a
small echo model: no loss, no duplication, order), the packets delivered to an
early listener, exit / exception callbacks.
"""
import struct
import time

from ..probes import client as pc
from ..ref import core_packets as ref
from ..ref import varint as rv
from ..server import mcserver, scripts
from ..server.codec import codec_for

SHARDS = {'quick': 8, 'thorough': 16}


def build_history(rng, pv, codec, length, unknown_ids, unhandled):
    """Returns list of (kind, cb frame (id, payload), expected sb (id, payload)
    or None)."""
    hist = []
    long_ka = codec.has_field('cb_keep_alive', 'id') and \
        len(codec.encode('cb_keep_alive', {'id': 1})[1]) == 8
    tp = 0
    for _ in range(length):
        kind = rng.choice(('ka', 'ka', 'ka', 'pos', 'unknown', 'unhandled'))
        if kind == 'ka':
            if long_ka:
                v = rng.choice((0, 1, -1, 2 ** 63 - 1, -2 ** 63, 2 ** 31,
                                rng.getrandbits(63), -rng.getrandbits(62)))
            else:
                v = rng.choice((0, 1, 127, 128, 16383, 16384, 2 ** 21 - 1,
                                2 ** 21, 2 ** 28 - 1, 2 ** 28, 2 ** 31 - 1,
                                2 ** 32 - 1,       # vanilla's "negative" ids
                                2 ** 31, rng.getrandbits(31)))
            cid, cp = codec.encode('cb_keep_alive', {'id': v})
            sid = codec.packet_id('sb_keep_alive')
            hist.append(('ka', (cid, cp), (sid, cp)))
        elif kind == 'pos':
            tp += 1
            vals = {'x': rng.uniform(-3e7, 3e7), 'y': rng.uniform(-64, 320),
                    'z': rng.choice((0.0, -0.0, 1e-300, rng.uniform(-3e7,
                                                                    3e7))),
                    'yaw': struct.unpack('>f', struct.pack(
                        '>f', rng.uniform(-720, 720)))[0],
                    'pitch': struct.unpack('>f', struct.pack(
                        '>f', rng.uniform(-90, 90)))[0],
                    'flags': rng.randrange(32),
                    'teleport_id': rng.choice((0, 1, 127, 128, 2 ** 31 - 1,
                                               tp)),
                    'dismount': rng.random() < 0.5}
            cid, cp = codec.encode('cb_position_look', vals)
            if codec.has_field('cb_position_look', 'teleport_id'):
                sid = codec.packet_id('teleport_confirm')
                exp = (sid, rv.encode(vals['teleport_id']))
            else:
                sid = codec.packet_id('sb_position_look')
                exp = (sid, struct.pack('>dddff?', vals['x'], vals['y'],
                                        vals['z'], vals['yaw'], vals['pitch'],
                                        True))
            hist.append(('pos', (cid, cp), exp))
        elif kind == 'unknown':
            body = bytes(rng.getrandbits(8) for _ in range(
                rng.choice((0, 1, 5, 100, 3000))))
            hist.append(('unknown', (rng.choice(unknown_ids), body), None))
        else:
            if not unhandled:
                continue
            name = rng.choice(unhandled)
            if name == 'cb_chat':
                # (chat components may be far longer than ordinary strings)
                vals = {'json': '{"text":"%s"}' % ('h' * (
                    rng.choice((33000, 70000)) if rng.random() < 0.1
                    else rng.randrange(40))),
                        'position': rng.randrange(3),
                        'sender': '00000000-0000-0000-0000-000000000001'}
            else:
                vals = {'world_age': rng.getrandbits(40),
                        'time_of_day': -rng.getrandbits(20)}
            hist.append((name, codec.encode(name, vals), None))
    return hist


def conversation(run, pv, rng, length, threshold, abrupt, label,
                 force_play_compress=False, silent_gap=0):
    from minecraft.networking.connection import ConnectionContext
    from minecraft.networking.packets import Packet, clientbound
    codec = codec_for(pv)
    ctx = ConnectionContext(protocol_version=pv)
    table = sorted(clientbound.play.get_packets(ctx),
                   key=lambda k: k.__qualname__)
    ids = [k.get_id(ctx) for k in table]
    known = set(ids)
    unknown_ids = [i for i in (0x7E, 0x7D, 0x6B, 0x80, 0x1234, 0x69)
                   if i not in known][:4]
    unhandled = []
    for name in ('cb_chat', 'time_update'):
        try:
            pid = codec.packet_id(name)
        except Exception:
            continue
        # only ids that select exactly one decoder at this version, and that
        # the tree registers as this very packet (collisions belong to C06)
        if ids.count(pid) == 1:
            unhandled.append(name)
    hist = build_history(rng, pv, codec, length, unknown_ids, unhandled)
    # frames whose uncompressed size is *exactly* the threshold in force (a
    # vanilla peer compresses from that size on): one at the login threshold,
    # one at each in-play threshold
    if unknown_ids:
        for th in {threshold, 64, 256} - {None, 0}:
            uid = unknown_ids[0]
            body = bytes(rng.getrandbits(8) for _ in range(
                th - len(rv.encode(uid))))
            hist.insert(rng.randrange(len(hist) + 1),
                        ('unknown', (uid, body), None))
            run.count('frames_of_exactly_threshold_size')
        # frames that inflate to the largest sizes a peer may send (2 MiB; 8
        # MiB from protocol 756 on) - compressible, so small on the wire
        if threshold is not None and threshold >= 0 and \
                isinstance(label, int) and label % 5 == 0:
            limit = 8388608 if ctx.protocol_later_eq(756) else 2097152
            for size in {limit, limit - 1, 2097152 + 1 if limit > 2097152
                         else 2097152 // 2}:
                uid = unknown_ids[0]
                body = (b'large frame ' * (size // 12 + 1))[
                    :size - len(rv.encode(uid))]
                hist.insert(rng.randrange(len(hist) + 1),
                            ('unknown', (uid, body), None))
                run.count('frames_inflating_to_megabytes')
    state = {'frames': None, 'login_name': None}
    burst = rng.choice((1, 7, 49, 50, 51, 120, 10 ** 6))
    if abrupt == 'reset':
        burst = 10 ** 6
    encrypted = rng.random() < 0.25
    short_reads = rng.random() < 0.5
    # 1.8 (protocol 47) can also switch compression on *during play* (packet
    # 0x46); it is sent before anything that provokes an answer, so that the
    # framing of every client frame is unambiguous
    if force_play_compress:
        threshold = None
    play_compress = pv == 47 and threshold is None and (
        force_play_compress or rng.random() < 0.7)
    play_threshold = rng.choice((0, 64, 256))

    # A third of the conversations are the *second* session of a Connection
    # object whose first session used the opposite transport settings
    # (compression / encryption): state leaking from an earlier connection of
    # the same object would show in the judged session.
    warmup = rng.random() < 0.33 and not abrupt
    warm_threshold = None if threshold is not None else 32
    warm_encrypted = not encrypted
    # ... and, half of the time, another protocol version (the server was
    # "upgraded" between the two sessions): ids/layouts remembered from the
    # first session must not survive
    warm_pv = pv if rng.random() < 0.5 else rng.choice(
        [v for v in (47, 110, 338, 340, 404, 578, 757) if v != pv])
    wcodec = codec_for(warm_pv)

    def warm_handler(io):
        hs = scripts.read_handshake(io)
        if hs is None:
            return
        scripts.login_offline(io, warm_pv, warm_threshold, wcodec,
                              encrypted=warm_encrypted)
        for v in (5, 300):
            kid, kp = wcodec.encode('cb_keep_alive', {'id': v})
            io.send_frame(kid, kp)
        cid, cp = wcodec.encode('cb_position_look', {
            'x': 1.0, 'y': 2.0, 'z': 3.0, 'yaw': 0.0, 'pitch': 0.0,
            'flags': 0, 'teleport_id': 9, 'dismount': False})
        io.send_frame(cid, cp)
        did, dp = wcodec.encode('play_disconnect', {'reason': '"first"'})
        io.send_frame(did, dp)
        io.half_close()
        io.drain(timeout=8.0)

    def handler(io):
        if warmup and io.index == 0:
            return warm_handler(io)
        hs = scripts.read_handshake(io)
        if hs is None:
            return
        state['handshake'] = hs
        state['login_name'] = scripts.login_offline(io, pv, threshold, codec,
                                                    encrypted=encrypted)
        if play_compress:
            io.send_frame(0x46, rv.encode(play_threshold))
            io.enable_compression(play_threshold)
        buf = bytearray()
        n = 0
        for kind, (cid, cp), _exp in hist:
            buf += io.encode_frame(cid, cp)
            n += 1
            if n % burst == 0:
                io.send_raw(bytes(buf), fragments=rng.choice(
                    (None, None, [1], [3, 700], [4096])))
                buf = bytearray()
                if rng.random() < 0.3:
                    time.sleep(0.002)
        did, dp = codec.encode('play_disconnect', {'reason': '{"text":"%s"}' % (
            'bye' if label % 5 else 'b' * 40000)})
        buf += io.encode_frame(did, dp)
        if silent_gap:
            # a slow link: the stream pauses *inside* a frame for a long time
            # (the client is then blocked in a read, not in select)
            cut = len(buf) - 3
            io.send_raw(bytes(buf[:cut]))
            time.sleep(silent_gap)
            buf = buf[cut:]
        io.send_raw(bytes(buf))
        if abrupt == 'reset':
            io.close(abrupt=True)       # RST: the next client write fails
            return                      # with ECONNRESET, not EPIPE
        if abrupt:
            io.close()
            return
        io.half_close()
        state['frames'] = io.drain(timeout=8.0)

    server = mcserver.Server(handler)
    rec = pc.Recorder()
    w = {'pv': pv, 'history_len': len(hist), 'threshold': threshold,
         'burst': burst, 'abrupt': abrupt, 'codec': type(codec).__name__,
         'encrypted': encrypted, 'short_reads': short_reads,
         'second_session_of_object': warmup,
         'first_session_version': warm_pv if warmup else None,
         'compression_switched_on_in_play': play_compress,
         'kinds': [h[0] for h in hist][:20]}
    try:
        conn = pc.make_connection(server.port, rec, allowed_versions={pv},
                                  decoy=label % 3 == 0)
        conn.vf_rng = rng
        conn.vf_short_reads = short_reads     # partial TCP delivery
        if label % 5 == 2:
            # a slow consumer: every packet costs the networking thread a
            # moment, so the server's packets pile up in front of it
            from minecraft.networking.packets import Packet as _P

            def slow(_packet):
                time.sleep(0.0005)
            conn.register_packet_listener(slow, _P)
            run.count('conversations.slow_listener')
            w['slow_listener'] = True
        if label % 7 == 3 and length <= 12:
            # a slow *outgoing* listener: writing the library's own answers
            # takes the application longer than one 50 ms tick (synchronous
            # logging, a blocking call); the conversation is the same
            from minecraft.networking.packets import serverbound as _sbp
            slow_budget = [6]

            def slow_out(_packet):
                if slow_budget[0] > 0:
                    slow_budget[0] -= 1
                    time.sleep(0.08)
            conn.register_packet_listener(
                slow_out, _sbp.play.KeepAlivePacket, outgoing=True,
                early=label % 2 == 0)
            run.count('conversations.slow_outgoing_listener')
            w['slow_outgoing_listener'] = True
        if warmup:
            conn.allowed_proto_versions = {warm_pv}
            conn.connect()
            conn.allowed_proto_versions = {pv}
            if not pc.wait_idle(conn, 20.0):
                return 'inconclusive', 'first session did not end'
            if rec.exceptions or rec.exits != 1:
                run.violation('play/first-session', 'the first (warm-up) '
                              'session of the connection object did not end '
                              'cleanly', dict(w, exc=repr(rec.exceptions[:1]),
                                              exits=rec.exits))
                return 'done', None
            del rec.packets[:]
            del rec.exceptions[:]
            rec.exits = 0
            run.count('conversations.second_session')
        conn.connect()
        done = pc.wait_idle(conn, 20.0 + silent_gap)
        server.join(12.0)
        if silent_gap:
            run.count('conversations.with_long_silent_gap')
            w['silent_gap_inside_frame_s'] = silent_gap
        if not done:
            return 'inconclusive', 'client threads still alive after 20s: ' \
                + pc.dump_threads()
        if server.errors:
            kind = server.errors[0][1]
            if kind == 'frame':
                run.violation('play/malformed-serverbound', 'client sent a '
                              'frame the reference parser rejects',
                              dict(w, error=server.errors[0][2]))
                return 'done', None
            return 'inconclusive', 'server script: %r' % (server.errors[:1],)
        run.count('conversations')
        if getattr(rec, 'decoy', None) is not None:
            rec.decoy.verdict(run, w)
            run.count('conversations.with_decoy_object')
        if play_compress:
            run.count('conversations.play_state_compression')
        if encrypted:
            run.count('conversations.encrypted')
        if short_reads:
            run.count('conversations.short_reads')
        # ---- client-side facts -------------------------------------------
        names = {'ka': 'KeepAlivePacket', 'pos': 'PlayerPositionAndLookPacket',
                 'cb_chat': 'ChatMessagePacket',
                 'time_update': 'TimeUpdatePacket'}
        play_seen = [(type(p).__name__, p.id) for p in rec.packets
                     if type(p).__name__ not in ('LoginSuccessPacket',
                                                 'SetCompressionPacket',
                                                 'EncryptionRequestPacket')]
        want_seen = [('Packet', h[1][0]) if h[0] == 'unknown'
                     else (names[h[0]], h[1][0]) for h in hist]
        want_seen.append(('DisconnectPacket',
                          codec.packet_id('play_disconnect')))
        got_disconnect = bool(play_seen) and \
            play_seen[-1][0] == 'DisconnectPacket'
        if abrupt == 'reset' and not got_disconnect and not getattr(
                server.connections[-1], 'all_delivered_before_reset', True):
            # the reset overtook data the client's kernel had not taken yet
            # (full window): the disconnect packet was never delivered
            run.count('abrupt.reset_discarded_undelivered_data')
            if play_seen != want_seen[:len(play_seen)]:
                run.violation('play/delivered-sequence', 'packets delivered '
                              'are not a prefix of the history sent', w)
            return 'done', None
        if abrupt == 'reset' and not got_disconnect:
            # everything, including the disconnect packet, was delivered to
            # the client's socket before the reset; bytes already received stay
            # readable, so the packet must still be honoured
            run.violation('play/reset-close-loses-disconnect', 'the peer reset'
                          ' the connection after sending a disconnect packet; '
                          'the client reported an error instead of honouring '
                          'the packet it had already received', dict(
                              w, exc=repr(rec.exceptions[:1]),
                              delivered=len(play_seen)))
            return 'done', None
        if abrupt and not got_disconnect:
            # the peer's close reset the connection before the client had
            # read the disconnect packet: the premise of the clause does not
            # hold; only the delivered prefix is judged
            run.count('abrupt.reset_before_disconnect_was_read')
            if play_seen != want_seen[:len(play_seen)]:
                run.violation('play/delivered-sequence', 'packets delivered '
                              'are not a prefix of the history sent', w)
            return 'done', None
        if rec.exceptions:
            mech = 'write-to-reset-peer' if abrupt == 'reset' else \
                'flush-to-closed-peer' if abrupt else 'clean-close'
            run.violation('play/disconnect-reports-error/' + mech,
                          'a server disconnect packet was delivered and then '
                          'an error was reported',
                          dict(w, exc=repr(rec.exceptions[0])))
        if rec.exits != 1:
            run.violation('play/exit-callback-count/%s' % (
                'flush-to-closed-peer' if abrupt and rec.exceptions
                else 'other'),
                'exit callback ran %d times after a server disconnect'
                % rec.exits, w)
        if bool(getattr(conn, 'spawned', False)) != any(
                h[0] == 'pos' for h in hist):
            run.violation('play/spawned', 'spawned flag wrong', w)
        # what the object tells its user after the session has ended
        if not abrupt:
            facts = {'connected': conn.connected,
                     'protocol_version': conn.context.protocol_version,
                     'address': conn.options.address,
                     'port': conn.options.port,
                     'exception': repr(conn.exception) if getattr(
                         conn, 'exception', None) is not None else None,
                     'threads': [t for t in (conn.networking_thread,
                                             conn.new_networking_thread)
                                 if t is not None and t.is_alive()]}
            want_facts = {'connected': False, 'protocol_version': pv,
                          'address': '127.0.0.1', 'port': server.port,
                          'exception': None, 'threads': []}
            run.count('post_session_state_checks')
            if facts != want_facts and not rec.exceptions:
                run.violation('play/object-state-after-session', 'after a '
                              'session that the server ended in an orderly '
                              'way the connection object misreports its '
                              'state', dict(w, got={k: v for k, v in
                                                    facts.items() if v !=
                                                    want_facts[k]}))
        # delivered packets: same order, same kinds
        if play_seen != want_seen:
            first = next((j for j, (a, b) in enumerate(
                zip(play_seen, want_seen)) if a != b),
                min(len(play_seen), len(want_seen)))
            run.violation('play/delivered-sequence', 'packets delivered to the'
                          ' listener differ from the history sent',
                          dict(w, first_difference=first,
                               got=play_seen[first:first + 2],
                               expected=want_seen[first:first + 2],
                               n_got=len(play_seen)))
        # ---- wire facts ------------------------------------------------------
        if not abrupt:
            io = server.connections[-1]
            got = [(pid, bytes(p)) for pid, p, _i in (state['frames'] or [])]
            exp = [h[2] for h in hist if h[2] is not None]
            run.count('echoes_expected', len(exp))
            run.count('echoes_seen', len(got))
            if io.partial_at_eof:
                run.violation('play/partial-frame-at-close', 'client closed '
                              'in the middle of a frame', w)
            if got != exp:
                first = next((j for j, (a, b) in enumerate(zip(got, exp))
                              if a != b), min(len(got), len(exp)))
                what = 'lost' if len(got) < len(exp) else 'duplicated/extra' \
                    if len(got) > len(exp) else 'altered/reordered'
                run.violation('play/echo-sequence/' + what, 'serverbound '
                              'frames differ from the echo model (each '
                              'keep-alive/teleport answered once, in order)',
                              dict(w, n_got=len(got), n_expected=len(exp),
                                   first_difference=first,
                                   got=got[first:first + 2],
                                   expected=exp[first:first + 2]))
            if play_compress and play_threshold == 0:
                # the threshold announced in play state applies to everything
                # the client writes afterwards: at 0 every frame is compressed
                plain = [pid for pid, _p, info in (state['frames'] or [])
                         if not info['compressed']]
                run.count('play_state_compression.client_frames_checked',
                          len(state['frames'] or []))
                if plain:
                    run.violation('play/compression-threshold-not-applied',
                                  'after set-compression(0) in play state the '
                                  'client still wrote frames without '
                                  'compressing them', dict(
                                      w, uncompressed_ids=plain[:4]))
            if not io.eof:
                run.violation('play/not-closed', 'client did not close the '
                              'connection after the disconnect packet', w)
        else:
            run.count('abrupt_conversations')
            if abrupt == 'reset':
                run.count('abrupt_conversations.reset')
        return 'done', w
    finally:
        if getattr(rec, 'decoy', None) is not None:
            rec.decoy.port.close()
        server.stop()
        try:
            conn.disconnect(immediate=True)
        except Exception:
            pass
        # the object stays alive (an application keeps its Connection): what
        # its ended session still holds is counted at the end of the run
        KEPT.append(conn)


KEPT = []


def reset_mid_batch(run, pv, rng, idx):
    """Controlled schedule for the kick-and-reset fault: the server's reset
    arrives *between two echo writes of one batch*, with the (already
    delivered) disconnect packet further than one read batch away."""
    import threading
    from minecraft.networking.packets import serverbound
    codec = codec_for(pv)
    n_ka = rng.randrange(25, 45)
    k = rng.randrange(5, min(n_ka, 40) - 2)      # echoes that get through
    n_fill = rng.randrange(60, 140) - n_ka
    closed = threading.Event()
    state = {'echoes': 0}

    def handler(io):
        if scripts.read_handshake(io) is None:
            return
        scripts.login_offline(io, pv, None, codec)
        buf = bytearray()
        for i in range(n_ka):
            buf += io.encode_frame(*codec.encode('cb_keep_alive',
                                                 {'id': 100 + i}))
        for i in range(n_fill):
            buf += io.encode_frame(0x7E, b'filler')
        buf += io.encode_frame(*codec.encode('play_disconnect',
                                             {'reason': '"kick"'}))
        io.send_raw(bytes(buf))
        while state['echoes'] < k:
            if io.recv_frame(8.0) is None:
                break
            state['echoes'] += 1
        io.close(abrupt=True)
        closed.set()
    server = mcserver.Server(handler)
    rec = pc.Recorder()
    w = {'pv': pv, 'directed': 'reset-mid-batch', 'keep_alives': n_ka,
         'echoes_before_reset': k, 'packets_before_disconnect': n_ka + n_fill}
    conn = None
    try:
        conn = pc.make_connection(server.port, rec, allowed_versions={pv})
        seen = []

        def hold(packet):
            seen.append(1)
            if len(seen) == k:
                closed.wait(8.0)
                time.sleep(0.03)              # let the RST arrive
        conn.register_packet_listener(hold, serverbound.play.KeepAlivePacket,
                                      outgoing=True)
        conn.connect()
        if not pc.wait_idle(conn, 20.0):
            return 'inconclusive', 'threads alive: ' + pc.dump_threads()
        server.join(10.0)
        if [e for e in server.errors if e[1] == 'script']:
            return 'inconclusive', 'server script: %r' % (server.errors[:1],)
        if not closed.is_set() or len(seen) < k:
            return 'inconclusive', 'the reset point was never reached'
        run.count('directed.reset_mid_batch')
        got_disconnect = any(type(p).__name__ == 'DisconnectPacket'
                             for p in rec.packets)
        if not got_disconnect or rec.exceptions:
            run.violation('play/reset-close-loses-disconnect', 'the peer reset'
                          ' the connection after sending a disconnect packet; '
                          'the client reported an error instead of honouring '
                          'the packet it had already received', dict(
                              w, exc=repr(rec.exceptions[:1]),
                              delivered=len(rec.packets)))
        elif rec.exits != 1:
            run.violation('play/exit-callback-count/other', 'exit callback ran'
                          ' %d times after a server disconnect' % rec.exits, w)
        return 'done', w
    finally:
        closed.set()
        server.stop()
        if conn is not None:
            pc.safe_disconnect(conn)


def client_leaves_mid_write(run, pv, rng, idx):
    """The client ends the session itself, from an outgoing listener, right
    after one of its keep-alive answers has been written ("leave once my
    reply is on the wire"): every keep-alive received so far must still be
    answered exactly once, in order, and the session must end cleanly."""
    from minecraft.networking.packets import serverbound
    codec = codec_for(pv)
    n_ka = rng.randrange(2, 9)
    k = rng.randrange(1, n_ka + 1)          # leave after the k-th answer
    state = {'ids': []}

    def handler(io):
        if scripts.read_handshake(io) is None:
            return
        scripts.login_offline(io, pv, rng.choice((None, 0, 64)), codec)
        buf = bytearray()
        for i in range(n_ka):
            buf += io.encode_frame(*codec.encode('cb_keep_alive',
                                                 {'id': 100 + i}))
        io.send_raw(bytes(buf))                  # one burst = one read batch
        for fr in io.drain(8.0):
            nm, vals = codec.decode('play', fr[0], fr[1])
            state['ids'].append(vals['id'] if nm == 'sb_keep_alive'
                                else '<%s>' % nm)
    server = mcserver.Server(handler)
    rec = pc.Recorder()
    w = {'pv': pv, 'directed': 'client-leaves-mid-write', 'keep_alives': n_ka,
         'leaves_after_answer': k}
    conn = None
    try:
        conn = pc.make_connection(server.port, rec, allowed_versions={pv})
        seen = []

        def leave(packet):
            seen.append(1)
            if len(seen) == k:
                conn.disconnect()
        conn.register_packet_listener(leave, serverbound.play.KeepAlivePacket,
                                      outgoing=True)
        conn.connect()
        if not pc.wait_idle(conn, 20.0):
            return 'inconclusive', 'threads alive: ' + pc.dump_threads()
        server.join(10.0)
        if [e for e in server.errors if e[1] == 'script']:
            return 'inconclusive', 'server script: %r' % (server.errors[:1],)
        run.count('directed.client_leaves_mid_write')
        if [e for e in server.errors if e[1] == 'frame']:
            run.violation('play/malformed-serverbound', 'client sent a frame '
                          'the reference parser rejects', dict(
                              w, error=server.errors[0][2]))
            return 'done', w
        # all n_ka keep-alives arrived in one burst; whether the client had
        # *read* all of them before it left is up to its batching, so the
        # answers must be a duplicate-free in-order prefix of at least k
        want = [100 + i for i in range(n_ka)]
        got = state['ids']
        if got != want[:len(got)] or len(got) < k:
            run.violation('play/echo-sequence/%s' % (
                'duplicated/extra' if len(set(map(str, got))) != len(got)
                else 'lost' if len(got) < k else 'altered/reordered'),
                'serverbound frames differ from the echo model (each keep-'
                'alive answered once, in order) when the client leaves from '
                'an outgoing listener', dict(w, got=got[:12],
                                             expected_prefix_of=want))
        if rec.exceptions:
            run.violation('play/client-leave-reports-error', 'the client '
                          'ended the session from a listener and an error was '
                          'reported', dict(w, exc=repr(rec.exceptions[:1])))
        elif rec.exits != 1:
            run.violation('play/exit-callback-count/other', 'exit callback ran'
                          ' %d times after the client left' % rec.exits, w)
        return 'done', w
    finally:
        server.stop()
        if conn is not None:
            pc.safe_disconnect(conn)


def flood_fairness(run, pv, rng, idx):
    """Bounded progress under sustained inbound traffic: the server sends one
    keep-alive and then frames without pause; the answer must arrive before
    the server has sent FLOOD_MAX further frames - a logical bound, far beyond
    the client's read batch of 50 plus everything that fits into the socket
    buffers (1 MB each way: server and client share this process's GIL, so the
    buffers must hold more than the client can consume in one of its turns, or
    its input would run dry for reasons of the harness)."""
    import select as _select
    import socket as _socket
    codec = codec_for(pv)
    FLOOD_MAX = 60000
    kind = ('unknown', 'time', 'mixed')[idx % 3]
    state = {'sent': 0, 'answered_after': None}

    def handler(io):
        if scripts.read_handshake(io) is None:
            return
        scripts.login_offline(io, pv, None, codec)
        io.sock.setsockopt(_socket.SOL_SOCKET, _socket.SO_SNDBUF, 1 << 20)
        io.send_frame(*codec.encode('cb_keep_alive', {'id': 4711}))
        filler = [io.encode_frame(0x7E, b'u' * 200)]
        if kind != 'unknown':
            filler.append(io.encode_frame(*codec.encode('time_update', {
                'world_age': 1, 'time_of_day': 2})) * 8)
        chunk = b''.join(filler[i % len(filler)] for i in range(40))
        per_chunk = 40 if kind == 'unknown' else (
            40 * 8 if kind == 'time' else 20 + 20 * 8)
        if kind == 'time':
            chunk = filler[1] * 40
        while state['sent'] < FLOOD_MAX:
            try:
                io.send_raw(chunk)
            except OSError:
                break
            state['sent'] += per_chunk
            if not _select.select([io.sock], [], [], 0)[0]:
                continue                      # (no pause: poll only)
            try:
                fr = io.recv_frame(1.0)
            except mcserver.ScriptTimeout:
                continue
            if fr is None:
                break
            nm, vals = codec.decode('play', fr[0], fr[1])
            if nm == 'sb_keep_alive' and vals['id'] == 4711:
                state['answered_after'] = state['sent']
                break
        if state['answered_after'] is None:
            # (the poll above looks at the socket only: an answer whose two
            # sends arrived apart - a time-out on the first piece - sits in
            # this side's own buffer and is never polled again.  Look there
            # before saying it never came.)
            try:
                for _ in range(50):
                    fr = io.recv_frame(0.2)
                    if fr is None:
                        break
                    nm, vals = codec.decode('play', fr[0], fr[1])
                    if nm == 'sb_keep_alive' and vals['id'] == 4711:
                        state['answered_after'] = state['sent']
                        state['noticed_late'] = True
                        break
            except (mcserver.ScriptTimeout, OSError):
                pass
        did, dp = codec.encode('play_disconnect', {'reason': '"end"'})
        try:
            io.send_frame(did, dp)
            io.half_close()
            io.drain(8.0)
        except OSError:
            pass
    server = mcserver.Server(handler)
    rec = pc.Recorder()
    conn = None
    w = {'pv': pv, 'directed': 'flood-fairness', 'flood': kind,
         'bound_frames': FLOOD_MAX}
    try:
        conn = pc.make_connection(server.port, rec, allowed_versions={pv},
                                  early_listener=False)
        conn.vf_rcvbuf = 1 << 20
        conn.connect()
        if not pc.wait_idle(conn, 60.0):
            return 'inconclusive', 'threads alive: ' + pc.dump_threads()
        server.join(15.0)
        if [e for e in server.errors if e[1] == 'script']:
            return 'inconclusive', 'server script: %r' % (server.errors[:1],)
        run.count('directed.flood_fairness')
        w['frames_sent_before_answer'] = state['answered_after']
        if state['answered_after'] is None:
            run.violation('play/answers-starved-by-inbound-traffic', 'a '
                          'keep-alive went unanswered while the server sent '
                          '%d further frames without pause (queued answers '
                          'must be written between read batches)'
                          % state['sent'], dict(w, sent=state['sent']))
        elif state.get('noticed_late'):
            # when exactly it came is not known: nothing to judge
            run.count('directed.flood_answer_noticed_late')
        else:
            run.seen('flood.answered_within', min(
                b for b in (1000, 5000, 20000, 60000)
                if state['answered_after'] <= b))
        return 'done', w
    finally:
        server.stop()
        if conn is not None:
            pc.safe_disconnect(conn)


def backlog_fairness(run, pv, rng, idx):
    """The deterministic form of the same demand: one keep-alive followed by
    several thousand further frames is *already in the client's socket buffer*
    when the client starts on it (its input cannot run dry, whatever the
    scheduling).  The answer must be written after a bounded number of reads:
    monitor = number of packets dispatched at the moment of the first write."""
    import threading
    from minecraft.networking.packets import clientbound
    codec = codec_for(pv)
    kind = ('unknown', 'time', 'mixed')[idx % 3]
    n_frames = 4000
    sent = threading.Event()
    state = {'echo': None}

    def handler(io):
        if scripts.read_handshake(io) is None:
            return
        scripts.login_offline(io, pv, None, codec)
        unknown = io.encode_frame(0x7E, b'u' * 200)
        tu = io.encode_frame(*codec.encode('time_update', {
            'world_age': 1, 'time_of_day': 2}))
        buf = bytearray(io.encode_frame(*codec.encode('cb_keep_alive',
                                                      {'id': 4712})))
        for i in range(n_frames):
            buf += unknown if kind == 'unknown' or (
                kind == 'mixed' and i % 2) else tu
        io.send_raw(bytes(buf))
        sent.set()
        try:
            while True:
                fr = io.recv_frame(20.0)
                if fr is None:
                    break
                nm, vals = codec.decode('play', fr[0], fr[1])
                if nm == 'sb_keep_alive' and vals['id'] == 4712:
                    state['echo'] = True
                    break
        except mcserver.ScriptTimeout:
            pass
        did, dp = codec.encode('play_disconnect', {'reason': '"end"'})
        io.send_frame(did, dp)
        io.half_close()
        io.drain(8.0)
    server = mcserver.Server(handler)
    rec = pc.Recorder()
    conn = None
    w = {'pv': pv, 'directed': 'backlog-fairness', 'backlog': kind,
         'frames_behind_the_keep_alive': n_frames}
    try:
        conn = pc.make_connection(server.port, rec, allowed_versions={pv})
        conn.vf_rcvbuf = 4 << 20
        first_write = []

        def hold(_p):
            sent.wait(10.0)        # everything is buffered before play begins
            time.sleep(0.05)
        conn.register_packet_listener(
            hold, clientbound.login.LoginSuccessPacket, early=True)

        def send_hook(kind_, proxy, data):
            if kind_ == 'send' and sent.is_set() and not first_write:
                first_write.append(sum(
                    1 for p in rec.packets
                    if type(p).__name__ != 'LoginSuccessPacket'))
        conn.vf_send_hook = send_hook
        conn.connect()
        if not pc.wait_idle(conn, 60.0):
            return 'inconclusive', 'threads alive: ' + pc.dump_threads()
        server.join(15.0)
        if [e for e in server.errors if e[1] == 'script']:
            return 'inconclusive', 'server script: %r' % (server.errors[:1],)
        if not first_write:
            return 'inconclusive', 'no write observed'
        run.count('directed.backlog_fairness')
        w['packets_dispatched_before_the_answer_was_written'] = first_write[0]
        run.seen('backlog.dispatched_before_answer', first_write[0])
        if first_write[0] > 1000:
            run.violation('play/answers-starved-by-inbound-traffic', 'with '
                          '%d frames waiting behind a keep-alive the client '
                          'dispatched %d packets before it wrote the answer '
                          '(queued answers must be written between read '
                          'batches)' % (n_frames, first_write[0]), w)
        return 'done', w
    finally:
        sent.set()
        server.stop()
        if conn is not None:
            pc.safe_disconnect(conn)


def run(run):
    import minecraft
    thorough = run.tier == 'thorough'
    run.level = 'exploration'
    versions = list(minecraft.SUPPORTED_PROTOCOL_VERSIONS)
    versions = [v for v in versions if v >= 47]
    run.rule = ('every supported protocol version >= 47 (%d) x generated '
                'server histories (keep-alives with ids at every VarInt/Long '
                'boundary, position-and-look packets, unknown-id frames of '
                'random content, known-but-unhandled packets) of length 1..600 '
                '(crossing the 50-read/300-write batch limits), sent in bursts/'
                'trickles/fragments, compression off/0/64, a quarter of them '
                'encrypted, half of them with forced short socket reads; '
                'thorough adds the '
                'fault class "peer closes right after the disconnect packet".'
                ' Distinct = (version, history).' % len(versions))
    run.assumptions = [
        'release protocols use the independent codec; for non-release versions'
        ' ids and layouts are read from the tree (behaviour still judged '
        'independently)', 'the server half-closes and drains so that every '
        'echo is observable', 'protocols 4/5 (1.7.x) are outside the README\'s'
        ' supported range and are not driven']
    rng = run.rng('c11')
    import gc
    import os
    gc.collect()
    fds0 = len(os.listdir('/proc/self/fd'))
    plan = []
    for pv in versions:
        for k in range(8 if thorough else 1):
            plan.append((pv, rng.choice((1, 5, 30, 60)), False))
    for _ in range(60 if thorough else 6):
        plan.append((47, rng.choice((5, 30, 60)), False, True))
    for _ in range(400 if thorough else 24):
        plan.append((rng.choice(versions), rng.choice((120, 320, 600)),
                     False))
    if thorough:
        for _ in range(600):
            plan.append((rng.choice(versions), rng.choice((3, 10, 40)), True))
    else:
        for _ in range(16):
            plan.append((rng.choice(versions), rng.choice((3, 10, 40)), True))
    for _ in range(300 if thorough else 16):
        plan.append((rng.choice(versions),
                     rng.choice((3, 30, 55, 70, 90, 150, 400)), 'reset'))
    if thorough:
        # (wall-clock cost = the gap; they run in different shards)
        plan[3:3] = [(340, 5, False, False, 11)]
        plan[20:20] = [(757, 5, False, False, 31)]
    for i, entry in enumerate(plan):
        pv, length, abrupt = entry[:3]
        force_pc = len(entry) > 3 and entry[3]
        gap = entry[4] if len(entry) > 4 else 0
        if not run.mine(i):
            continue
        threshold = rng.choice((None, 0, 64)) if pv != 47 else \
            rng.choice((None, None, None, 64))
        outcome = None
        for attempt in range(3):
            outcome, info = conversation(run, pv, rng, length, threshold,
                                         abrupt, i, force_pc, gap)
            if outcome == 'done':
                break
        run.case((pv, length, threshold, abrupt, i))
        run.seen('versions', pv)
        if outcome != 'done':
            run.inconclusive_because('conversation %d (pv %d): %s'
                                     % (i, pv, info))
        elif info and len(run.samples) < 3:
            run.sample(info)
    # directed: short conversations with a slow outgoing listener (label % 7
    # == 3 selects it)
    for k, pv in enumerate((340, 757, 47, 404)):
        if not run.mine(k):
            continue
        outcome = None
        for attempt in range(3):
            outcome, info = conversation(run, pv, rng, 8, None, False,
                                         3 + 7 * (100 + k))
            if outcome == 'done':
                break
        run.case((pv, 8, None, False, 'slow-outgoing-listener', k))
        if outcome != 'done':
            run.inconclusive_because('slow outgoing listener (pv %d): %s'
                                     % (pv, info))
    # directed: conversations containing frames of the largest legal sizes
    for k, (pv, th) in enumerate(((757, 64), (340, 0), (756, 256), (47, 64),
                                  (755, 64))):
        if not run.mine(k):
            continue
        outcome = None
        for attempt in range(3):
            outcome, info = conversation(run, pv, rng, 6, th, False,
                                         1000 + 5 * k)
            if outcome == 'done':
                break
        run.case((pv, 6, th, False, 'megabyte-frames', k))
        if outcome != 'done':
            run.inconclusive_because('megabyte-frame conversation (pv %d): %s'
                                     % (pv, info))
    for i in range(60 if thorough else 8):
        if not run.mine(i):
            continue
        pv = rng.choice((47, 340, 578, 757))
        for attempt in range(3):
            outcome, info = reset_mid_batch(run, pv, rng, i)
            if outcome == 'done':
                break
        run.case(('reset-mid-batch', i))
        if outcome != 'done':
            run.inconclusive_because('reset-mid-batch %d: %s' % (i, info))
    for i in range(80 if thorough else 8):
        if not run.mine(i):
            continue
        pv = rng.choice((47, 340, 578, 757))
        for attempt in range(3):
            outcome, info = client_leaves_mid_write(run, pv, rng, i)
            if outcome == 'done':
                break
        run.case(('client-leaves', i))
        if outcome != 'done':
            run.inconclusive_because('client-leaves %d: %s' % (i, info))
    for i in range(18 if thorough else 3):
        if not run.mine(i):
            continue
        pv = rng.choice((47, 340, 757))
        for attempt in range(2):
            outcome, info = flood_fairness(run, pv, rng, i)
            if outcome == 'done':
                break
        run.case(('flood', i))
        if outcome != 'done':
            run.inconclusive_because('flood %d: %s' % (i, info))
    # ---- two connection objects at work at the same time ---------------------
    # (different servers, versions, transport settings; same process, same
    # classes): each conversation is judged exactly as when it runs alone
    import random as _random
    import threading as _threading
    for i in range(40 if thorough else 6):
        if not run.mine(i + 2):
            continue
        outcomes = {}

        def one(tag, pv_, th_, seed_):
            r_ = _random.Random(seed_)
            try:
                outcomes[tag] = conversation(run, pv_, r_, r_.choice(
                    (5, 30, 60)), th_, False, 700000 + 2 * i + tag)
            except Exception as e:
                outcomes[tag] = ('inconclusive', repr(e))
        pva, pvb = rng.sample([47, 110, 340, 404, 578, 754, 757], 2)
        ts = [_threading.Thread(target=one, args=(0, pva, rng.choice(
                  (None, 64)), rng.getrandbits(32))),
              _threading.Thread(target=one, args=(1, pvb, rng.choice(
                  (None, 0)), rng.getrandbits(32)))]
        for t in ts:
            t.start()
        for t in ts:
            t.join(90.0)
        run.case(('twin', i, pva, pvb))
        if any(t.is_alive() for t in ts) or any(
                outcomes.get(k, ('x',))[0] != 'done' for k in (0, 1)):
            run.inconclusive_because('twin sessions %d: %r' % (
                i, {k: str(v)[:200] for k, v in outcomes.items()}))
        else:
            run.count('conversations.twin_pairs')
    run.require('conversations.twin_pairs', 2)
    # ---- what ended sessions still hold -------------------------------------
    gc.collect()
    time.sleep(0.1)
    fds1 = len(os.listdir('/proc/self/fd'))
    run.extra['descriptors_before_after'] = (fds0, fds1, len(KEPT))
    run.count('ended_sessions_kept_alive', len(KEPT))
    if fds1 - fds0 > 1:
        run.violation('play/descriptors-left-open', 'Connection objects whose '
                      'sessions have ended (server disconnect, also followed '
                      'by a close or reset) still hold open descriptors',
                      {'descriptors_before': fds0, 'after': fds1,
                       'connection_objects_alive': len(KEPT)})
    for i in range(18 if thorough else 3):
        if not run.mine(i + 4):
            continue
        pv = rng.choice((47, 340, 757))
        for attempt in range(2):
            outcome, info = backlog_fairness(run, pv, rng, i)
            if outcome == 'done':
                break
        run.case(('backlog', i))
        if outcome != 'done':
            run.inconclusive_because('backlog %d: %s' % (i, info))
    run.require('directed.backlog_fairness', 3)
    run.require('directed.flood_fairness', 2)
    run.require('directed.client_leaves_mid_write', 2)
    run.require('directed.reset_mid_batch', 2)
    run.require('frames_of_exactly_threshold_size', 20)
    run.require('conversations', 20)
    run.require('echoes_seen', 50)
    run.require('versions', 30)
    run.require('conversations.play_state_compression', 2)
    if thorough:
        run.require('conversations.with_long_silent_gap', 2)
