"""C19 - auth token state follows the Yggdrasil replies; errors leave it untouched.

The real AuthenticationToken talks real HTTP to a local stand-in whose replies
are scripted per request (status x body shape).  Monitors: the requests the
stand-in received (method, path, content type, JSON payload), the token's
fields before/after each operation, return values and the fields of raised
errors.  Oracle: an endpoint/payload table from the authentication
documentation and a model token updated by the same replies.
"""
import itertools
import json
import os

from ..server import yggdrasil

SHARDS = {'quick': 4, 'thorough': 16}

STATUSES = [200, 204, 400, 401, 403, 404, 429, 500, 503]
# every other client/server error code a proxy or the service may answer with
# (no status has a meaning of its own to the library)
MORE_STATUSES = [402, 405, 406, 408, 409, 410, 411, 413, 415, 418, 422, 423,
                 426, 428, 431, 451, 499, 501, 502, 504, 507, 511, 520, 599]
BODIES = ['valid', 'error', 'error+cause', 'partial-error', 'non-json', 'empty',
          'json-null', 'json-number', 'json-string', 'json-list',
          'error-meta', 'non-json-meta', 'partial-error-meta', 'non-utf8',
          'json-cut-inside-character']
OPS = ['authenticate', 'authenticate-invalidate', 'refresh', 'validate',
       'invalidate', 'join', 'sign_out']
FIELDS = ['username', 'access_token', 'client_token', 'profile_id',
          'profile_name']


def body_for(shape, n):
    if shape == 'valid':
        return json.dumps({
            'accessToken': 'acc-%d' % n, 'clientToken': 'cli-%d' % n,
            'selectedProfile': {'id': 'id%032d' % n, 'name': 'name%d' % n},
            'availableProfiles': []}).encode()
    if shape == 'error':
        return json.dumps({'error': 'ForbiddenOperationException',
                           'errorMessage': 'Invalid credentials. é'}).encode()
    if shape == 'error+cause':
        return json.dumps({'error': 'IllegalArgumentException',
                           'errorMessage': 'Access token already has a '
                           'profile assigned.', 'cause': 'because'}).encode()
    # text that means something to str.format / the % operator
    if shape == 'error-meta':
        return json.dumps({'error': 'Load {0} at 100% %s {x}',
                           'errorMessage': 'try %(later)s {} %d 50%',
                           'cause': '%'}).encode()
    if shape == 'non-json-meta':
        return b'<html><div style="width: 100%">{busy} %s %(x)d</div></html>'
    if shape == 'partial-error-meta':
        return json.dumps({'errorMessage': '100% {full}'}).encode()
    # bodies that are not valid UTF-8 (a Latin-1 page from a proxy; an error
    # object cut in the middle of a multi-byte character)
    if shape == 'non-utf8':
        return b'\xff\xfe<html>acc\xe8s refus\xe9</html>'
    if shape == 'json-cut-inside-character':
        return b'{"error":"X","errorMessage":"caf\xc3'
    if shape == 'partial-error':
        return json.dumps({'error': 'OnlyHalf'}).encode()
    if shape == 'non-json':
        return b'<html>502 Bad Gateway</html>'
    if shape == 'empty':
        return b''
    if shape == 'json-null':
        return b'null'
    if shape == 'json-number':
        return b'5'
    if shape == 'json-string':
        return b'"an error string"'
    if shape == 'json-list':
        return b'["error", "errorMessage"]'
    raise KeyError(shape)


def snapshot(tok):
    return {'username': tok.username, 'access_token': tok.access_token,
            'client_token': tok.client_token, 'profile_id': tok.profile.id_,
            'profile_name': tok.profile.name}


def run(run):
    for k in ('http_proxy', 'https_proxy', 'HTTP_PROXY', 'HTTPS_PROXY',
              'all_proxy', 'ALL_PROXY'):
        os.environ.pop(k, None)
    os.environ['NO_PROXY'] = '127.0.0.1,localhost'
    from minecraft import authentication as A
    from minecraft.exceptions import YggdrasilError
    thorough = run.tier == 'thorough'
    run.level = 'exploration'
    run.rule = ('all 32 initial token states (every subset of the five fields)'
                ' x operation sequences (length <= 6 over authenticate(+-'
                'invalidate), refresh, validate, invalidate, join, sign_out) x'
                ' scripted replies (status in {200,204,400,401,403,404,429,'
                '500,503} x body in {valid result, error object (+cause), '
                'partial error object, non-JSON, empty, JSON null/number/'
                'string/list}); plus the full status x body product per '
                'operation. Distinct = (initial state, operations, replies).')
    run.assumptions = [
        'sign_out on a 204 reply and the exact shape of join\'s '
        'selectedProfile member are reported as observations, not judged',
        'a 200 reply is only ever given a valid result body (what an operation'
        ' does with a malformed success body is outside the statement)']
    rng = run.rng('c19')
    script = {}

    def responder(req):
        return script['status'], script['body'], script.get('headers') or {}
    stub = yggdrasil.Stub(responder)
    stub.install()
    counter = [0]

    class ModAgentToken(A.AuthenticationToken):
        # the agent sent with authenticate() is taken from these (documented
        # class attributes): a program authenticating for another product
        # overrides them
        AGENT_NAME = 'Scrolls'
        AGENT_VERSION = 2
    token_kinds = [0]

    def make_token(present):
        token_kinds[0] += 1
        kind = token_kinds[0] % 4
        cls_ = ModAgentToken if kind == 1 else A.AuthenticationToken
        tok = cls_(
            username='u0' if 'username' in present else None,
            access_token='a0' if 'access_token' in present else None,
            client_token='c0' if 'client_token' in present else None)
        tok.profile = A.Profile(
            id_='p0' if 'profile_id' in present else None,
            name='n0' if 'profile_name' in present else None)
        if kind == 2:
            # (an attribute of the instance overrides the class's as well)
            tok.AGENT_VERSION = 7
        return tok

    def one_op(tok, op, status, shape, w):
        """Perform op under the scripted reply; compare with the model."""
        counter[0] += 1
        n = counter[0]
        if status == 200 and shape != 'valid' and op in (
                'authenticate', 'authenticate-invalidate', 'refresh'):
            shape = 'valid'
        script['status'] = status
        script['body'] = b'' if status == 204 else body_for(shape, n)
        # reply headers a service or a proxy in front of it may add: a
        # Retry-After on the overload statuses (the reply still decides: one
        # request, one outcome), and a declared charset other than UTF-8 for a
        # JSON body (the text is what the declared charset says it is)
        script['headers'] = {}
        script['json_text'] = script['body'].decode('utf-8', 'replace')
        if status in (413, 429, 503) and n % 2 == 0:
            script['headers']['Retry-After'] = ('0', '1')[n % 4 == 0]
            run.count('replies_with_retry_after')
        if status != 204 and shape in ('error', 'error+cause', 'valid') \
                and n % 3 == 0 and not (status == 200 and shape == 'valid'):
            cs = ('ISO-8859-1', 'utf-16', 'windows-1252')[(n // 3) % 3]
            try:
                script['body'] = script['body'].decode('utf-8').encode(
                    cs.replace('windows-1252', 'cp1252'))
                script['headers']['Content-Type'] = \
                    'application/json; charset=%s' % cs
                run.seen('reply_charsets', cs)
            except UnicodeError:
                pass
        before = snapshot(tok)
        reply = {'access_token': 'acc-%d' % n, 'client_token': 'cli-%d' % n,
                 'profile_id': 'id%032d' % n, 'profile_name': 'name%d' % n}
        if shape == 'valid' and status == 200:
            # a success reply may repeat part of what is already stored: the
            # same profile under a new name (the player renamed the account),
            # another profile of the same name, unchanged tokens
            variant = ('all-new', 'same-profile-id-new-name',
                       'same-name-new-profile-id', 'same-tokens')[n % 4]
            if variant == 'same-profile-id-new-name' and before['profile_id']:
                reply['profile_id'] = before['profile_id']
            elif variant == 'same-name-new-profile-id' and \
                    before['profile_name']:
                reply['profile_name'] = before['profile_name']
            elif variant == 'same-tokens' and before['access_token'] and \
                    before['client_token']:
                reply['access_token'] = before['access_token']
                reply['client_token'] = before['client_token']
            else:
                variant = 'all-new'
            run.seen('success_reply_variants', variant)
            script['body'] = json.dumps({
                'accessToken': reply['access_token'],
                'clientToken': reply['client_token'],
                'selectedProfile': {'id': reply['profile_id'],
                                    'name': reply['profile_name']},
                'availableProfiles': []}).encode()
        n_req = len(stub.requests)
        was_auth = all(before[f] for f in FIELDS)
        w = dict(w, op=op, status=status, body=shape, before=before)
        ret, exc = None, None
        try:
            if op == 'authenticate':
                ret = tok.authenticate('user%d' % n, 'pw%d' % n)
            elif op == 'authenticate-invalidate':
                ret = tok.authenticate('user%d' % n, 'pw%d' % n,
                                       invalidate_previous=True)
            elif op == 'refresh':
                ret = tok.refresh()
            elif op == 'validate':
                ret = tok.validate()
            elif op == 'invalidate':
                ret = tok.invalidate()
            elif op == 'join':
                ret = tok.join('serverhash%d' % n)
            else:
                ret = A.AuthenticationToken.sign_out('user%d' % n, 'pw%d' % n)
        except Exception as e:
            exc = e
        after = snapshot(tok)
        reqs = stub.requests[n_req:]
        run.count('operations')
        run.count('op.' + op.split('-')[0])

        def bad(key, what, **extra):
            run.violation(key, what, dict(
                w, after=after, returned=ret, raised=repr(exc),
                requests=[(r['path'], r['json']) for r in reqs], **extra))
        # authenticated predicate (exactly when all five are present)
        if bool(tok.authenticated) != all(after[f] for f in FIELDS):
            bad('authenticated/predicate', 'token.authenticated disagrees '
                'with the presence of username, tokens and complete profile')
        # ---- preconditions that forbid contacting the service ----------
        precondition_fail = (
            (op == 'refresh' and (before['access_token'] is None or
                                  before['client_token'] is None)) or
            (op == 'validate' and before['access_token'] is None) or
            (op == 'join' and not was_auth))
        if precondition_fail:
            run.count('refused_locally')
            if reqs:
                bad('%s/contacted-despite-precondition' % op, 'the service was'
                    ' contacted although the operation must refuse locally')
            if exc is None:
                bad('%s/no-local-refusal' % op, 'operation did not refuse')
            elif op == 'join' and not isinstance(exc, YggdrasilError):
                bad('join/refusal-type', 'join must refuse with a '
                    'YggdrasilError when not authenticated')
            if after != before:
                bad('%s/state-changed-on-refusal' % op, 'token changed')
            return
        # ---- the request ----------------------------------------------------
        endpoint = {'authenticate': '/auth/authenticate',
                    'authenticate-invalidate': '/auth/authenticate',
                    'refresh': '/auth/refresh', 'validate': '/auth/validate',
                    'invalidate': '/auth/invalidate', 'sign_out':
                    '/auth/signout', 'join': '/session/minecraft/join'}[op]
        if len(reqs) != 1:
            bad('%s/request-count' % op, 'expected exactly one HTTP request')
            return
        r = reqs[0]
        j = r['json']
        if r['method'] != 'POST' or r['path'] != endpoint or \
                'application/json' not in r['headers'].get('content-type',
                                                           ''):
            bad('%s/endpoint' % op, 'wrong method, endpoint or content type',
                method=r['method'], path=r['path'])
        ok_payload = isinstance(j, dict)
        if ok_payload:
            if op.startswith('authenticate'):
                ok_payload = j.get('agent') == {
                    'name': tok.AGENT_NAME, 'version': tok.AGENT_VERSION} and \
                    j.get('username') == 'user%d' % n and \
                    j.get('password') == 'pw%d' % n
                if op == 'authenticate':
                    ct = j.get('clientToken')
                    ok_payload = ok_payload and isinstance(ct, str) and ct \
                        and (before['client_token'] is None or
                             ct == before['client_token'])
                else:
                    ok_payload = ok_payload and 'clientToken' not in j
            elif op == 'refresh':
                ok_payload = j.get('accessToken') == before['access_token'] \
                    and j.get('clientToken') == before['client_token']
            elif op == 'validate':
                ok_payload = j.get('accessToken') == before['access_token']
            elif op == 'invalidate':
                ok_payload = j.get('accessToken') == before['access_token'] \
                    and j.get('clientToken') == before['client_token']
            elif op == 'sign_out':
                ok_payload = j == {'username': 'user%d' % n,
                                   'password': 'pw%d' % n}
            else:
                sp = j.get('selectedProfile')
                run.seen('join_selectedProfile_shape', type(sp).__name__)
                sp_ok = sp == before['profile_id'] or (
                    isinstance(sp, dict) and sp.get('id') ==
                    before['profile_id'])
                ok_payload = j.get('accessToken') == before['access_token'] \
                    and j.get('serverId') == 'serverhash%d' % n and sp_ok
        if not ok_payload:
            bad('%s/payload' % op, 'request payload differs from the '
                'documented one')
        # ---- the outcome -------------------------------------------------------
        success_codes = {'authenticate': (200,), 'authenticate-invalidate':
                         (200,), 'refresh': (200,), 'invalidate': (204, 200),
                         'join': (204, 200), 'sign_out': (200,)}
        if op == 'validate':
            if exc is not None:
                bad('validate/raised', 'validate must not raise on a reply')
            elif bool(ret) != (status == 204):
                bad('validate/result', 'validate must be true only for 204')
            if after != before:
                bad('validate/state-changed', 'validate altered the token')
            return
        if op == 'sign_out' and status == 204:
            run.seen('sign_out_204_outcome', 'raised' if exc else 'returned')
            return
        if status in success_codes[op]:
            run.count('successes')
            if exc is not None or ret is not True:
                bad('%s/success' % op, 'operation must return True on success')
                return
            if op in ('authenticate', 'authenticate-invalidate', 'refresh'):
                want = dict(reply, username='user%d' % n if op != 'refresh'
                            else before['username'])
                if after != want:
                    bad('%s/stored' % op, 'stored credentials are not exactly '
                        'the returned ones', expected=want)
            elif after != before:
                bad('%s/state-changed' % op, 'token changed')
            return
        # error reply
        run.count('error_replies')
        run.seen('error_shapes', '%d/%s' % (status, shape))
        if after != before:
            bad('%s/credentials-altered-on-error' % op, 'a failed operation '
                'altered the stored credentials')
        if not isinstance(exc, YggdrasilError):
            key_shape = shape if shape.startswith('json-') else \
                'format-metacharacters' if shape.endswith('-meta') else 'other'
            bad('error/not-yggdrasil-error/%s' % key_shape, 'an HTTP error '
                'reply must raise YggdrasilError')
            return
        if exc.status_code != status:
            bad('error/status-code', 'error does not carry the status code')
        effective = 'empty' if status == 204 else shape
        if effective in ('error', 'error+cause', 'error-meta'):
            body = json.loads(script['json_text'])
            if exc.yggdrasil_error != body['error'] or \
                    exc.yggdrasil_message != body['errorMessage'] or \
                    exc.yggdrasil_cause != body.get('cause') or \
                    str(status) not in str(exc) or \
                    body['error'] not in str(exc):
                bad('error/fields', 'error does not carry the service\'s error'
                    ' fields', fields=(exc.yggdrasil_error,
                                       exc.yggdrasil_message,
                                       exc.yggdrasil_cause), text=str(exc))
        else:
            if 'alformed' not in str(exc) or exc.yggdrasil_error is not None:
                bad('error/malformed-message', 'a body that is not an error '
                    'object must give the "malformed" message',
                    text=str(exc))

    try:
        # ---- full status x body product per operation ------------------------
        k = 0
        for op in OPS:
            for status in STATUSES + MORE_STATUSES:
                for shape in BODIES:
                    k += 1
                    if not run.mine(k):
                        continue
                    if status == 200 and shape != 'valid':
                        continue
                    if status != 200 and shape == 'valid':
                        continue
                    tok = make_token(FIELDS)
                    run.case(('product', op, status, shape))
                    one_op(tok, op, status, shape, {'phase': 'product'})
        # ---- sequences over all initial states ----------------------------------
        subsets = [frozenset(c) for r in range(6)
                   for c in itertools.combinations(FIELDS, r)]
        n_seq = 150 if thorough else 5
        k = 0
        for present in subsets:
            for rep in range(n_seq):
                k += 1
                if not run.mine(k):
                    continue
                tok = make_token(present)
                ops = [rng.choice(OPS) for _ in range(rng.randrange(1, 7))]
                hist = []
                for op in ops:
                    status = rng.choice(STATUSES + [200, 200, 204])
                    shape = 'valid' if status == 200 else rng.choice(
                        BODIES[1:])
                    hist.append((op, status, shape))
                    one_op(tok, op, status, shape,
                           {'phase': 'sequence', 'initial': sorted(present),
                            'history': hist[-4:]})
                run.case(('seq', tuple(sorted(present)), tuple(hist)))
                if len(run.samples) < 3 and rep == 0 and len(present) == 5:
                    run.sample({'initial': sorted(present), 'history': hist})
        # the error type's own constructor (documented: initial values of
        # the attributes of the same names)
        if run.shard == 0:
            e = YggdrasilError('msg', 418, 'Err', 'Msg', 'Cause')
            run.count('error_constructor_probes')
            if (str(e), e.status_code, e.yggdrasil_error, e.yggdrasil_message,
                    e.yggdrasil_cause) != ('msg', 418, 'Err', 'Msg', 'Cause') \
                    or YggdrasilError().status_code is not None:
                run.violation('error/constructor', 'YggdrasilError does not '
                              'keep the values it is constructed with', {
                                  'got': (str(e), e.status_code,
                                          e.yggdrasil_error,
                                          e.yggdrasil_message,
                                          e.yggdrasil_cause)})
        # a token whose profile attribute holds nothing at all
        if run.shard == 0:
            for present in (FIELDS, ('username', 'access_token',
                                     'client_token')):
                tok = make_token(present)
                tok.profile = None
                n_req = len(stub.requests)
                run.count('tokens_without_a_profile_object')
                try:
                    auth = bool(tok.authenticated)
                except Exception as e:
                    auth = repr(e)
                try:
                    tok.join('serverhash')
                    jr = 'returned'
                except YggdrasilError:
                    jr = 'refused'
                except Exception as e:
                    jr = repr(e)
                if auth is not False or jr != 'refused' or \
                        len(stub.requests) != n_req:
                    run.violation('authenticated/no-profile-object',
                                  'with token.profile = None the token must '
                                  'report not authenticated and join must '
                                  'refuse (YggdrasilError) without contacting '
                                  'the service', {
                                      'authenticated': auth, 'join': jr,
                                      'requests': len(stub.requests) - n_req})
        # predicate over all 32 states (no I/O)
        if run.shard == 0:
            for present in subsets:
                tok = make_token(present)
                run.case(('pred', tuple(sorted(present))))
                if bool(tok.authenticated) != (len(present) == 5):
                    run.violation('authenticated/predicate', 'wrong for a '
                                  'field subset', {'present': sorted(present)})
    finally:
        stub.uninstall()
        stub.stop()
    run.require('operations', 300)
    run.require('error_replies', 100)
    run.require('successes', 30)
    run.require('success_reply_variants', 4)
    run.require('refused_locally', 10)
