"""C08 - protocol versions are totally ordered by publication; derived tables agree.

The real comparison functions / ConnectionContext predicates are called on all
pairs (and many triples) of known protocol numbers and compared with an
independent recomputation from the record list (plain list scans); the derived
tables are compared with order-preserving duplicate-free projections; then the
record list is extended at run time (generated histories), the tables rebuilt,
and the whole battery repeated.
"""
import re

SHARDS = {'quick': 4, 'thorough': 16}


def first_occurrence_order(records):
    order = []
    for r in records:
        if r.protocol not in order:
            order.append(r.protocol)
    return order


VETERANS = {}


def battery(run, minecraft, C, utility, tag, pair_stride=1, rng=None,
            n_triples=0):
    """All table and order checks against the current record list."""
    records = list(minecraft.KNOWN_MINECRAFT_VERSION_RECORDS)
    order = first_occurrence_order(records)
    pos = {p: i for i, p in enumerate(order)}
    PRE = 1 << 30

    def tv(key, what, w):
        run.violation('%s%s' % (key, '' if tag == 'static' else '@extended'),
                      what, dict(w, phase=tag))

    # ---- derived tables = projections -----------------------------------
    exp_known = {}
    for r in records:
        exp_known[r.id] = r.protocol          # dict keeps first-insert order
    exp_supported = {}
    for r in records:
        if r.supported:
            exp_supported[r.id] = r.protocol
        # an id listed again keeps its first position but later value; ids are
        # unique in generated histories so this does not arise
    exp_release = {i: p for i, p in exp_supported.items()
                   if re.fullmatch(r'[0-9]+(\.[0-9]+)+', i)}

    def dedup(seq):
        out = []
        for x in seq:
            if x not in out:
                out.append(x)
        return out
    checks = [
        ('KNOWN_MINECRAFT_VERSIONS', list(minecraft.KNOWN_MINECRAFT_VERSIONS
                                          .items()), list(exp_known.items())),
        ('SUPPORTED_MINECRAFT_VERSIONS',
         list(minecraft.SUPPORTED_MINECRAFT_VERSIONS.items()),
         list(exp_supported.items())),
        ('RELEASE_MINECRAFT_VERSIONS',
         list(minecraft.RELEASE_MINECRAFT_VERSIONS.items()),
         list(exp_release.items())),
        ('KNOWN_PROTOCOL_VERSIONS', list(minecraft.KNOWN_PROTOCOL_VERSIONS),
         order),
        ('SUPPORTED_PROTOCOL_VERSIONS',
         list(minecraft.SUPPORTED_PROTOCOL_VERSIONS),
         dedup(exp_supported.values())),
        ('RELEASE_PROTOCOL_VERSIONS',
         list(minecraft.RELEASE_PROTOCOL_VERSIONS),
         dedup(exp_release.values())),
        ('PROTOCOL_VERSION_INDICES',
         sorted(minecraft.PROTOCOL_VERSION_INDICES.items()),
         sorted(pos.items())),
    ]
    for name, got, exp in checks:
        run.count('table_comparisons')
        if got != exp:
            diff = [(i, g, e) for i, (g, e) in enumerate(zip(got, exp))
                    if g != e][:3]
            tv('table/' + name, 'derived table is not the order-preserving '
               'duplicate-free projection of the records',
               {'len_got': len(got), 'len_expected': len(exp),
                'first_differences': diff})

    # ---- context objects that were in use before the tables changed ----------
    # (a Connection's context lives as long as the connection object)
    if not VETERANS:
        for p in order:
            c = C.ConnectionContext(protocol_version=p)
            c.protocol_later_eq(order[len(order) // 2])     # it has been used
            c.protocol_in_range(order[0], order[-1])
            VETERANS[p] = c
    elif tag != 'static':
        vet = 0
        for p, c in VETERANS.items():
            if p not in pos or not run.mine(pos[p]):
                continue
            for q in (order[max(0, pos[p] - 1)], p,
                      order[min(len(order) - 1, pos[p] + 1)],
                      order[(pos[p] * 7) % len(order)]):
                e, eq = pos[p] < pos[q], p == q
                try:
                    got = (c.protocol_earlier(q), c.protocol_earlier_eq(q),
                           c.protocol_later(q), c.protocol_later_eq(q),
                           c.protocol_in_range(q, order[-1]))
                except Exception as ex:
                    got = repr(ex)
                vet += 1
                exp = (e, e or eq, (not e) and not eq, not e,
                       pos[q] <= pos[p] < pos[order[-1]])
                if got != exp:
                    tv('order/context-in-use-before-rebuild', 'a context '
                       'object that had been used before the tables were '
                       'rebuilt disagrees with the rebuilt order',
                       {'context': p, 'other': q, 'got': got,
                        'expected': exp})
                    break
            else:
                continue
            break
        run.count('veteran_context_comparisons', vet)

    # ---- pairs -------------------------------------------------------------
    ctxs = {p: C.ConnectionContext(protocol_version=p) for p in order}
    n = len(order)
    pairs = 0
    for ia in range(n):
        if not run.mine(ia):
            continue
        a = order[ia]
        ca = ctxs[a]
        for ib in range(0, n, pair_stride):
            b = order[ib]
            e = ia < ib
            eq = ia == ib
            try:
                got = (utility.protocol_earlier(a, b),
                       utility.protocol_earlier_eq(a, b),
                       ca.protocol_earlier(b), ca.protocol_earlier_eq(b),
                       ca.protocol_later(b), ca.protocol_later_eq(b))
            except Exception as e:
                tv('order/raised', 'comparing two known protocol versions '
                   'raised', {'a': a, 'b': b, 'error': repr(e)})
                return order
            exp = (e, e or eq, e, e or eq, (not e) and not eq, not e)
            pairs += 1
            if got != exp:
                tv('order/pair', 'comparison predicates disagree with '
                   'chronological position', {'a': a, 'b': b, 'got': got,
                                              'expected': exp})
                break
            # numeric order for ordinary numbers
            # (a property of the shipped records; generated histories may
            # legitimately insert a number out of numeric order)
            if tag == 'static' and not (a & PRE) and not (b & PRE) \
                    and (a < b) != e and a != b:
                tv('order/numeric', 'ordinary protocol numbers are not in '
                   'numeric order', {'a': a, 'b': b})
                break
    run.bulk(pairs, pairs)
    run.count('pairs_checked', pairs)

    # ---- in_range and transitivity on triples --------------------------------
    if rng is not None:
        boundary = [i for i, p in enumerate(order) if p & PRE]
        boundary = sorted(set(j for i in boundary for j in (i - 1, i, i + 1)
                              if 0 <= j < n))[:70]
        triples = 0
        sample = []
        if tag == 'static':
            for i in boundary:
                if not run.mine(i):
                    continue
                for j in boundary:
                    for k in boundary:
                        sample.append((i, j, k))
        for _ in range(n_triples):
            sample.append((rng.randrange(n), rng.randrange(n),
                           rng.randrange(n)))
        for (i, j, k) in sample:
            a, b, c = order[i], order[j], order[k]
            triples += 1
            try:
                got = ctxs[a].protocol_in_range(b, c)
            except Exception as e:
                tv('order/raised', 'protocol_in_range raised',
                   {'self': a, 'start': b, 'end': c, 'error': repr(e)})
                break
            if got != (j <= i < k):
                tv('order/in_range', 'protocol_in_range disagrees',
                   {'self': a, 'start': b, 'end': c, 'got': got})
                break
            if utility.protocol_earlier(a, b) and \
                    utility.protocol_earlier(b, c) and \
                    not utility.protocol_earlier(a, c):
                tv('order/transitivity', 'earlier is not transitive',
                   {'a': a, 'b': b, 'c': c})
                break
        run.bulk(triples, triples)
        run.count('triples_checked', triples)
    return order


def run(run):
    import minecraft
    from minecraft import utility
    from minecraft.networking import connection as C
    thorough = run.tier == 'thorough'
    run.level = 'exploration'
    run.exhaustive = True
    run.extra['exhaustive_part'] = 'all ordered pairs of known protocol ' \
        'numbers with all six predicates'
    n0 = len(minecraft.KNOWN_PROTOCOL_VERSIONS)
    run.rule = ('all %d^2 ordered pairs of known protocol numbers x 6 '
                'predicates (exhaustive); all triples over the PRE-flagged '
                'versions and their neighbours plus seeded random triples for '
                'in_range/transitivity; 7 derived tables vs. projections; '
                'idempotence of initglobals; generated histories of run-time '
                'record extensions (append/insert; fresh, duplicate and PRE-'
                'flagged numbers; release- and snapshot-shaped ids; supported '
                'or not), each followed by one or two re-initialisations and '
                'the whole battery again.' % n0)
    run.assumptions = ['chronological order is the order of KNOWN_MINECRAFT_'
                       'VERSION_RECORDS (first occurrence of a number)']
    rng = run.rng('c08')
    battery(run, minecraft, C, utility, 'static', rng=rng,
            n_triples=300000 if thorough else 20000)

    # idempotence
    def snapshot():
        return (list(minecraft.KNOWN_MINECRAFT_VERSIONS.items()),
                list(minecraft.SUPPORTED_MINECRAFT_VERSIONS.items()),
                list(minecraft.RELEASE_MINECRAFT_VERSIONS.items()),
                list(minecraft.KNOWN_PROTOCOL_VERSIONS),
                list(minecraft.SUPPORTED_PROTOCOL_VERSIONS),
                list(minecraft.RELEASE_PROTOCOL_VERSIONS),
                dict(minecraft.PROTOCOL_VERSION_INDICES))
    ids_before = [id(getattr(minecraft, n)) for n in (
        'KNOWN_MINECRAFT_VERSIONS', 'SUPPORTED_MINECRAFT_VERSIONS',
        'RELEASE_MINECRAFT_VERSIONS', 'KNOWN_PROTOCOL_VERSIONS',
        'SUPPORTED_PROTOCOL_VERSIONS', 'RELEASE_PROTOCOL_VERSIONS',
        'PROTOCOL_VERSION_INDICES')]
    s0 = snapshot()
    for mode in (True, False, True):
        minecraft.initglobals(use_known_records=mode)
        run.count('reinitialisations')
        if snapshot() != s0:
            run.violation('initglobals/idempotence', 're-initialising changed '
                          'the tables', {'use_known_records': mode})
    ids_after = [id(getattr(minecraft, n)) for n in (
        'KNOWN_MINECRAFT_VERSIONS', 'SUPPORTED_MINECRAFT_VERSIONS',
        'RELEASE_MINECRAFT_VERSIONS', 'KNOWN_PROTOCOL_VERSIONS',
        'SUPPORTED_PROTOCOL_VERSIONS', 'RELEASE_PROTOCOL_VERSIONS',
        'PROTOCOL_VERSION_INDICES')]
    if ids_before != ids_after:
        run.violation('initglobals/rebinding', 'tables were re-bound instead '
                      'of updated by reference (importers keep stale copies)',
                      {})

    # ---- the legacy way: derived tables edited directly --------------------
    # initglobals() without arguments takes SUPPORTED_MINECRAFT_VERSIONS as the
    # source (documented, for backward compatibility); a later rebuild from the
    # unchanged records must wipe every trace of such edits.
    for variant in range(4):
        new_pv = 900 + variant
        minecraft.SUPPORTED_MINECRAFT_VERSIONS['9.%d' % variant] = new_pv
        if variant % 2:
            minecraft.PROTOCOL_VERSION_INDICES[new_pv] = max(
                minecraft.PROTOCOL_VERSION_INDICES.values()) + 1
            minecraft.KNOWN_PROTOCOL_VERSIONS.append(new_pv)
        if variant >= 2:
            del minecraft.SUPPORTED_MINECRAFT_VERSIONS['1.8']
        minecraft.initglobals()
        run.count('legacy_table_edits')
        if new_pv not in minecraft.SUPPORTED_PROTOCOL_VERSIONS or \
                new_pv not in minecraft.RELEASE_PROTOCOL_VERSIONS:
            run.violation('initglobals/legacy-edit-ignored', 'a version added '
                          'to SUPPORTED_MINECRAFT_VERSIONS followed by '
                          'initglobals() is not among the supported protocols',
                          {'variant': variant})
        for _ in range(1 + variant % 2):
            minecraft.initglobals(use_known_records=True)
        if snapshot() != s0:
            now = snapshot()
            run.violation('initglobals/rebuild-after-table-edit', 'rebuilding '
                          'from the unchanged records after the derived tables'
                          ' were edited directly did not restore them',
                          {'variant': variant, 'tables_differing': [
                              i for i in range(len(s0)) if now[i] != s0[i]]})
            minecraft.KNOWN_MINECRAFT_VERSION_RECORDS.append(
                minecraft.Version('0.0.tmp', 1, False))
            minecraft.initglobals(use_known_records=True)
            minecraft.KNOWN_MINECRAFT_VERSION_RECORDS.pop()
            minecraft.initglobals(use_known_records=True)
            break

    # ---- histories of run-time extensions ----------------------------------
    import collections

    class RicherVersion(minecraft.Version):
        __slots__ = ()

        @property
        def is_snapshot(self):
            return 'w' in self.id
    WiderVersion = collections.namedtuple(
        'WiderVersion', tuple(minecraft.Version._fields) + ('released',))

    class PlainRecord(object):
        def __init__(self, id, protocol, supported):
            self.id, self.protocol, self.supported = id, protocol, supported
    original = list(minecraft.KNOWN_MINECRAFT_VERSION_RECORDS)
    n_hist = 300 if thorough else 24
    fresh_counter = [0]
    for h in range(n_hist):
        if not run.mine(h):
            continue
        hist = []
        records = minecraft.KNOWN_MINECRAFT_VERSION_RECORDS
        for step in range(rng.randrange(1, 7)):
            fresh_counter[0] += 1
            kind = rng.choice(('fresh', 'fresh', 'dup', 'pre', 'pre-dup',
                               'dup-release'))
            existing = [r.protocol for r in records]
            forced_shape = None
            if kind == 'dup-release':
                # a further release-style name for the number of an *older*
                # release (a late patch release that kept the protocol)
                rel = list(minecraft.RELEASE_PROTOCOL_VERSIONS)
                proto = rng.choice(rel[:-1])
                forced_shape = 'release'
                run.count('extensions.second_name_for_an_older_release')
            elif kind == 'fresh':
                proto = max(p for p in existing if not p & (1 << 30)) + \
                    rng.randrange(1, 5)
            elif kind == 'dup':
                proto = rng.choice(existing)
            elif kind == 'pre':
                proto = (1 << 30) | (200 + fresh_counter[0] + h * 10)
            else:
                pres = [p for p in existing if p & (1 << 30)]
                proto = rng.choice(pres)
            shape = forced_shape or rng.choice(('release', 'snapshot', 'pre',
                                                'rc'))
            if shape == 'release' and rng.random() < 0.4:
                # release names are digits and dots: also with a first
                # component of several digits, or two components only
                vid_release = rng.choice(('26.%d' % fresh_counter[0],
                                          '10.0.%d' % fresh_counter[0],
                                          '100.%d.%d' % (h, fresh_counter[0])))
                run.count('extensions.release_names_with_long_first_part')
            else:
                vid_release = '9.%d.%d' % (h, fresh_counter[0])
            vid = {'release': vid_release,
                   'snapshot': '9%dw%02dz%d' % (h % 10, step, fresh_counter[0]),
                   'pre': '9.%d.%d-pre1' % (h, fresh_counter[0]),
                   'rc': '9.%d-rc%d' % (h, fresh_counter[0])}[shape]
            flag = rng.random() < 0.6 or forced_shape is not None
            if rng.random() < 0.3:
                # the flag is used as a truth value: a record may carry any
                # truthy / falsy object there
                flag = rng.choice((1, 'yes', 2.0, [0])) if flag else \
                    rng.choice((0, '', None, 0.0))
                run.count('extensions.supported_flag_not_a_bool')
            rec = minecraft.Version(vid, proto, flag)
            # a record is what has the attributes id, protocol, supported: a
            # program may use a richer record type of its own
            kind_ = rng.choice(('Version', 'Version', 'subclass', 'wider',
                                'object'))
            if kind_ == 'subclass':
                rec = RicherVersion(*rec)
            elif kind_ == 'wider':
                rec = WiderVersion(rec.id, rec.protocol, rec.supported, 2026)
            elif kind_ == 'object':
                rec = PlainRecord(rec.id, rec.protocol, rec.supported)
            run.seen('record_kinds', kind_)
            where = rng.choice(('append', 'append', 'insert'))
            if where == 'append' or kind == 'fresh':
                records.append(rec)
            else:
                records.insert(rng.randrange(len(records) + 1), rec)
            hist.append((where, vid, proto, repr(rec.supported)))
        try:
            for _ in range(rng.choice((1, 2))):
                minecraft.initglobals(use_known_records=True)
        except Exception as e:
            run.violation('initglobals/raised-on-extension', 'rebuilding the '
                          'tables after a run-time extension of the records '
                          'raised', {'history': hist, 'error': repr(e),
                                     'record_types': sorted({
                                         type(r).__name__ for r in records})})
            records[:] = original
            minecraft.initglobals(use_known_records=True)
            break
        run.case(('history', tuple(hist)))
        run.count('histories')
        if h < 2:
            run.sample({'history': hist})
        battery(run, minecraft, C, utility, 'extended',
                pair_stride=7 if not thorough else 3, rng=rng, n_triples=2000)
        # new protocol numbers must be constructible into a context and compare
        for (_w, vid, proto, sup) in hist:
            ctx = C.ConnectionContext(protocol_version=proto)
            try:
                # (reflexive facts only: a generated history may insert the
                # new version anywhere, even before protocol 0)
                wrong = not ctx.protocol_later_eq(proto) or \
                    not ctx.protocol_earlier_eq(proto) or \
                    ctx.protocol_earlier(proto) or ctx.protocol_later(proto)
            except Exception:
                wrong = True
            if wrong:
                run.violation('order/extended-basic', 'a run-time added '
                              'version does not compare correctly',
                              {'proto': proto})
        records[:] = original
        minecraft.initglobals(use_known_records=True)
        if snapshot() != s0:
            run.violation('initglobals/restore', 'restoring the record list '
                          'and re-initialising did not restore the tables', {})
            break
    if run.shard == 0:
        run.sample({'pair': [754, (1 << 30) | 5],
                    'earlier': utility.protocol_earlier(754, (1 << 30) | 5)})
    run.require('pairs_checked', 30000)
    run.require('histories', 10)
    run.require('legacy_table_edits', 4)
    run.require('veteran_context_comparisons', 100)
    run.require('extensions.second_name_for_an_older_release', 2)
    run.require('table_comparisons', 50)
