"""Helper for C04: in a fresh interpreter, imports the networking types first
and only then registers new versions at run time (the documented way: append
records, `initglobals(use_known_records=True)`), and prints as JSON the layout
the position codec uses on them.  A new version later than 1.14 in the version
list must use the x/z/y layout, one inserted before it the x/y/z layout."""
import io
import json
import sys

from .. import core


def main():
    minecraft = core.load_repo()
    from minecraft.networking.connection import ConnectionContext
    from minecraft.networking.types import Position
    from minecraft.networking.packets import PacketBuffer
    # the codec has been used before the table changes
    warm = PacketBuffer()
    Position.send_with_context((1, 2, 3), warm,
                               ConnectionContext(protocol_version=757))
    Position.send_with_context((1, 2, 3), warm,
                               ConnectionContext(protocol_version=47))
    recs = minecraft.KNOWN_MINECRAFT_VERSION_RECORDS
    V = minecraft.Version
    recs.append(V('1.18.2-vf', 758, True))                 # newest
    idx = next(i for i, r in enumerate(recs) if r.id == '1.14')
    recs.insert(idx - 40, V('vf-old-snapshot', 10001, True))  # well before 1.14
    recs.insert(idx + 40, V('vf-new-snapshot', 10002, True))  # well after it
    minecraft.initglobals(use_known_records=True)
    out = {}
    for pv in (758, 10001, 10002, 47, 757, 404, 477):
        ctx = ConnectionContext(protocol_version=pv)
        buf = PacketBuffer()
        try:
            Position.send_with_context((1, 2, 3), buf, ctx)
            enc = buf.get_writable().hex()
            back = tuple(Position.read_with_context(io.BytesIO(
                bytes.fromhex(enc)), ctx))
        except Exception as e:
            enc, back = 'raised %r' % e, None
        out[str(pv)] = {'encoded': enc, 'back': back,
                        'index': minecraft.PROTOCOL_VERSION_INDICES.get(pv),
                        'index_443': minecraft.PROTOCOL_VERSION_INDICES.get(
                            443)}
    json.dump(out, sys.stdout)


if __name__ == '__main__':
    main()
