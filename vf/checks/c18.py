"""C18 - encrypted channel is AES-128-CFB8 keyed by the secret; secrets reach the
server.

The real cipher factory and socket/file wrappers are driven with generated
plaintext streams under arbitrary partitions of send/recv/read calls; a
recording transport captures the ciphertext, which must equal an independent
CFB8 (shift register over single-block AES; pure-Python AES cross-check).  The
RSA hand-over is decided by *raw* RSA (pow(c, d, n)) and a hand-written
PKCS#1 v1.5 type-2 unpadding, i.e. without the library's padding code.
"""
from ..ref import cfb8

SHARDS = {'quick': 4, 'thorough': 16}


class RecSocket(object):
    def __init__(self, incoming=b'', rng=None):
        self.sent = []
        self.incoming, self.pos, self.rng = incoming, 0, rng

    def send(self, data):
        self.sent.append(bytes(data))

    def recv(self, n):
        if n <= 0:
            return b''
        k = n if self.rng is None else self.rng.randrange(1, n + 1)
        out = self.incoming[self.pos:self.pos + k]
        self.pos += len(out)
        return out

    read = recv

    def fileno(self):
        return 99

    def close(self):
        pass


def partitions(rng, total, mode):
    out, left = [], total
    while left > 0:
        k = 1 if mode == 'bytewise' else left if mode == 'whole' else \
            rng.choice((1, 2, 3, 15, 16, 17, 31, 32, 33, 100, 1000))
        k = min(k, left)
        out.append(k)
        left -= k
    return out


def pkcs1_v15_unpad(em):
    """EM = 00 02 PS(>=8 nonzero) 00 M"""
    if len(em) < 11 or em[0] != 0 or em[1] != 2:
        return None
    try:
        sep = em.index(0, 2)
    except ValueError:
        return None
    if sep < 10:
        return None
    return em[sep + 1:]


def login_histories(run, rng, thorough):
    """End to end: several logins on ONE Connection object against the
    independent server (own RSA key, own CFB8); some get through the
    encryption exchange and then fail.  Every login must use a fresh 16-byte
    secret, recovered here with the private key, and the encrypted session that
    follows must work."""
    from ..probes import client as pc
    from ..server import mcserver, scripts
    from ..server.codec import codec_for
    histories = [('accept', 'accept'), ('reject', 'accept'),
                 ('drop', 'accept'), ('reject', 'drop', 'accept'),
                 ('accept', 'reject', 'accept'), ('drop', 'drop', 'accept')]
    if thorough:
        histories += [tuple(rng.choice(('accept', 'reject', 'drop'))
                            for _ in range(rng.randrange(2, 6))) + ('accept',)
                      for _ in range(30)]
    for hi, hist in enumerate(histories):
        if not run.mine(hi):
            continue
        pv = rng.choice((757, 404, 340, 47))
        codec = codec_for(pv)
        secrets = []
        alive = []
        import threading
        # (a) a slow listener on the encryption request: the server's first
        #     encrypted bytes are then already waiting when the client reads on
        # (b) a consumer that takes part of the incoming stream through
        #     connection.socket.recv and leaves the rest to the file object
        slow_listener = hi % 2 == 0
        mixed_consumer = hi % 3 != 1
        sent_encrypted = threading.Event()
        raw_blobs = {}
        raw_got = {}

        def handler(io):
            step = hist[io.index] if io.index < len(hist) else 'accept'
            scripts.read_handshake(io)
            io.recv_frame()
            obs = scripts.encryption_exchange(
                io, codec, server_id='-', token=bytes(
                    rng.getrandbits(8) for _ in range(4)),
                plugin_request_first=(40 + io.index) if pv >= 385 and
                hi % 2 == 1 else None)
            if obs.get('plugin_answers'):
                run.count('e2e.plugin_request_with_encryption_request')
            secrets.append(obs['secret'])
            if step == 'drop':
                return
            if step == 'reject':
                did, dp = codec.encode('login_disconnect',
                                       {'reason': '{"text":"no"}'})
                io.send_frame(did, dp)
                io.half_close()
                io.drain(5.0)
                return
            scripts.send_login_success(io, pv, codec)
            sent_encrypted.set()
            kid, kp = codec.encode('cb_keep_alive', {'id': 99})
            io.send_frame(kid, kp)
            want = [99]
            if mixed_consumer:
                blob = bytes(rng.getrandbits(8) for _ in range(
                    rng.choice((1, 15, 16, 17, 48, 300))))
                raw_blobs[io.index] = blob
                io.send_raw(blob)             # (encrypted like everything)
                kid, kp = codec.encode('cb_keep_alive', {'id': 100})
                io.send_frame(kid, kp)
                want.append(100)
            ok = True
            for v in want:
                fr = io.recv_frame(6.0)
                if fr is None:
                    ok = False
                    break
                nm, vals = codec.decode('play', fr[0], fr[1])
                ok = ok and nm == 'sb_keep_alive' and vals['id'] == v
            alive.append(ok)
            did, dp = codec.encode('play_disconnect', {'reason': '"bye"'})
            io.send_frame(did, dp)
            io.half_close()
            io.drain(5.0)
        server = mcserver.Server(handler)
        rec = pc.Recorder()
        conn = None
        w = {'history': hist, 'pv': pv}
        try:
            conn = pc.make_connection(server.port, rec, early_listener=False,
                                      allowed_versions={pv})
            from minecraft.networking.packets import clientbound as _cb
            if hi % 3 == 0:
                # an ordinary (late) outgoing listener that raises IgnorePacket
                # for the encryption response: the packet is on the wire by
                # then, the session must carry on encrypted
                from minecraft.exceptions import IgnorePacket as _Ign
                from minecraft.networking.packets import serverbound as _sbl

                def late_ignore(packet):
                    raise _Ign
                conn.register_packet_listener(
                    late_ignore, _sbl.login.EncryptionResponsePacket,
                    outgoing=True)
                run.count('e2e.late_ignore_on_encryption_response')
            if slow_listener:
                def dawdle(packet):
                    import time
                    sent_encrypted.wait(3.0)
                    time.sleep(0.02)
                conn.register_packet_listener(
                    dawdle, _cb.login.EncryptionRequestPacket)
            if mixed_consumer:
                def take_raw(packet):
                    if packet.keep_alive_id != 99:
                        return
                    idx = len(server.connections) - 1
                    # wait for the blob length (the server picks it)
                    pc.wait_for(lambda: idx in raw_blobs, 3.0)
                    n = len(raw_blobs.get(idx, b''))
                    got = b''
                    while len(got) < n:
                        chunk = conn.socket.recv(n - len(got))
                        if not chunk:
                            break
                        got += chunk
                    raw_got[idx] = got
                conn.register_packet_listener(take_raw,
                                              _cb.play.KeepAlivePacket)
            bad_wait = False
            for step in hist:
                conn.connect()
                if not pc.wait_idle(conn, 20.0):
                    bad_wait = True
                    break
            server.join(10.0)
            if bad_wait or [e for e in server.errors if e[1] == 'script']:
                run.inconclusive_because('login history %r: %r' % (
                    hist, server.errors[:1]))
                continue
            run.case(('login-history', hist, pv))
            run.count('login_histories')
            run.count('secrets_recovered_by_key_holder', len(secrets))
            frame_errs = [e for e in server.errors if e[1] == 'frame']
            if frame_errs:
                run.violation('e2e/unreadable', 'client bytes of an encrypted '
                              'login do not parse/decrypt at the key holder',
                              dict(w, error=frame_errs[0][2]))
            if len(secrets) != len(hist) or any(len(x) != 16
                                                for x in secrets):
                run.violation('e2e/secret-length', 'a login did not hand over '
                              'a 16-byte secret', dict(
                                  w, lengths=[len(x) for x in secrets]))
            elif len(set(secrets)) != len(secrets):
                run.violation('e2e/secret-reused', 'two logins of the same '
                              'Connection object used the same shared secret',
                              dict(w, secrets=[x.hex() for x in secrets]))
            run.count('e2e.slow_encryption_request_listener',
                      int(slow_listener))
            if mixed_consumer:
                run.count('e2e.mixed_recv_read_sessions', len(raw_got))
                wrong = [i for i in raw_blobs
                         if raw_got.get(i) != raw_blobs[i]]
                if wrong:
                    i = wrong[0]
                    got = raw_got.get(i, b'')
                    first = next((k for k, (a, b) in enumerate(
                        zip(got, raw_blobs[i])) if a != b),
                        min(len(got), len(raw_blobs[i])))
                    run.violation('e2e/mixed-recv-read', 'bytes of the '
                                  'incoming stream taken through connection.'
                                  'socket.recv (the rest through the file '
                                  'object) do not decrypt to what was sent',
                                  dict(w, n=len(raw_blobs[i]),
                                       n_got=len(got), first_wrong_byte=first))
            if alive != [True] * hist.count('accept'):
                run.violation('e2e/session-broken', 'an accepted encrypted '
                              'login did not yield a working session',
                              dict(w, alive=alive))
        finally:
            server.stop()
            if conn is not None:
                pc.safe_disconnect(conn)


def response_not_sent_case(run, rng, idx):
    """Fault injection at the one send() that carries the encryption response
    (recognised by LoginReactor.react on the call stack): it fails with a
    broken pipe - the server has given up meanwhile and sent a plain-text
    login disconnect.  The secret never reached the server, so the cipher
    must not be in force afterwards: whatever the client reports, it has not
    pushed the server's plain text through a decryptor."""
    import sys
    from minecraft.networking import encryption
    from ..probes import client as pc
    from ..server import mcserver, scripts
    from ..server.codec import codec_for
    pv = (757, 404, 340, 47)[idx % 4]
    codec = codec_for(pv)
    state = {}

    def handler(io):
        hs = scripts.read_handshake(io)
        if hs is None:
            return
        io.recv_frame()                          # login start
        key, der = scripts.server_key()
        rid, rp = codec.encode('encryption_request', {
            'server_id': '-', 'public_key': der, 'verify_token': b'tokn'})
        did, dp = codec.encode('login_disconnect',
                               {'reason': '{"text":"Server is full"}'})
        if idx % 2:
            io.send_raw(io.encode_frame(rid, rp) + io.encode_frame(did, dp))
        else:
            io.send_frame(rid, rp)
            io.send_frame(did, dp)
        io.half_close()
        try:
            io.wait_eof(5.0)
        except mcserver.ScriptTimeout:
            pass
    server = mcserver.Server(handler)
    rec = pc.Recorder()
    conn = pc.make_connection(server.port, rec, allowed_versions={pv})
    injected = []

    def send_hook(kind, proxy, data):
        if kind != 'send' or injected:
            return
        f = sys._getframe()
        while f is not None:
            if f.f_code.co_qualname == 'LoginReactor.react':
                injected.append(1)
                raise BrokenPipeError(32, 'Broken pipe')
            f = f.f_back
    conn.vf_send_hook = send_hook
    w = {'pv': pv, 'one_segment': bool(idx % 2)}
    try:
        conn.connect()
        if not pc.wait_idle(conn, 10.0):
            return 'threads alive'
        run.count('encryption_responses_not_sent')
        if not injected:
            return 'the send of the encryption response was never seen'
        wrapped = [type(x).__name__ for x in (conn.socket, conn.file_object)
                   if isinstance(x, (encryption.EncryptedSocketWrapper,
                                     encryption.EncryptedFileObjectWrapper))]
        exc = rec.exceptions[0] if rec.exceptions else None
        from minecraft.exceptions import LoginDisconnect
        plausible = isinstance(exc, (BrokenPipeError, LoginDisconnect))
        if wrapped or not plausible:
            run.violation('e2e/cipher-on-although-response-not-sent',
                          'the encryption response could not be sent (broken '
                          'pipe), yet the client went on as if encryption '
                          'were in force: the server\'s plain-text disconnect '
                          'was not reported, or the cipher wrappers are '
                          'installed', dict(w, wrappers=wrapped,
                                            reported=repr(exc)))
        return None
    finally:
        pc.safe_disconnect(conn)
        server.stop()


def concurrent_keys(run, rng, thorough):
    """Several connections of one process log in to servers with different
    keys at the same time: every (token, secret) pair must be recoverable by
    the holder of the key it was encrypted for - during the concurrent phase
    (line-level yield injection in encryption.py) and in the sequential calls
    that follow it."""
    import threading
    from cryptography.hazmat.primitives import serialization
    from cryptography.hazmat.primitives.asymmetric import rsa
    from minecraft.networking import encryption
    from ..probes.linemon import LineMonitor
    keys = []
    for bits in (1024, 2048, 1024):
        key = rsa.generate_private_key(public_exponent=65537, key_size=bits)
        der = key.public_key().public_bytes(
            serialization.Encoding.DER,
            serialization.PublicFormat.SubjectPublicKeyInfo)
        nums = key.private_numbers()
        keys.append((der, nums.public_numbers.n, nums.d, bits // 8))
    results = []           # (key index, token, secret, et, es, phase)
    lock = threading.Lock()

    def worker(t, n, phase):
        r = __import__('random').Random(t * 7919 + 1)
        for j in range(n):
            ki = (t + j) % len(keys) if phase == 'concurrent' else j % 3
            token, secret = r.randbytes(4), r.randbytes(16)
            try:
                et, es = encryption.encrypt_token_and_secret(keys[ki][0],
                                                             token, secret)
            except Exception as e:
                et, es = e, None
            with lock:
                results.append((ki, token, secret, et, es, phase))
    rounds = 12 if thorough else 3
    for rnd in range(rounds):
        if not run.mine(rnd):
            continue
        with LineMonitor(files=['minecraft/networking/encryption.py'],
                         yield_prob=0.5, seed=rng.getrandbits(32)) as mon:
            ts = [threading.Thread(target=worker, args=(t, 6, 'concurrent'))
                  for t in range(3)]
            for t in ts:
                t.start()
            for t in ts:
                t.join(60.0)
            run.count('concurrent_keys.yields', mon.yields)
        worker(9, 6, 'sequential-after')
    for ki, token, secret, et, es, phase in results:
        run.count('concurrent_keys.handovers')
        der, n, d, klen = keys[ki]
        if isinstance(et, Exception):
            run.violation('rsa/concurrent-keys/raised', 'encrypt_token_and_'
                          'secret raised while several keys were in use',
                          {'phase': phase, 'error': repr(et)})
            break
        bad = None
        for label, c, exp in (('token', et, token), ('secret', es, secret)):
            if len(c) != klen:
                bad = (label, 'ciphertext of %d bytes for a %d-byte key'
                       % (len(c), klen))
                break
            em = pow(int.from_bytes(c, 'big'), d, n).to_bytes(klen, 'big')
            try:
                m = pkcs1_v15_unpad(em)
            except Exception:
                m = None
            if m != exp:
                bad = (label, 'not recoverable with the key it was meant for')
                break
        if bad:
            run.violation('rsa/concurrent-keys/wrong-key', 'with logins to '
                          'servers with different keys in one process, a '
                          'token/secret was encrypted under another server\'s'
                          ' key', {'phase': phase, 'what': bad,
                                   'key_bytes': klen})
            break


def run(run):
    from minecraft.networking import encryption
    from cryptography.hazmat.primitives.asymmetric import rsa
    from cryptography.hazmat.primitives import serialization
    thorough = run.tier == 'thorough'
    run.level = 'exploration'
    run.rule = ('secrets {random, all-zero, all-0xff} x plaintext streams 0..8 '
                'KiB per direction x partition schemes {1-byte, random sizes '
                'around the block size, whole} for send / recv / file read, '
                'with the two directions interleaved; 1000 generated secrets '
                '(length, pairwise distinct); RSA hand-over for token lengths '
                '1..64 under 1024- and 2048-bit keys decided by raw RSA + own '
                'PKCS#1 v1.5 unpadding; end to end: histories of accepted / '
                'rejected / dropped encrypted logins on one Connection object '
                '(fresh secret per login, working session). Distinct = '
                '(secret, stream, partition) / the history.')
    run.assumptions = ['vf.ref.cfb8 validated by NIST SP 800-38A F.3.7 and '
                       'FIPS-197 vectors in setup', 'randomness quality of '
                       'os.urandom is not observable; only length and '
                       'freshness are judged']
    rng = run.rng('c18')
    n_cases = 1600 if thorough else 80
    for i in range(n_cases):
        secret = [bytes(16), b'\xff' * 16][i] if i < 2 else \
            bytes(rng.getrandbits(8) for _ in range(16))
        size_out = rng.choice((0, 1, 15, 16, 17, 100, 1000, 8192 if i % 7 == 0
                               else 300))
        size_in = rng.choice((0, 1, 16, 17, 255, 2048, 8192 if i % 5 == 0
                              else 500))
        plain_out = bytes(rng.getrandbits(8) for _ in range(size_out))
        plain_in = bytes(rng.getrandbits(8) for _ in range(size_in))
        mode = ('bytewise', 'random', 'whole')[i % 3]
        ref_out = cfb8.CFB8(secret, secret).encrypt(plain_out)
        cipher_in = cfb8.CFB8(secret, secret).encrypt(plain_in)
        if size_out and i % 4 == 0:
            # cross-check the fast block back-end with the pure AES
            assert cfb8.CFB8(secret, secret, fast=False).encrypt(
                plain_out[:48]) == ref_out[:48]
        # the real objects, wired as LoginReactor wires them
        cipher = encryption.create_AES_cipher(secret)
        encryptor, decryptor = cipher.encryptor(), cipher.decryptor()
        via_socket = i % 2 == 0       # incoming via recv() or via file read()
        raw_sock = RecSocket(cipher_in if via_socket else b'',
                             rng if mode == 'random' else None)
        raw_file = RecSocket(b'' if via_socket else cipher_in,
                             rng if mode == 'random' else None)
        sock = encryption.EncryptedSocketWrapper(raw_sock, encryptor,
                                                 decryptor)
        fobj = encryption.EncryptedFileObjectWrapper(raw_file, decryptor)
        outs = partitions(rng, size_out, mode)
        ins = partitions(rng, size_in, mode)
        got_in = []
        po = 0
        # interleave the two directions
        raised = None
        while (outs or ins) and raised is None:
            try:
                if outs and (not ins or rng.random() < 0.5):
                    k = outs.pop(0)
                    sock.send(plain_out[po:po + k])
                    po += k
                    continue
                k = ins.pop(0)
                want = k
                if i % 4 == 3 and rng.random() < 0.3:
                    # an empty piece is a legal part of a split: a zero-
                    # length read in mid-stream returns nothing and changes
                    # nothing
                    empty = sock.recv(0) if via_socket else fobj.read(0)
                    run.count('zero_length_reads')
                    if empty:
                        got_in.append(empty)
                    if rng.random() < 0.5:
                        sock.send(b'')
                while want > 0:
                    chunk = sock.recv(want) if via_socket else fobj.read(want)
                    if not chunk:
                        break
                    got_in.append(chunk)
                    want -= len(chunk)
            except Exception as e:
                raised = e
        if raised is not None:
            run.violation('cfb8/raised:%s' % type(raised).__name__, 'a send/'
                          'recv/read call on the cipher wrappers raised in '
                          'the middle of a well-formed stream', {
                              'secret': secret, 'mode': mode,
                              'via': 'recv' if via_socket else 'file read',
                              'error': repr(raised)})
            continue
        got_out = b''.join(raw_sock.sent)
        run.case((secret, size_out, size_in, mode, via_socket))
        run.count('bytes_encrypted', size_out)
        run.count('bytes_decrypted', size_in)
        if got_out != ref_out:
            first = next((j for j, (a, b) in enumerate(zip(got_out, ref_out))
                          if a != b), min(len(got_out), len(ref_out)))
            run.violation('cfb8/outgoing', 'ciphertext on the wire is not the '
                          'AES-128-CFB8 (key=IV=secret) encryption of the '
                          'plaintext stream', {
                              'secret': secret, 'mode': mode,
                              'first_difference_at': first,
                              'len': (len(got_out), len(ref_out))})
        if b''.join(got_in) != plain_in:
            run.violation('cfb8/incoming/%s' % ('recv' if via_socket else
                                                'file'),
                          'reference ciphertext does not decrypt to the '
                          'plaintext through the real wrapper', {
                              'secret': secret, 'mode': mode,
                              'len': (len(b''.join(got_in)), len(plain_in))})
        if i < 2:
            run.sample({'secret': secret, 'plain': plain_out[:16],
                        'cipher': ref_out[:16], 'partition': mode})
    # wrapper plumbing used by the connection (fileno/close/shutdown pass-through)
    if run.shard == 0:
        raw = RecSocket()
        c = encryption.create_AES_cipher(bytes(16))
        w = encryption.EncryptedFileObjectWrapper(raw, c.decryptor())
        if w.fileno() != 99:
            run.violation('wrapper/fileno', 'fileno not passed through', {})

    # every I/O method the wrappers *offer* goes through the cipher: user
    # code (and library code) picks methods by feature test - 'sendall' if
    # there is one, else 'send' - and whatever it finds on the object standing
    # for the encrypted connection must write ciphertext / return plaintext
    if run.shard == 0:
        import socket as _socket
        for rep in range(6 if thorough else 2):
            secret = bytes(rng.getrandbits(8) for _ in range(16))
            a, b = _socket.socketpair()
            a.settimeout(5.0)
            b.settimeout(5.0)
            raw_file = a.makefile('rb', 0)
            c = encryption.create_AES_cipher(secret)
            enc, dec = c.encryptor(), c.decryptor()
            sock = encryption.EncryptedSocketWrapper(a, enc, dec)
            fobj = encryption.EncryptedFileObjectWrapper(raw_file, dec)
            ref_enc = cfb8.CFB8(secret, secret)     # client -> server stream
            ref_dec = cfb8.CFB8(secret, secret)     # server -> client stream
            try:
                for name in ('send', 'sendall', 'sendmsg', 'write',
                             'sendfile', 'send'):
                    fn = getattr(sock, name, None)
                    if not callable(fn):
                        continue
                    plain = bytes(rng.getrandbits(8) for _ in range(
                        rng.choice((1, 17, 100))))
                    try:
                        if name == 'sendmsg':
                            fn([plain])
                        elif name == 'sendfile':
                            import io as _io2
                            fn(_io2.BytesIO(plain))
                        else:
                            fn(plain)
                    except Exception as e:
                        run.violation('wrapper/offered-method-raised',
                                      'an output method the socket wrapper '
                                      'offers raised', {'method': name,
                                                        'error': repr(e)})
                        break
                    want = ref_enc.encrypt(plain)
                    got = b''
                    try:
                        while len(got) < len(want):
                            got += b.recv(len(want) - len(got))
                    except Exception:
                        pass
                    run.count('wrapper_output_methods_checked')
                    run.seen('wrapper_methods_offered', 'socket.' + name)
                    if got != want:
                        run.violation(
                            'wrapper/output-method-bypasses-cipher',
                            'an output method offered by the encrypted socket '
                            'wrapper does not write the continuation of the '
                            'cipher stream', {'method': name, 'plaintext':
                                              got == plain})
                        break
                for owner, name in ((sock, 'recv'), (fobj, 'read'),
                                    (sock, 'recv_into'), (fobj, 'readinto'),
                                    (sock, 'recvfrom'), (fobj, 'read1'),
                                    (fobj, 'readline'), (sock, 'makefile'),
                                    (fobj, 'readall'), (sock, 'recv'),
                                    (fobj, 'read')):
                    fn = getattr(owner, name, None)
                    if not callable(fn):
                        continue
                    n = rng.choice((1, 16, 33))
                    plain = bytes(rng.randrange(32, 127) for _ in range(n - 1))\
                        + b'\n'
                    b.sendall(ref_dec.encrypt(plain))
                    try:
                        if name in ('recv_into', 'readinto'):
                            buf = bytearray(n)
                            k = fn(buf)
                            got = bytes(buf[:k])
                        elif name == 'recvfrom':
                            got = fn(n)[0]
                        elif name == 'readline':
                            got = fn()
                        elif name == 'makefile':
                            f2 = fn('rb', 0)
                            got = f2.read(n)
                        elif name == 'readall':
                            b.shutdown(_socket.SHUT_WR)
                            got = fn()
                        else:
                            got = fn(n)
                    except Exception as e:
                        run.violation('wrapper/offered-method-raised',
                                      'an input method a wrapper offers '
                                      'raised', {'method': name,
                                                 'error': repr(e)})
                        break
                    run.count('wrapper_input_methods_checked')
                    run.seen('wrapper_methods_offered', (
                        'socket.' if owner is sock else 'file.') + name)
                    if got != plain:
                        run.violation(
                            'wrapper/input-method-bypasses-cipher',
                            'an input method offered by an encrypted wrapper '
                            'does not return the plaintext', {
                                'method': name, 'ciphertext_returned':
                                bool(got) and got != plain})
                        break
                # half-close: the application shuts down its sending side;
                # what the server still sends keeps decrypting (the two
                # directions are independent)
                try:
                    sock.shutdown(_socket.SHUT_WR)
                    plain = bytes(rng.randrange(32, 127) for _ in range(24))
                    b.sendall(ref_dec.encrypt(plain))
                    got = b''
                    while len(got) < len(plain):
                        piece = fobj.read(len(plain) - len(got)) \
                            if rep % 2 else sock.recv(len(plain) - len(got))
                        if not piece:
                            break
                        got += piece
                except Exception as e:
                    got = repr(e)
                run.count('wrapper_half_close_probes')
                if got != plain:
                    run.violation('wrapper/half-close-breaks-incoming',
                                  'after shutdown(SHUT_WR) on the encrypted '
                                  'socket wrapper the incoming direction no '
                                  'longer decrypts', {'got': repr(got)[:80]})
            finally:
                for x in (raw_file, a, b):
                    try:
                        x.close()
                    except Exception:
                        pass

    # a send() of the underlying socket refused once with a transient error,
    # and recv() given flags: if the wrapper's call *returns*, the bytes on
    # the wire are the continuation of the cipher stream / the stream read
    # afterwards still decrypts (an error raised to the caller is fine - the
    # connection is then over)
    if run.shard == 0:
        import errno as _errno
        import socket as _socket
        for rep, eno in enumerate((_errno.ENOBUFS, _errno.EINTR,
                                   _errno.EAGAIN, _errno.EWOULDBLOCK)):
            secret = bytes(rng.getrandbits(8) for _ in range(16))

            class FlakySocket(object):
                def __init__(self):
                    self.sent, self.calls, self.refuse_at = [], 0, 2

                def send(self, data):
                    self.calls += 1
                    if self.calls == self.refuse_at:
                        raise OSError(eno, 'injected transient error')
                    self.sent.append(bytes(data))
                    return len(data)
            raw = FlakySocket()
            c = encryption.create_AES_cipher(secret)
            sock = encryption.EncryptedSocketWrapper(raw, c.encryptor(),
                                                     c.decryptor())
            ref_enc = cfb8.CFB8(secret, secret)
            chunks = [bytes(rng.getrandbits(8) for _ in range(20))
                      for _ in range(4)]
            accepted = b''
            outcome = []
            for ch in chunks:
                try:
                    sock.send(ch)
                    accepted += ch
                    outcome.append('returned')
                except OSError:
                    outcome.append('raised')
                    break
            run.count('wrapper_sends_with_a_refused_call')
            if b''.join(raw.sent) != ref_enc.encrypt(accepted):
                run.violation('wrapper/refused-send-breaks-cipher-stream',
                              'the underlying send() was refused once with a '
                              'transient error; the wrapper\'s send() calls '
                              'returned normally, but what reached the socket '
                              'is not the encryption of what was accepted',
                              {'errno': _errno.errorcode[eno],
                               'outcome': outcome})
        for rep in range(2):
            secret = bytes(rng.getrandbits(8) for _ in range(16))
            a, b = _socket.socketpair()
            a.settimeout(3.0)
            c = encryption.create_AES_cipher(secret)
            dec = c.decryptor()
            sock = encryption.EncryptedSocketWrapper(a, c.encryptor(), dec)
            raw_file = a.makefile('rb', 0)
            fobj = encryption.EncryptedFileObjectWrapper(raw_file, dec)
            plain = bytes(rng.getrandbits(8) for _ in range(40))
            b.sendall(cfb8.CFB8(secret, secret).encrypt(plain))
            try:
                first = sock.recv(10)
                try:
                    peek = sock.recv(7, _socket.MSG_PEEK)
                    flags_taken = True
                except TypeError:
                    peek, flags_taken = None, False
                rest = b''
                while len(first) + len(rest) < len(plain):
                    got = (sock.recv(50) if rep == 0 else fobj.read(
                        len(plain) - len(first) - len(rest)))
                    if not got:
                        break
                    rest += got
            except Exception as e:
                first, rest, flags_taken, peek = b'', repr(e).encode(), None, \
                    None
            finally:
                for x in (raw_file, a, b):
                    try:
                        x.close()
                    except Exception:
                        pass
            run.count('wrapper_recv_with_flags_probes')
            run.seen('wrapper_recv_flags', 'accepted' if flags_taken
                     else 'refused')
            if first + rest != plain or (flags_taken and peek != plain[10:17]):
                run.violation('wrapper/recv-flags-break-cipher-stream',
                              'after recv(n, MSG_PEEK) on the encrypted socket'
                              ' wrapper the incoming stream no longer decrypts'
                              ' (or the peeked bytes are not plaintext)',
                              {'flags_accepted': flags_taken,
                               'via': 'recv' if rep == 0 else 'file read'})

    for i in range(16 if thorough else 4):
        if run.mine(i):
            err = response_not_sent_case(run, rng, i)
            run.case(('response-not-sent', i))
            if err:
                run.inconclusive_because('response not sent %d: %s' % (i, err))
    # secrets: length and freshness
    secrets = [encryption.generate_shared_secret() for _ in range(1000)]
    run.count('secrets_generated', len(secrets))
    run.bulk(len(secrets), 0)
    if any(not isinstance(s, bytes) or len(s) != 16 for s in secrets):
        run.violation('secret/length', 'shared secret is not 16 bytes',
                      {'lengths': sorted({len(s) for s in secrets})})
    # gross structure only (randomness quality is not observable): no
    # repeated halves, every byte position varies, no two positions coupled
    good = [s for s in secrets if isinstance(s, bytes) and len(s) == 16]
    if good:
        if any(s[:8] == s[8:] for s in good):
            run.violation('secret/structure', 'shared secret repeats its first'
                          ' half', {'example': good[0]})
        poor = [i for i in range(16)
                if len({s[i] for s in good}) < 100]
        if poor:
            run.violation('secret/structure', 'some byte positions of the '
                          'secret barely vary', {'positions': poor})
        coupled = [(i, j) for i in range(16) for j in range(i + 1, 16)
                   if all(s[i] == s[j] for s in good)]
        if coupled:
            run.violation('secret/structure', 'byte positions of the secret '
                          'are always equal', {'pairs': coupled[:4]})
    if len(set(secrets)) != len(secrets):
        run.violation('secret/freshness', 'shared secrets repeat',
                      {'distinct': len(set(secrets))})
    # ... whatever the application has done to the interpreter's shared
    # pseudo-random generators (a program that seeds `random` for
    # reproducibility must still get a fresh secret per login)
    import random as _random
    st = _random.getstate()
    try:
        reseeded = []
        for k in range(40):
            _random.seed(1234 + k % 2)
            reseeded.append(encryption.generate_shared_secret())
    finally:
        _random.setstate(st)
    run.count('secrets_generated_after_reseeding', len(reseeded))
    if len(set(reseeded)) != len(reseeded):
        run.violation('secret/freshness/follows-global-random-state', 'the '
                      'shared secret repeats when the application re-seeds '
                      'the global `random` generator', {
                          'distinct': len(set(reseeded)), 'of': len(reseeded)})
    concurrent_keys(run, rng, thorough)

    # RSA hand-over
    for bits in (1024, 2048):
        key = rsa.generate_private_key(public_exponent=65537, key_size=bits)
        der = key.public_key().public_bytes(
            serialization.Encoding.DER,
            serialization.PublicFormat.SubjectPublicKeyInfo)
        nums = key.private_numbers()
        n, d = nums.public_numbers.n, nums.d
        klen = bits // 8
        lengths = range(1, 65) if thorough else \
            [1, 2, 3, 4, 8, 15, 16, 17, 32, 63, 64]
        for L in lengths:
            if not run.mine(L):
                continue
            token = bytes(rng.getrandbits(8) or 1 for _ in range(L))
            if L % 3 == 0:
                token = b'\x00' + token[1:]       # leading zero byte survives?
            secret = bytes(rng.getrandbits(8) for _ in range(16))
            try:
                et, es = encryption.encrypt_token_and_secret(der, token,
                                                             secret)
            except Exception as e:
                run.violation('rsa/raised', 'encrypt_token_and_secret raised',
                              {'bits': bits, 'token_len': L,
                               'error': repr(e)})
                continue
            run.case(('rsa', bits, L, token))
            run.count('rsa_handovers')
            for label, c, exp in (('token', et, token), ('secret', es,
                                                         secret)):
                em = pow(int.from_bytes(c, 'big'), d, n).to_bytes(klen, 'big')
                m = pkcs1_v15_unpad(em)
                if len(c) != klen or m != exp:
                    run.violation('rsa/' + label, 'key holder does not recover'
                                  ' the %s with PKCS#1 v1.5 (type 2) '
                                  'unpadding' % label, {
                                      'bits': bits, 'token_len': L,
                                      'em_prefix': em[:4], 'recovered': m,
                                      'expected': exp})
    login_histories(run, rng, thorough)
    run.require('login_histories', 3)
    run.require('bytes_encrypted', 1000)
    run.require('bytes_decrypted', 1000)
    run.require('rsa_handovers', 2)
    run.require('zero_length_reads', 3)
    run.require('concurrent_keys.handovers', 10)
    if run.shard == 0:
        run.require('wrapper_output_methods_checked', 2)
        run.require('wrapper_input_methods_checked', 4)
