"""C18 - encrypted channel is AES-128-CFB8 keyed by the secret; secrets reach the
server.

The real cipher factory and socket/file wrappers are driven with generated
plaintext streams under arbitrary partitions of send/recv/read calls; a
recording transport captures the ciphertext, which must equal an independent
CFB8 (shift register over single-block AES; pure-Python AES cross-check).  The
RSA hand-over is decided by *raw* RSA (pow(c, d, n)) and a hand-written
PKCS#1 v1.5 type-2 unpadding, i.e. without the library's padding code.
"""
from ..ref import cfb8

SHARDS = {'quick': 4, 'thorough': 16}


class RecSocket(object):
    def __init__(self, incoming=b'', rng=None):
        self.sent = []
        self.incoming, self.pos, self.rng = incoming, 0, rng

    def send(self, data):
        self.sent.append(bytes(data))

    def recv(self, n):
        k = n if self.rng is None else self.rng.randrange(1, n + 1)
        out = self.incoming[self.pos:self.pos + k]
        self.pos += len(out)
        return out

    read = recv

    def fileno(self):
        return 99

    def close(self):
        pass


def partitions(rng, total, mode):
    out, left = [], total
    while left > 0:
        k = 1 if mode == 'bytewise' else left if mode == 'whole' else \
            rng.choice((1, 2, 3, 15, 16, 17, 31, 32, 33, 100, 1000))
        k = min(k, left)
        out.append(k)
        left -= k
    return out


def pkcs1_v15_unpad(em):
    """EM = 00 02 PS(>=8 nonzero) 00 M"""
    if len(em) < 11 or em[0] != 0 or em[1] != 2:
        return None
    try:
        sep = em.index(0, 2)
    except ValueError:
        return None
    if sep < 10:
        return None
    return em[sep + 1:]


def run(run):
    from minecraft.networking import encryption
    from cryptography.hazmat.primitives.asymmetric import rsa
    from cryptography.hazmat.primitives import serialization
    thorough = run.tier == 'thorough'
    run.level = 'exploration'
    run.rule = ('secrets {random, all-zero, all-0xff} x plaintext streams 0..8 '
                'KiB per direction x partition schemes {1-byte, random sizes '
                'around the block size, whole} for send / recv / file read, '
                'with the two directions interleaved; 1000 generated secrets '
                '(length, pairwise distinct); RSA hand-over for token lengths '
                '1..64 under 1024- and 2048-bit keys decided by raw RSA + own '
                'PKCS#1 v1.5 unpadding. Distinct = (secret, stream, '
                'partition).')
    run.assumptions = ['vf.ref.cfb8 validated by NIST SP 800-38A F.3.7 and '
                       'FIPS-197 vectors in setup', 'randomness quality of '
                       'os.urandom is not observable; only length and '
                       'freshness are judged']
    rng = run.rng('c18')
    n_cases = 1600 if thorough else 80
    for i in range(n_cases):
        secret = [bytes(16), b'\xff' * 16][i] if i < 2 else \
            bytes(rng.getrandbits(8) for _ in range(16))
        size_out = rng.choice((0, 1, 15, 16, 17, 100, 1000, 8192 if i % 7 == 0
                               else 300))
        size_in = rng.choice((0, 1, 16, 17, 255, 2048, 8192 if i % 5 == 0
                              else 500))
        plain_out = bytes(rng.getrandbits(8) for _ in range(size_out))
        plain_in = bytes(rng.getrandbits(8) for _ in range(size_in))
        mode = ('bytewise', 'random', 'whole')[i % 3]
        ref_out = cfb8.CFB8(secret, secret).encrypt(plain_out)
        cipher_in = cfb8.CFB8(secret, secret).encrypt(plain_in)
        if size_out and i % 4 == 0:
            # cross-check the fast block back-end with the pure AES
            assert cfb8.CFB8(secret, secret, fast=False).encrypt(
                plain_out[:48]) == ref_out[:48]
        # the real objects, wired as LoginReactor wires them
        cipher = encryption.create_AES_cipher(secret)
        encryptor, decryptor = cipher.encryptor(), cipher.decryptor()
        via_socket = i % 2 == 0       # incoming via recv() or via file read()
        raw_sock = RecSocket(cipher_in if via_socket else b'',
                             rng if mode == 'random' else None)
        raw_file = RecSocket(b'' if via_socket else cipher_in,
                             rng if mode == 'random' else None)
        sock = encryption.EncryptedSocketWrapper(raw_sock, encryptor,
                                                 decryptor)
        fobj = encryption.EncryptedFileObjectWrapper(raw_file, decryptor)
        outs = partitions(rng, size_out, mode)
        ins = partitions(rng, size_in, mode)
        got_in = []
        po = 0
        # interleave the two directions
        while outs or ins:
            if outs and (not ins or rng.random() < 0.5):
                k = outs.pop(0)
                sock.send(plain_out[po:po + k])
                po += k
            else:
                k = ins.pop(0)
                want = k
                while want > 0:
                    chunk = sock.recv(want) if via_socket else fobj.read(want)
                    if not chunk:
                        break
                    got_in.append(chunk)
                    want -= len(chunk)
        got_out = b''.join(raw_sock.sent)
        run.case((secret, size_out, size_in, mode, via_socket))
        run.count('bytes_encrypted', size_out)
        run.count('bytes_decrypted', size_in)
        if got_out != ref_out:
            first = next((j for j, (a, b) in enumerate(zip(got_out, ref_out))
                          if a != b), min(len(got_out), len(ref_out)))
            run.violation('cfb8/outgoing', 'ciphertext on the wire is not the '
                          'AES-128-CFB8 (key=IV=secret) encryption of the '
                          'plaintext stream', {
                              'secret': secret, 'mode': mode,
                              'first_difference_at': first,
                              'len': (len(got_out), len(ref_out))})
        if b''.join(got_in) != plain_in:
            run.violation('cfb8/incoming/%s' % ('recv' if via_socket else
                                                'file'),
                          'reference ciphertext does not decrypt to the '
                          'plaintext through the real wrapper', {
                              'secret': secret, 'mode': mode,
                              'len': (len(b''.join(got_in)), len(plain_in))})
        if i < 2:
            run.sample({'secret': secret, 'plain': plain_out[:16],
                        'cipher': ref_out[:16], 'partition': mode})
    # wrapper plumbing used by the connection (fileno/close/shutdown pass-through)
    if run.shard == 0:
        raw = RecSocket()
        c = encryption.create_AES_cipher(bytes(16))
        w = encryption.EncryptedFileObjectWrapper(raw, c.decryptor())
        if w.fileno() != 99:
            run.violation('wrapper/fileno', 'fileno not passed through', {})

    # secrets: length and freshness
    secrets = [encryption.generate_shared_secret() for _ in range(1000)]
    run.count('secrets_generated', len(secrets))
    run.bulk(len(secrets), 0)
    if any(not isinstance(s, bytes) or len(s) != 16 for s in secrets):
        run.violation('secret/length', 'shared secret is not 16 bytes',
                      {'lengths': sorted({len(s) for s in secrets})})
    # gross structure only (randomness quality is not observable): no
    # repeated halves, every byte position varies, no two positions coupled
    good = [s for s in secrets if isinstance(s, bytes) and len(s) == 16]
    if good:
        if any(s[:8] == s[8:] for s in good):
            run.violation('secret/structure', 'shared secret repeats its first'
                          ' half', {'example': good[0]})
        poor = [i for i in range(16)
                if len({s[i] for s in good}) < 100]
        if poor:
            run.violation('secret/structure', 'some byte positions of the '
                          'secret barely vary', {'positions': poor})
        coupled = [(i, j) for i in range(16) for j in range(i + 1, 16)
                   if all(s[i] == s[j] for s in good)]
        if coupled:
            run.violation('secret/structure', 'byte positions of the secret '
                          'are always equal', {'pairs': coupled[:4]})
    if len(set(secrets)) != len(secrets):
        run.violation('secret/freshness', 'shared secrets repeat',
                      {'distinct': len(set(secrets))})

    # RSA hand-over
    for bits in (1024, 2048):
        key = rsa.generate_private_key(public_exponent=65537, key_size=bits)
        der = key.public_key().public_bytes(
            serialization.Encoding.DER,
            serialization.PublicFormat.SubjectPublicKeyInfo)
        nums = key.private_numbers()
        n, d = nums.public_numbers.n, nums.d
        klen = bits // 8
        lengths = range(1, 65) if thorough else \
            [1, 2, 3, 4, 8, 15, 16, 17, 32, 63, 64]
        for L in lengths:
            if not run.mine(L):
                continue
            token = bytes(rng.getrandbits(8) or 1 for _ in range(L))
            if L % 3 == 0:
                token = b'\x00' + token[1:]       # leading zero byte survives?
            secret = bytes(rng.getrandbits(8) for _ in range(16))
            try:
                et, es = encryption.encrypt_token_and_secret(der, token,
                                                             secret)
            except Exception as e:
                run.violation('rsa/raised', 'encrypt_token_and_secret raised',
                              {'bits': bits, 'token_len': L,
                               'error': repr(e)})
                continue
            run.case(('rsa', bits, L, token))
            run.count('rsa_handovers')
            for label, c, exp in (('token', et, token), ('secret', es,
                                                         secret)):
                em = pow(int.from_bytes(c, 'big'), d, n).to_bytes(klen, 'big')
                m = pkcs1_v15_unpad(em)
                if len(c) != klen or m != exp:
                    run.violation('rsa/' + label, 'key holder does not recover'
                                  ' the %s with PKCS#1 v1.5 (type 2) '
                                  'unpadding' % label, {
                                      'bits': bits, 'token_len': L,
                                      'em_prefix': em[:4], 'recovered': m,
                                      'expected': exp})
    run.require('bytes_encrypted', 1000)
    run.require('bytes_decrypted', 1000)
    run.require('rsa_handovers', 2)
