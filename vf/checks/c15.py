"""C15 - a server that stops mid-conversation never hangs or spins the client.

Crash-point enumeration: for reference conversations (status; status then
login; login with compression and play traffic; login with encryption and
compression; plain play traffic) the server stops after exactly k wire bytes
for every k (quick: every 3rd offset plus every frame boundary +-1) and closes.
Monitors: FileProxy counts reads that return no data after end-of-stream (a
failpoint stops a spinning thread at 50 so the case is decided, not hung);
thread termination; error report / documented status fallback; packets
delivered to an early listener vs. frames wholly sent.
"""
import json
import threading
import zlib

from ..probes import client as pc
from ..server import mcserver, scripts
from ..server.codec import codec_for

SHARDS = {'quick': 8, 'thorough': 16}

SCENARIOS = ['status', 'status-login', 'login-compressed', 'login-encrypted',
             'play-plain', 'plain-status', 'status-default-outside',
             'plain-status-ping', 'play-big-frames']


def play_traffic(io, codec, rng_bytes):
    """A fixed stretch of play traffic; every frame is labelled."""
    for i, v in enumerate((1, 300, 2 ** 31 - 1)):
        cid, cp = codec.encode('cb_keep_alive', {'id': v})
        io.send_frame(cid, cp, label='KeepAlivePacket')
    io.send_frame(0x7E, rng_bytes[:40], label='Packet')          # unknown id
    cid, cp = codec.encode('cb_chat', {
        'json': '{"text":"%s"}' % ('lorem ipsum ' * 12), 'position': 0,
        'sender': '00000000-0000-0000-0000-000000000001'})
    io.send_frame(cid, cp, label='ChatMessagePacket')            # compressible
    io.send_frame(0x7D, b'', label='Packet')
    cid, cp = codec.encode('cb_keep_alive', {'id': 7})
    io.send_frame(cid, cp, label='KeepAlivePacket')
    did, dp = codec.encode('play_disconnect', {'reason': '{"text":"end"}'})
    io.send_frame(did, dp, label='DisconnectPacket')


def big_traffic(io, codec, rng_bytes):
    """Frames whose length prefix takes two and three bytes, one of them
    beyond 64 KiB."""
    for size in (300, 20000, 70000):
        io.send_frame(0x7E, (rng_bytes * (size // len(rng_bytes) + 1))[:size],
                      label='Packet')
    cid, cp = codec.encode('cb_keep_alive', {'id': 9})
    io.send_frame(cid, cp, label='KeepAlivePacket')
    did, dp = codec.encode('play_disconnect', {'reason': '{"text":"end"}'})
    io.send_frame(did, dp, label='DisconnectPacket')


def make_handler(scenario, pv, budget, abrupt, state, rng_bytes):
    codec = codec_for(pv)

    def finish(io):
        if state.get('clock_step'):
            # the wall clock is stepped while the client waits for a reply
            # that will not come (see one_case)
            state['clock'].step(state['clock_step'])
        if abrupt:
            io.close(abrupt=True)
            return
        io.half_close()
        try:
            io.wait_eof(6.0)
        except mcserver.ScriptTimeout:
            state['client_never_closed'] = True

    def login_after_handshake(io, hs):
        return login_and_play(io, None, False, hs)

    def login_and_play(io, threshold, encrypted, hs=None):
        if hs is None:
            hs = scripts.read_handshake(io)
        state.setdefault('handshakes', []).append(hs)
        # speak the protocol the client announced (the fallback login uses the
        # default version, not the one the status reply would have named)
        codec = codec_for(hs['protocol']) if hs else codec_for(pv)
        f = io.recv_frame()          # login start
        if f is None:
            return
        if encrypted:
            scripts.encryption_exchange(io, codec, label='EncryptionRequestPacket')
        if threshold is not None:
            cid, cp = codec.encode('set_compression', {'threshold': threshold})
            io.send_frame(cid, cp, label='SetCompressionPacket')
            io.enable_compression(threshold)
        sid, sp = codec.encode('login_success', {
            'uuid': '11111111-2222-3333-4444-555555555555',
            'username': 'vfuser'})
        io.send_frame(sid, sp, label='LoginSuccessPacket')
        if scenario == 'play-big-frames':
            big_traffic(io, codec, rng_bytes)
        else:
            play_traffic(io, codec, rng_bytes)

    def status(io, protocol=pv):
        hs = scripts.read_handshake(io)
        state.setdefault('handshakes', []).append(hs)
        f = io.recv_frame()
        if f is None:
            return
        text = json.dumps({'version': {'name': 'vf', 'protocol': protocol},
                           'description': {'text': 'x' * 30},
                           'players': {'max': 1, 'online': 0}})
        from ..ref import core_packets as ref
        io.send_frame(0x00, ref.encode_field('string', text),
                      label='ResponsePacket')

    def handler(io):
        first = io.index == 0
        cut_here = (scenario in ('status', 'login-compressed',
                                 'login-encrypted', 'play-plain',
                                 'status-default-outside',
                                 'plain-status-ping', 'play-big-frames')
                    and first) \
            or (scenario in ('status-login', 'plain-status')
                and io.index == 1)
        if cut_here:
            io.send_budget = max(budget, 0)
            state['cut_io'] = io
            if budget < 0:
                # crash point "-1": the peer goes away right after accepting,
                # without reading anything
                state['cut'] = True
                finish(io)
                return
        try:
            if scenario == 'plain-status-ping':
                # a plain status query with latency measurement: response,
                # then (after the client's ping has been read) the pong
                hs = scripts.read_handshake(io)
                state.setdefault('handshakes', []).append(hs)
                if io.recv_frame() is None:
                    return
                from ..ref import core_packets as ref
                io.send_frame(0x00, ref.encode_field('string', json.dumps(
                    {'version': {'name': 'vf', 'protocol': pv}})),
                    label='ResponsePacket')
                fr = io.recv_frame()
                if fr is None:
                    return
                io.send_frame(0x01, fr[1], label='PingResponsePacket')
            elif scenario == 'status-default-outside':
                hs = scripts.read_handshake(io)
                state.setdefault('handshakes', []).append(hs)
                if hs and hs['next_state'] == 1:
                    if io.index == 0:
                        # the status connection under cut
                        f = io.recv_frame()
                        if f is not None:
                            from ..ref import core_packets as ref
                            io.send_frame(0x00, ref.encode_field(
                                'string', json.dumps({'version': {
                                    'name': 'vf', 'protocol': pv}})),
                                label='ResponsePacket')
                    # a *further* status query is answered by closing again
                else:
                    state['handshakes'].pop()
                    login_after_handshake(io, hs)
            elif scenario == 'plain-status':
                # 0: a negotiation that ends in a version mismatch (leaves the
                # negotiation reactor behind); 1: the plain status query under
                # cut; anything further would be a login nobody asked for
                if io.index == 0:
                    status(io, 99999)
                elif io.index == 1:
                    status(io)
                else:
                    login_and_play(io, None, False)
            elif scenario in ('status', 'status-login') and first:
                status(io)
            elif scenario in ('status', 'status-login'):
                login_and_play(io, 64 if scenario == 'status-login' else None,
                               False)
            elif scenario == 'login-compressed':
                login_and_play(io, 64, False)
            elif scenario == 'login-encrypted':
                login_and_play(io, 32, True)
            else:
                login_and_play(io, None, False)
        except mcserver.CutReached:
            state['cut'] = True
            finish(io)
            return
        # whole stream sent
        state.setdefault('complete', []).append(io.index)
        finish(io)
    return handler


def one_case(run, scenario, pv, default_pv, k, abrupt, rng_bytes, hook_log):
    state = {}
    handler = make_handler(scenario, pv, k, abrupt, state, rng_bytes)
    server = mcserver.Server(handler)
    rec = pc.Recorder()
    w = {'scenario': scenario, 'pv': pv, 'cut_at': k, 'abrupt': abrupt}
    if abrupt:
        run.count('cuts_with_reset')
    conn = None
    stack = None
    try:
        if scenario == 'status-default-outside':
            # the default version is *not* one of the allowed versions
            third = 340 if 340 not in (pv, default_pv) else 404
            conn = pc.make_connection(server.port, rec,
                                      allowed_versions={pv, third},
                                      initial_version=default_pv)
        elif scenario in ('status', 'status-login', 'plain-status'):
            allowed = {pv, default_pv}
            conn = pc.make_connection(server.port, rec,
                                      allowed_versions=allowed,
                                      initial_version=default_pv)
        else:
            conn = pc.make_connection(server.port, rec, allowed_versions={pv})
        del hook_log[:]
        # fault injection on the wall clock: in a third of the cut
        # conversations the clock is stepped (one hour back or forth) at the
        # moment the server goes away.  How long anything takes is none of
        # the wall clock's business.
        import contextlib
        import zlib as _zlib
        clock = pc.SteppingClock()
        state['clock'] = clock
        if k < 10 ** 8 and _zlib.crc32(repr((scenario, pv, k)).encode()) % 3 \
                == 0 and 'eof/stalled-after-wall-clock-step' not in \
                run.violations:
            state['clock_step'] = (-3600, 3600)[k % 2]
            w['wall_clock_stepped_by'] = state['clock_step']
            run.count('cuts_with_wall_clock_step')
        stack = contextlib.ExitStack()
        stack.enter_context(clock)
        if scenario == 'plain-status':
            from minecraft.networking import connection as C
            conn.connect()                       # ends with VersionMismatch
            if not pc.wait_idle(conn, 20.0):
                return None, 'negotiation did not end'
            if len(rec.exceptions) != 1:
                return None, 'expected a version mismatch first: %r' % (
                    rec.exceptions,)
            del rec.exceptions[:]
            del rec.packets[:]
            rec.exits = 0
            # delay injection at an existing suspension point: building the
            # status reactor takes a while (harmless under the lock)
            orig_init = C.StatusReactor.__init__

            def slow_init(self, *a, **k):
                # (under its lock status() cannot be overtaken, so the wait
                # runs to its end; a networking thread that *can* run in the
                # meantime ends it early by finishing)
                pc.wait_for(lambda: all(not t.is_alive()
                                        for t in pc.threads_of(conn)),
                            0.4 if k_cut <= 0 else 0.03)
                return orig_init(self, *a, **k)
            k_cut = k
            C.StatusReactor.__init__ = slow_init
            try:
                conn.status(handle_status=rec.statuses.append,
                            handle_ping=False)
            finally:
                C.StatusReactor.__init__ = orig_init
        elif scenario == 'plain-status-ping':
            conn.status(handle_status=rec.statuses.append,
                        handle_ping=rec.pings.append)
        else:
            conn.connect()
        done = False
        busy = 0
        cpu0 = {}
        for _ in range(20):
            done = pc.wait_idle(conn, 1.0)
            if done or len(server.connections) > 6:
                break
            # alive but not finished: blocked (no CPU) or spinning?
            hot = False
            for t in pc.threads_of(conn):
                c = pc.thread_cpu_seconds(t)
                if c is not None:
                    if c - cpu0.get(t, c) > 0.6:
                        hot = True
                    cpu0[t] = c
            busy = busy + 1 if hot else 0
            if busy >= 3:
                break
        if not done and busy >= 3:
            # three consecutive seconds of > 60 % CPU in the networking thread
            # with nothing left to read or write: it is polling, not waiting
            run.violation('eof/spin', 'after the server had gone away the '
                          'networking thread kept running at full speed '
                          'without terminating or reporting anything',
                          dict(w, errors=repr(rec.exceptions[:1])))
            pc.safe_disconnect(conn)
            pc.wait_idle(conn, 5.0)
            return 'ok', w
        if not done and len(server.connections) > 4:
            # not blocked but busy: the client keeps opening connections
            n = len(server.connections)
            server.stop()
            pc.wait_idle(conn, 10.0)
            run.violation('eof/fallback-loop', 'after a conversation that was '
                          'cut short the client kept opening connections',
                          dict(w, connections=n))
            return 'ok', w
        if not done and clock.steps and all(
                c.eof or c.closed for c in server.connections
                if hasattr(c, 'eof')) and state.get('cut'):
            # the server is gone, no connection is open, the thread consumes
            # no CPU and has not ended within 20 s - and the only unusual
            # thing about this run is the step of the wall clock
            run.violation('eof/stalled-after-wall-clock-step', 'after the '
                          'server had gone away the networking thread neither '
                          'terminated nor reported anything; the wall clock '
                          'had been stepped while it was waiting',
                          dict(w, threads=pc.dump_threads()[-800:]))
            stack.close()
            pc.safe_disconnect(conn)
            return 'ok', w
        if not done:
            return None, 'threads alive after watchdog (blocked?):\n' + \
                pc.dump_threads()
        # the client is quiescent: did it leave its transport open?
        left_open = getattr(conn, 'socket', None) is not None
        if left_open:
            try:
                conn.disconnect(immediate=True)   # let the server see EOF
            except Exception:
                pass
        server.join(10.0)
        script_errors = [e for e in server.errors if e[1] == 'script']
        if script_errors:
            return None, 'server script error %r' % (script_errors[:1],)
        io = state.get('cut_io')
        total = io.sent_wire if io is not None else 0
        cut = state.get('cut', False)
        w['sent'] = total
        if io is not None:
            w['boundaries'] = sorted({e[2] for e in io.frame_log})
            w['frames'] = [(e[1], e[2]) for e in io.frame_log]
        # ---- spin / bounded reads -----------------------------------------
        proxies = getattr(conn, 'vf_file_proxies', [])
        empty = max([p.empty_reads for p in proxies] or [0])
        run.count('empty_reads_total', sum(p.empty_reads for p in proxies))
        spun = [h for h in hook_log if 'SpinDetected' in h]
        phase = 'length-prefix' if io is None else None
        if io is not None and cut and k < 0:
            phase = 'on-accept'
            w['cut_phase'] = phase
        elif io is not None and cut:
            inside = [e for e in io.frame_log if e[1] < k < e[2]]
            phase = 'inside-frame' if inside else 'frame-boundary'
            w['cut_phase'] = phase
            w['frame'] = inside[0][0] if inside else None
        if spun or empty > 3:
            if left_open:
                w['left_open'] = True
            run.violation('eof/spin/%s' % (phase or 'n-a'), 'networking thread'
                          ' kept reading after end of stream (%d empty reads; '
                          'stopped by the monitor\'s failpoint)' % empty, w)
            return 'spin', w
        if left_open or state.get('client_never_closed'):
            run.violation('eof/client-kept-connection', 'the networking thread'
                          ' ended but the connection was left open', w)
        # ---- outcome --------------------------------------------------------
        conns = len(server.connections)
        hs = state.get('handshakes', [])
        finished_clean = rec.exits >= 1 and not rec.exceptions
        if scenario == 'plain-status-ping':
            if cut and not rec.exceptions:
                run.violation('eof/silent/plain-status-ping', 'a status query '
                              'with latency measurement whose conversation '
                              'was cut short reported no error',
                              dict(w, exits=rec.exits,
                                   statuses=len(rec.statuses),
                                   pings=len(rec.pings)))
            elif not cut and (rec.exceptions or len(rec.pings) != 1):
                run.violation('eof/complete-conversation-failed', 'complete '
                              'status+ping conversation, yet error or no '
                              'latency', dict(w, exc=repr(rec.exceptions[:1])))
            elif cut:
                run.count('errors_reported')
                run.count('cuts.' + (phase or 'x'))
            return 'ok', w
        if scenario == 'status-default-outside':
            logins = [h for h in hs if h and h['next_state'] == 2]
            statuses = [h for h in hs if h and h['next_state'] == 1]
            if cut:
                run.count('cuts.' + (phase or 'x'))
                if conns > 2 or len(statuses) > 1:
                    run.violation('eof/fallback-loop', 'after an unanswered '
                                  'status query the client kept opening '
                                  'connections instead of logging in once with'
                                  ' the default version', dict(
                                      w, connections=conns,
                                      status_queries=len(statuses)))
                elif not rec.exceptions and not (
                        len(logins) == 1 and
                        logins[0]['protocol'] == default_pv):
                    run.violation('eof/silent/status', 'neither an error nor '
                                  'the default-version fallback followed',
                                  dict(w, connections=conns))
                else:
                    run.count('status_fallbacks')
                    run.count('errors_reported')
            return 'ok', w
        if scenario == 'plain-status':
            if conns > 2:
                run.violation('eof/status-query-became-login', 'a plain '
                              'status query opened a further connection '
                              '(a login nobody asked for)',
                              dict(w, connections=conns, handshakes=hs[1:]))
            elif cut and not rec.exceptions:
                run.violation('eof/silent/plain-status', 'a plain status query'
                              ' whose reply was cut short reported no error',
                              dict(w, exits=rec.exits))
            elif not cut and (rec.exceptions or len(rec.statuses) != 1):
                run.violation('eof/complete-conversation-failed', 'complete '
                              'status reply, yet error or no status',
                              dict(w, exc=repr(rec.exceptions[:1])))
            elif cut:
                run.count('errors_reported')
                run.count('cuts.' + (phase or 'x'))
            return 'ok', w
        if cut:
            run.count('cuts.' + (phase or 'x'))
            if scenario == 'status':
                logins = [h for h in hs if h and h['next_state'] == 2]
                fell_back = conns >= 2 and len(logins) == 1 and \
                    logins[0]['protocol'] == default_pv
                if fell_back:
                    run.count('status_fallbacks')
                    # the fallback session (served completely) must be an
                    # ordinary one: nothing of the abandoned status connection
                    # may leak into it
                    fb = server.connections[1]
                    want = [e[0] for e in fb.frame_log]
                    got_fb = [type(p).__name__ for p in rec.packets
                              if type(p).__name__ != 'ResponsePacket']
                    if rec.exceptions or rec.exits != 1 or got_fb != want:
                        run.violation(
                            'eof/fallback-session-disturbed', 'the login that '
                            'follows an unanswered status query did not run as'
                            ' an ordinary session', dict(
                                w, exc=repr(rec.exceptions[:1]),
                                exits=rec.exits, delivered=got_fb[:6],
                                expected=want[:6]))
                if not (rec.exceptions or fell_back):
                    run.violation('eof/silent/status', 'neither an error nor '
                                  'the default-version fallback followed an '
                                  'unanswered status query',
                                  dict(w, connections=conns, exits=rec.exits))
            else:
                expected_conns = 2 if scenario == 'status-login' else 1
                if conns > expected_conns:
                    run.violation('eof/fallback-outside-status', 'a new '
                                  'connection was opened after end of stream '
                                  'outside the status phase',
                                  dict(w, connections=conns))
                if not rec.exceptions:
                    run.violation('eof/silent/%s' % phase, 'the stream ended '
                                  'before the conversation did and no error '
                                  'was reported', dict(w, exits=rec.exits))
                else:
                    run.count('errors_reported')
                    run.seen('error_types', type(rec.exceptions[0]).__name__)
        else:
            run.count('uncut')
            if not finished_clean:
                run.violation('eof/complete-conversation-failed', 'the whole '
                              'conversation was sent, yet the client reported '
                              'an error or no exit', dict(
                                  w, exc=repr(rec.exceptions[:1]),
                                  exits=rec.exits))
        # ---- delivered packets subset of completely sent frames ---------------
        if io is not None:
            complete = [e[0] for e in io.frame_log if e[2] <= (k if cut
                                                                else total)]
            delivered_all = [type(p).__name__ for p in rec.packets]
            # packets of the connection under cut: strip those of the other
            # (uncut) connection of two-connection scenarios
            if scenario == 'status-login':
                delivered = delivered_all[1:]      # after the ResponsePacket
            elif scenario == 'status':
                delivered = delivered_all[:1] if delivered_all[:1] == \
                    ['ResponsePacket'] else []
            else:
                delivered = delivered_all
            run.count('packets_delivered', len(delivered))
            if delivered != complete[:len(delivered)] or \
                    len(delivered) > len(complete):
                run.violation('eof/delivered-incomplete-packet', 'a packet the'
                              ' server did not send completely (or a wrong '
                              'one) was delivered to listeners',
                              dict(w, delivered=delivered, complete=complete))
            elif cut and len(delivered) < len(complete) and \
                    not (scenario == 'login-encrypted' and not abrupt and 0):
                run.count('complete_frames_not_delivered')
        return 'ok', w
    finally:
        if stack is not None:
            stack.close()
        server.stop()
        if conn is not None:
            pc.safe_disconnect(conn)


def high_descriptor_case(run, pv, hook_log, idx):
    """The process has many files open: the connection's descriptor number is
    above select()'s FD_SETSIZE.  Whatever the platform call makes of that, the
    outcome is one of the two the property allows - the session works, or an
    error is reported and the thread ends; a thread that stays, using CPU,
    without reporting anything is the spin verdict."""
    codec = codec_for(pv)
    state = {}

    def handler(io):
        hs = scripts.read_handshake(io)
        if hs is None:
            return
        try:
            scripts.login_offline(io, pv, None, codec)
            kid, kp = codec.encode('cb_keep_alive', {'id': 31})
            io.send_frame(kid, kp)
            fr = io.recv_frame(3.0)
            state['echo'] = fr is not None
        except Exception:
            pass
        if idx % 2:
            io.close(abrupt=False)
        else:
            # the server goes away inside a frame
            io.send_raw(b'\x20\x00\x01')
            io.half_close()
        try:
            io.wait_eof(6.0)
        except mcserver.ScriptTimeout:
            pass
    server = mcserver.Server(handler)
    rec = pc.Recorder()
    conn = None
    w = {'pv': pv, 'descriptor_at_least': 1100 + idx}
    try:
        conn = pc.make_connection(server.port, rec, allowed_versions={pv})
        conn.vf_min_fd = 1100 + idx
        try:
            conn.connect()
        except Exception as e:
            run.count('high_descriptor.connect_refused_by_platform')
            w['connect_raised'] = repr(e)
            return None
        done = False
        busy, cpu0 = 0, {}
        for _ in range(12):
            done = pc.wait_idle(conn, 1.0)
            if done:
                break
            hot = False
            for t in pc.threads_of(conn):
                c = pc.thread_cpu_seconds(t)
                if c is not None:
                    if c - cpu0.get(t, c) > 0.6:
                        hot = True
                    cpu0[t] = c
            busy = busy + 1 if hot else 0
            if busy >= 3:
                break
        run.count('high_descriptor_cases')
        if not done and busy >= 3:
            run.violation('eof/spin/high-descriptor', 'with a descriptor '
                          'number above FD_SETSIZE the networking thread kept '
                          'running at full speed, neither working nor '
                          'reporting anything',
                          dict(w, errors=repr(rec.exceptions[:1]),
                               fd=getattr(conn.socket, 'fileno', lambda: -1)()
                               if conn.socket is not None else None))
            return None
        if not done:
            return 'threads alive after watchdog (not spinning)'
        if not rec.exceptions and rec.exits < 1:
            run.violation('eof/silent/high-descriptor', 'the networking '
                          'thread ended without reporting an error and '
                          'without the exit callback', w)
        return None
    finally:
        server.stop()
        if conn is not None:
            pc.safe_disconnect(conn)


def refused_after_status_case(run, pv, default_pv, hook_log):
    """The server answers the negotiation's status query completely and is
    then gone: the login connection the client opens next is *refused*.  The
    failure arises inside the client's own reaction (which has just ended the
    status connection), and must be reported like any other."""
    from ..ref import core_packets as ref
    state = {}

    def handler(io):
        hs = scripts.read_handshake(io)
        state.setdefault('handshakes', []).append(hs)
        if io.recv_frame() is None:
            return
        # stop listening *before* the reply goes out: the client reconnects
        # as soon as it has read it
        io.server.refuse_from_now()
        io.send_frame(0x00, ref.encode_field('string', json.dumps(
            {'version': {'name': 'vf', 'protocol': pv},
             'description': {'text': 'x'}})))
        io.half_close()
        try:
            io.wait_eof(6.0)
        except mcserver.ScriptTimeout:
            state['client_never_closed'] = True
    server = mcserver.Server(handler)
    rec = pc.Recorder()
    w = {'scenario': 'status-then-refused', 'pv': pv}
    conn = None
    try:
        conn = pc.make_connection(server.port, rec,
                                  allowed_versions={pv, default_pv},
                                  initial_version=default_pv)
        del hook_log[:]
        conn.connect()
        if not pc.wait_idle(conn, 20.0):
            return None, 'threads alive: ' + pc.dump_threads()
        server.join(8.0)
        if [e for e in server.errors if e[1] == 'script']:
            return None, 'server script error %r' % (server.errors[:1],)
        run.count('refused_after_status')
        if len(server.connections) != 1:
            return None, 'the refusal did not take effect'
        if not rec.exceptions and not hook_log:
            run.violation('eof/silent/login-connect-refused', 'the login '
                          'connection that follows the status query was '
                          'refused and nothing was reported', dict(
                              w, exits=rec.exits))
        else:
            run.count('errors_reported')
        if state.get('client_never_closed'):
            run.violation('eof/transport-left-open', 'the status connection '
                          'was never closed', w)
        return 'ok', w
    finally:
        server.stop()
        if conn is not None:
            pc.safe_disconnect(conn)


def half_open_backlog_case(run, pv, hook_log):
    """The server ends its side of the stream (shutdown of its write side) but
    keeps the socket open and reads nothing more; a listener of the client has
    meanwhile queued more than the socket buffers hold.  The end of stream must
    still end the networking thread and be reported - nothing may wait for the
    queue to drain into a peer that will never read it."""
    from minecraft.networking.packets import clientbound, serverbound
    import threading as _th
    codec = codec_for(pv)
    release = _th.Event()
    half_closed = _th.Event()

    def handler(io):
        scripts.read_handshake(io)
        scripts.login_offline(io, pv, None, codec)
        io.send_frame(*codec.encode('cb_keep_alive', {'id': 5}))
        io.half_close()
        half_closed.set()
        release.wait(40.0)          # stays open, reads nothing
    server = mcserver.Server(handler)
    rec = pc.Recorder()
    w = {'scenario': 'half-open-with-backlog', 'pv': pv}
    conn = None
    try:
        conn = pc.make_connection(server.port, rec, allowed_versions={pv})
        conn.vf_sndbuf = 32768

        def pile_up(_p):
            blob = b'x' * 60000
            for i in range(120):                       # ~7 MB
                conn.write_packet(serverbound.play.PluginMessagePacket(
                    channel='vf:bulk', data=blob))
            # the end of the stream is there by the time this listener
            # returns, i.e. it is met in the same read batch (a client that
            # only notices it after it has started writing the backlog to a
            # peer that does not read is simply flow-controlled: outside the
            # statement)
            import time
            half_closed.wait(5.0)
            time.sleep(0.05)
        conn.register_packet_listener(pile_up,
                                      clientbound.play.KeepAlivePacket)
        del hook_log[:]
        conn.connect()
        done = pc.wait_idle(conn, 20.0)
        cpu = [pc.thread_cpu_seconds(t) for t in pc.threads_of(conn)]
        run.count('half_open_backlog_cases')
        if not done:
            run.violation('eof/blocks-forever', 'after the server had ended '
                          'its side of the stream (half-open, not reading) '
                          'the networking thread did not terminate: it is '
                          'blocked writing its backlog to a peer that will '
                          'never read it', dict(
                              w, reported=repr(rec.exceptions[:1]),
                              thread_cpu_s=cpu,
                              where=pc.dump_threads()[-700:]))
        elif not rec.exceptions and not hook_log:
            run.violation('eof/silent/half-open', 'the stream ended before '
                          'the conversation did and no error was reported',
                          dict(w, exits=rec.exits))
        else:
            run.count('errors_reported')
        return 'ok', w
    finally:
        release.set()
        server.stop()
        if conn is not None:
            pc.safe_disconnect(conn)


def second_connection_stalled_case(run, pv, hook_log):
    """Two Connection objects in one process.  B is stalled: its peer accepts
    and never reads while B has megabytes to write (its networking thread sits
    in a blocking send).  A's server stops in the middle of a frame.  A must
    still terminate and report - what B is doing is none of A's business."""
    from minecraft.networking import connection as C
    from minecraft.networking.packets import serverbound
    import threading as _th
    codec = codec_for(pv)
    release = _th.Event()
    state = {}

    def handler_b(io):
        scripts.read_handshake(io)
        scripts.login_offline(io, pv, None, codec)
        state['b_play'] = True
        release.wait(40.0)              # never reads again

    def handler_a(io):
        scripts.read_handshake(io)
        scripts.login_offline(io, pv, None, codec)
        state['a_play'] = True
        state['go'].wait(20.0)
        kid, kp = codec.encode('cb_keep_alive', {'id': 77})
        frame = io.encode_frame(kid, kp)
        io.send_raw(frame[:len(frame) - 2])          # stops inside the frame
        io.close()
    state['go'] = _th.Event()
    srv_a, srv_b = mcserver.Server(handler_a), mcserver.Server(handler_b)
    rec_a, rec_b = pc.Recorder(), pc.Recorder()
    a = b = None
    w = {'scenario': 'second-connection-stalled', 'pv': pv}
    try:
        b = pc.make_connection(srv_b.port, rec_b, allowed_versions={pv})
        b.vf_sndbuf = 32768
        a = pc.make_connection(srv_a.port, rec_a, allowed_versions={pv})
        b.connect()
        a.connect()
        if not pc.wait_for(lambda: state.get('a_play') and state.get('b_play')
                           and isinstance(a.reactor, C.PlayingReactor)
                           and isinstance(b.reactor, C.PlayingReactor), 10.0):
            return None, 'sessions never reached play'
        blob = b'x' * 30000
        for i in range(300):                             # ~9 MB for B
            b.write_packet(serverbound.play.PluginMessagePacket(
                channel='vf:bulk', data=blob))
        import time
        time.sleep(0.3)                 # B's thread is now blocked in send()
        del hook_log[:]
        state['go'].set()
        done = pc.wait_idle(a, 15.0)
        run.count('second_connection_stalled_cases')
        if not done:
            run.violation('eof/blocked-by-another-connection', 'the server of '
                          'connection A stopped inside a frame, but A\'s '
                          'networking thread neither terminated nor reported:'
                          ' it waits for something held by connection B, '
                          'which is stalled on its own peer', dict(
                              w, where=pc.dump_threads()[-900:]))
        elif not rec_a.exceptions and not hook_log:
            run.violation('eof/silent/second-connection-stalled', 'the stream '
                          'ended inside a frame and no error was reported',
                          dict(w, exits=rec_a.exits))
        else:
            run.count('errors_reported')
        return 'ok', w
    finally:
        release.set()
        for io in list(srv_b.connections):
            io.close(abrupt=True)
        srv_a.stop()
        srv_b.stop()
        for c in (a, b):
            if c is not None:
                pc.safe_disconnect(c)


def forced_write_after_close_case(run, pv, hook_log):
    """The server sends a complete packet and closes; the client first
    notices through a *forced write made inside a listener*, which fails.  That
    is an error like any other end of the conversation: it must be reported,
    not turned into an orderly exit."""
    from minecraft.networking.packets import clientbound, serverbound
    import threading as _th
    import time
    codec = codec_for(pv)
    closed = _th.Event()

    def handler(io):
        scripts.read_handshake(io)
        scripts.login_offline(io, pv, None, codec)
        io.send_frame(*codec.encode('cb_keep_alive', {'id': 5}))
        time.sleep(0.05)
        io.close()
        closed.set()
    server = mcserver.Server(handler)
    rec = pc.Recorder()
    w = {'scenario': 'forced-write-after-close', 'pv': pv}
    conn = None
    try:
        conn = pc.make_connection(server.port, rec, allowed_versions={pv},
                                  early_listener=False)
        raised = []

        def answer_urgently(_p):
            closed.wait(5.0)
            time.sleep(0.03)
            try:
                for i in range(4):       # the first provokes the reset, ...
                    conn.write_packet(serverbound.play.ChatPacket(
                        message='urgent %d' % i), force=True)
                    time.sleep(0.01)
            except Exception as e:
                raised.append(e)
                raise
        conn.register_packet_listener(answer_urgently,
                                      clientbound.play.KeepAlivePacket)
        del hook_log[:]
        conn.connect()
        if not pc.wait_idle(conn, 20.0):
            return None, 'threads alive: ' + pc.dump_threads()
        server.join(8.0)
        run.count('forced_write_after_close_cases')
        w['write_error'] = repr(raised[:1])
        if not raised:
            run.count('forced_write_after_close.write_did_not_fail')
            return 'ok', w
        if not rec.exceptions and not hook_log:
            run.violation('eof/silent/forced-write-after-close', 'the server '
                          'had closed; the forced write that noticed it '
                          'failed, and nothing was reported (exit callback '
                          'ran %d times)' % rec.exits, w)
        else:
            run.count('errors_reported')
        return 'ok', w
    finally:
        server.stop()
        if conn is not None:
            pc.safe_disconnect(conn)


def run(run):
    thorough = run.tier == 'thorough'
    run.level = 'fault_enumeration'
    run.rule = ('fault = the server stops after exactly k wire bytes of a '
                'reference conversation and closes (graceful FIN%s). 5 '
                'conversations (status; status-then-login; login+compression+'
                'play; login+encryption+compression+play; plain play) x %s. '
                'Distinct = (conversation, version, k, close mode); '
                'non-trivial when k is smaller than the conversation length.'
                % (' and abrupt RST' if thorough else '',
                   'every offset 0..N x 7 versions' if thorough else
                   'every offset 0..N at one version'))
    run.assumptions = ['a bound of 3 empty reads after end of stream stands '
                       'for "bounded I/O steps" (the monitor\'s failpoint '
                       'stops a spinning thread at 50)', 'wall-clock watchdog '
                       '(20 s) firing = inconclusive']
    hook_log = []
    old_hook = threading.excepthook

    def hook(args):
        hook_log.append('%s: %s' % (args.exc_type.__name__, args.exc_value))
    threading.excepthook = hook
    rng = run.rng('c15')
    rng_bytes = bytes(rng.getrandbits(8) for _ in range(64))
    versions = [(757, 754), (340, 338), (47, 107), (404, 393), (578, 575),
                (736, 735), (110, 109)] if thorough else [(757, 754)]
    try:
        n = 0
        for vi, (pv, default_pv) in enumerate(versions):
            if run.mine(900000 + vi):
                res = None
                for attempt in range(3):
                    res, info = refused_after_status_case(run, pv, default_pv,
                                                          hook_log)
                    if res is not None:
                        break
                run.case(('status-then-refused', pv))
                if res is None:
                    run.inconclusive_because('status-then-refused@%d: %s'
                                             % (pv, info))
        for vi, (pv, default_pv) in enumerate(versions):
            for fi, fn in enumerate((half_open_backlog_case,
                                     forced_write_after_close_case,
                                     second_connection_stalled_case)):
                if not run.mine(910000 + 3 * vi + fi):
                    continue
                res = None
                for attempt in range(2):
                    res, info = fn(run, pv, hook_log)
                    if res is not None:
                        break
                run.case((fn.__name__, pv))
                if res is None:
                    run.inconclusive_because('%s@%d: %s' % (fn.__name__, pv,
                                                            info))
        for k in range(8 if thorough else 2):
            if not run.mine(920000 + k):
                continue
            err = high_descriptor_case(run, versions[k % len(versions)][0],
                                       hook_log, k)
            run.case(('high-descriptor', k))
            if err:
                run.inconclusive_because('high descriptor %d: %s' % (k, err))
        for pv, default_pv in versions:
            for scenario in SCENARIOS:
                # dry run: total length and frame boundaries
                res, w = one_case(run, scenario, pv, default_pv, 10 ** 9,
                                  False, rng_bytes, hook_log)
                if res is None:
                    run.inconclusive_because('dry run of %s@%d: %s'
                                             % (scenario, pv, w))
                    continue
                total = w['sent']
                run.extra.setdefault('stream_lengths', {})[
                    '%s@%d' % (scenario, pv)] = total
                offsets = list(range(-1, total + 1))     # every crash point
                # ... except inside very long frames: there the first bytes
                # (length prefix and id), the last ones and a sample
                skip = set()
                for a_, b_ in w.get('frames', ()):
                    if b_ - a_ > 2000:
                        keep = set(range(a_, a_ + 8)) | \
                            set(range(b_ - 3, b_ + 1)) | \
                            {a_ + (b_ - a_) * j // 11 for j in range(1, 11)}
                        skip |= set(range(a_, b_)) - keep
                offsets = [k for k in offsets if k not in skip]
                # (-1 = the peer closes right after accepting)
                bounds = set(w.get('boundaries', ()))
                for k in offsets:
                    # a reset instead of an orderly close: everywhere in
                    # thorough; at frame boundaries (the reader is then waiting
                    # between frames) and a sample of other offsets in quick
                    modes = (False, True) if (
                        thorough or k in bounds or k % 9 == 0) else (False,)
                    for abrupt in modes:
                        # (the shard of a case must not depend on a running
                        # count: stream lengths measured by the dry runs may
                        # differ by a byte or two between processes)
                        n = zlib.crc32(repr((scenario, pv, k,
                                             abrupt)).encode())
                        if not run.mine(n):
                            continue
                        res = None
                        for attempt in range(3):
                            res, w = one_case(run, scenario, pv, default_pv, k,
                                              abrupt, rng_bytes, hook_log)
                            if res is not None:
                                break
                        run.case((scenario, pv, k, abrupt),
                                 nontrivial=k < total)
                        run.seen('scenarios', scenario)
                        if res is None:
                            run.inconclusive_because(
                                '%s@%d cut %d: %s' % (scenario, pv, k, w))
                        elif len(run.samples) < 4 and k in (5, 40, 100):
                            run.sample(w)
    finally:
        threading.excepthook = old_hook
    run.require('scenarios', 9)
    run.require('errors_reported', 20)
    run.require('cuts.inside-frame', 10)
    run.require('cuts.frame-boundary', 20)
    run.require('cuts_with_reset', 10)
    run.require('refused_after_status', 1)
    run.require('half_open_backlog_cases', 1)
    run.require('second_connection_stalled_cases', 1)
    run.require('forced_write_after_close_cases', 1)
