"""Helper for C06: prints, as JSON, every packet table and every reactor's
id->class dict of every supported version, in a fresh interpreter - which the
caller starts in the interpreter mode under test (plain, -O, -OO).  The tables
are a matter of the protocol, not of how the interpreter was started."""
import json
import sys

from .. import core


class _StubConnection(object):
    def __init__(self, context):
        self.context = context


def main():
    minecraft = core.load_repo()
    from minecraft.networking import connection as C
    from minecraft.networking.packets import clientbound, serverbound
    tables = [('cb/handshake', clientbound.handshake),
              ('cb/status', clientbound.status),
              ('cb/login', clientbound.login), ('cb/play', clientbound.play),
              ('sb/handshake', serverbound.handshake),
              ('sb/status', serverbound.status),
              ('sb/login', serverbound.login), ('sb/play', serverbound.play)]
    reactors = [C.PacketReactor, C.LoginReactor, C.PlayingReactor,
                C.StatusReactor, C.PlayingStatusReactor]
    out = {'optimize': sys.flags.optimize}
    for pv in minecraft.SUPPORTED_PROTOCOL_VERSIONS:
        ctx = C.ConnectionContext(protocol_version=pv)
        for label, mod in tables:
            out['%d %s' % (pv, label)] = sorted(
                '%s=%r' % (k.__qualname__, k.get_id(ctx))
                for k in mod.get_packets(ctx))
        for R in reactors:
            table = R(_StubConnection(ctx)).clientbound_packets
            out['%d reactor %s' % (pv, R.__name__)] = sorted(
                '%r=%s' % (i, k.__qualname__) for i, k in table.items())
    json.dump(out, sys.stdout)


if __name__ == '__main__':
    main()
