"""C06 - per-version packet id tables are total and injective.

Complete enumeration (by calling the real get_packets/get_id and by building
the real reactors' id->class dicts) over every supported protocol version x 4
states x 2 directions.  The remaining known versions are reported, not judged.
"""
SHARDS = {'quick': 1, 'thorough': 1}


class _StubConnection(object):
    def __init__(self, context):
        self.context = context


def run(run):
    import minecraft
    from minecraft.networking import connection as C
    from minecraft.networking.packets import clientbound, serverbound
    run.level = 'exploration'
    run.exhaustive = True
    tables = [
        ('cb', 'handshake', clientbound.handshake.get_packets),
        ('cb', 'status', clientbound.status.get_packets),
        ('cb', 'login', clientbound.login.get_packets),
        ('cb', 'play', clientbound.play.get_packets),
        ('sb', 'handshake', serverbound.handshake.get_packets),
        ('sb', 'status', serverbound.status.get_packets),
        ('sb', 'login', serverbound.login.get_packets),
        ('sb', 'play', serverbound.play.get_packets),
    ]
    reactors = [('handshake', C.PacketReactor), ('login', C.LoginReactor),
                ('play', C.PlayingReactor), ('status', C.StatusReactor),
                ('status', C.PlayingStatusReactor)]
    supported = list(minecraft.SUPPORTED_PROTOCOL_VERSIONS)
    known = list(minecraft.KNOWN_PROTOCOL_VERSIONS)
    run.rule = ('every supported protocol version (%d) x 4 states x 2 '
                'directions: get_packets(context) then get_id(context) of every'
                ' registered class, plus the id->class dict the real reactor '
                'builds; exhaustive. A (version, table) pair is non-trivial if'
                ' the table is non-empty. Unsupported known versions (%d) are '
                'only reported. All tables are then re-read newest-first, '
                'shuffled and alternating old/new and must not change.'
                % (len(supported), len(known) - len(supported)))
    run.assumptions = ['supported versions = minecraft.SUPPORTED_PROTOCOL_'
                       'VERSIONS of the tree under test']
    # ---- reactors built by several threads at once ----------------------------
    # (done first: whatever is memoised per process must be seen while it is
    # being built, not after the sequential sweep below has completed it)
    rng = run.rng('orders')
    # (each connection builds its reactor in whatever thread calls connect();
    # a table shared between them must never be observed half-built)
    import sys
    import threading
    from ..probes.linemon import LineMonitor
    expect = {}
    for pv in supported:
        ctx = C.ConnectionContext(protocol_version=pv)
        for state, R in reactors:
            expect[(R, pv)] = {k.get_id(ctx): k
                               for k in R.get_clientbound_packets(ctx)}
    problems = []
    jobs = [(R, pv) for pv in rng.sample(supported, 24) for _s, R in reactors
            if R is not C.PacketReactor]

    def builder(seed):
        import random
        r = random.Random(seed)
        mine = list(jobs)
        r.shuffle(mine)
        for R, pv in mine:
            ctx = C.ConnectionContext(protocol_version=pv)
            try:
                table = R(_StubConnection(ctx)).clientbound_packets
            except Exception as e:
                problems.append((R.__name__, pv, repr(e)))
                continue
            want = expect[(R, pv)]
            if len(want) == len({k for k in
                                 R.get_clientbound_packets(ctx)}) and \
                    dict(table) != want:
                problems.append((R.__name__, pv, 'table has %d entries, '
                                 'expected %d' % (len(table), len(want))))
    old_si = sys.getswitchinterval()
    sys.setswitchinterval(1e-6)
    try:
        with LineMonitor(files=['minecraft/networking/connection.py'],
                         yield_prob=0.2, seed=run.seed) as mon:
            ts = [threading.Thread(target=builder, args=(i,))
                  for i in range(4)]
            for t in ts:
                t.start()
            for t in ts:
                t.join(120.0)
            run.count('concurrent_reactor_builds', 4 * len(jobs))
            run.count('concurrent_reactor_yields', mon.yields)
    finally:
        sys.setswitchinterval(old_si)
    run.bulk(4 * len(jobs), 0)
    # ---- the module tables queried by several threads at once -----------------
    # (every connection asks get_id() of the classes it writes, in whatever
    # thread writes; threads working for different versions must each get
    # their own version's answer, also with a pre-emption between any two
    # statements of the table code)
    expect_ids = {}
    for pv in supported:
        ctx = C.ConnectionContext(protocol_version=pv)
        for direction, state, get_packets in tables:
            expect_ids[(pv, direction, state)] = sorted(
                (k.__qualname__, k.get_id(ctx)) for k in get_packets(ctx))
    qproblems = []
    qpairs = [(supported[0], supported[-1])] + \
        [tuple(rng.sample(supported, 2)) for _ in range(3)]

    def querier(pv, rounds):
        ctx = C.ConnectionContext(protocol_version=pv)
        for _ in range(rounds):
            for direction, state, get_packets in tables:
                try:
                    got = sorted((k.__qualname__, k.get_id(ctx))
                                 for k in get_packets(ctx))
                except Exception as e:
                    got = repr(e)
                if got != expect_ids[(pv, direction, state)]:
                    qproblems.append({
                        'pv': pv, 'table': '%s/%s' % (direction, state),
                        'got': [g for g in got if g not in
                                expect_ids[(pv, direction, state)]][:4]
                        if isinstance(got, list) else got})
                    return
    sys.setswitchinterval(1e-6)
    try:
        with LineMonitor(yield_prob=0.25, seed=run.seed) as mon:
            for pva, pvb in qpairs:
                ts = [threading.Thread(target=querier, args=(pva, 6)),
                      threading.Thread(target=querier, args=(pvb, 6)),
                      threading.Thread(target=querier, args=(pva, 6))]
                for t in ts:
                    t.start()
                for t in ts:
                    t.join(120.0)
                run.count('concurrent_table_queries', 3 * 6 * len(tables))
            run.count('concurrent_table_query_yields', mon.yields)
    finally:
        sys.setswitchinterval(old_si)
    # the same question decided systematically for get_id(): for every
    # registered class of the play tables and a pair of versions at which its
    # id differs, thread A's call is stopped at each of its statements in
    # turn while thread B asks for the other version
    from ..probes.linemon import PreemptEverywhere
    from .. import core
    pe_files = set()
    pe_cases = []
    for direction, state, get_packets in tables:
        if state != 'play':
            continue
        by_class = {}
        for pv in supported:
            ctx = C.ConnectionContext(protocol_version=pv)
            for k in get_packets(ctx):
                by_class.setdefault(k, {})[pv] = k.get_id(ctx)
        for k, ids in sorted(by_class.items(),
                             key=lambda kv: kv[0].__qualname__):
            pvs = sorted(ids, key=supported.index)
            other = next((p for p in pvs[::-1] if ids[p] != ids[pvs[0]]),
                         None)
            if other is not None:
                pe_cases.append((k, pvs[0], other, ids))
                fn = sys.modules[k.__module__].__file__
                pe_files.add(fn[len(core.REPO) + 1:])
    pe_files |= {'minecraft/networking/connection.py', 'minecraft/utility.py',
                 'minecraft/networking/packets/packet.py'}
    pe = PreemptEverywhere(sorted(pe_files), max_k=60)
    for k, pva, pvb, ids in pe_cases:
        ca = C.ConnectionContext(protocol_version=pva)
        cb_ = C.ConnectionContext(protocol_version=pvb)

        def judge(kk, ra, rb, k=k, pva=pva, pvb=pvb, ids=ids):
            after = k.get_id(C.ConnectionContext(protocol_version=pvb))
            if ra != ('ok', ids[pva]) or rb != ('ok', ids[pvb]) or \
                    after != ids[pvb]:
                return {'class': k.__qualname__, 'stopped_after_statements':
                        kk, 'thread_a': (pva, repr(ra)),
                        'thread_b': (pvb, repr(rb)), 'asked_again': after,
                        'sequential': (ids[pva], ids[pvb])}
        wit = pe.run(lambda: k.get_id(ca), lambda: k.get_id(cb_), judge)
        run.count('get_id_classes_preempted_everywhere')
        if wit:
            run.violation('table/concurrent-queries/get_id', 'get_id() of a '
                          'class, asked by two threads for two versions with '
                          'one switch between two statements, gave a wrong '
                          'answer (or left one behind)', wit)
            break
    run.count('get_id_preemption_points', pe.points)
    # ---- the instance's id and the class table agree, whatever the history ----
    # (packet.id is what write() puts on the wire: a packet object asked for
    # its id under one version of a context object and asked again after that
    # *same* context object has been given another version - what connect()
    # does during negotiation - answers for the current version)
    from minecraft.networking.packets import PacketBuffer
    from ..ref import varint as _rv
    for k, pva, pvb, ids in pe_cases:
        ctx = C.ConnectionContext(protocol_version=pva)
        try:
            p = k(context=ctx)
            first = p.id
            repr(p)
            ctx.protocol_version = pvb
            second = p.id
            ctx.protocol_version = pva
            third = p.id
        except Exception as e:
            first = second = third = repr(e)
        run.count('instance_ids_after_context_reassignment')
        if (first, second, third) != (ids[pva], ids[pvb], ids[pva]):
            run.violation('instance-id/stale-after-context-reassignment',
                          'packet.id of an instance disagrees with the class '
                          'table after the version of its context object was '
                          'reassigned', {'class': k.__qualname__,
                                         'versions': (pva, pvb, pva),
                                         'instance_ids': (first, second,
                                                          third),
                                         'table_ids': (ids[pva], ids[pvb],
                                                       ids[pva])})
            break
    if qproblems:
        run.violation('table/concurrent-queries', 'a thread querying the '
                      'tables for its version got another answer than a '
                      'sequential query gives, while other threads queried '
                      'them for another version', qproblems[0])
    if problems:
        run.violation('reactor-dict/concurrent-build', 'a reactor built while '
                      'another thread was building one got an incomplete or '
                      'wrong id table', {'first': problems[0],
                                         'count': len(problems)})
    unsupported_report = []
    ids_checked = 0
    for pv in known:
        judged = pv in supported
        ctx = C.ConnectionContext(protocol_version=pv)
        for direction, state, get_packets in tables:
            try:
                classes = sorted(get_packets(ctx),
                                 key=lambda k: (k.__module__, k.__qualname__))
            except Exception as e:
                if judged:
                    run.violation('get_packets-raised/%s/%s' % (direction,
                                                                state),
                                  'get_packets raised', {'pv': pv,
                                                         'error': repr(e)})
                continue
            if judged:
                run.case((pv, direction, state), nontrivial=bool(classes))
            by_id = {}
            for k in classes:
                try:
                    pid = k.get_id(ctx)
                except Exception as e:
                    pid = e
                ids_checked += judged
                if not isinstance(pid, int) or isinstance(pid, bool) \
                        or pid < 0:
                    if judged:
                        run.violation(
                            'bad-id/%s/%s/pv=%d/%s' % (direction, state, pv,
                                                       k.__name__),
                            'registered class has no non-negative integer id',
                            {'pv': pv, 'class': k.__qualname__,
                             'id': repr(pid)})
                    continue
                by_id.setdefault(pid, []).append(k)
            for pid, ks in sorted(by_id.items()):
                if len(ks) > 1:
                    names = '+'.join(sorted(k.__name__ for k in ks))
                    key = 'collision/%s/%s/pv=%d/id=0x%02X/%s' % (
                        direction, state, pv, pid, names)
                    if judged:
                        run.violation(key, 'two registered classes share a '
                                      'packet id', {'pv': pv, 'id': pid,
                                                    'classes': names})
                    else:
                        unsupported_report.append(key)
        if not judged:
            continue
        for state, R in reactors:
            try:
                reactor = R(_StubConnection(ctx))
            except Exception as e:
                run.violation('reactor-init/%s' % R.__name__,
                              'reactor construction raised',
                              {'pv': pv, 'error': repr(e)})
                continue
            registered = R.get_clientbound_packets(ctx)
            table = reactor.clientbound_packets
            run.count('reactor_dicts_inspected')
            for pid, k in table.items():
                if k.get_id(ctx) != pid:
                    run.violation('reactor-dict/wrong-class/%s' % R.__name__,
                                  'dict maps an id to a class with another id',
                                  {'pv': pv, 'id': pid, 'class': k.__name__})
            if len(table) != len(registered):
                lost = sorted(k.__name__ for k in registered
                              if table.get(k.get_id(ctx)) is not k)
                # key by the contested ids: which class is dropped depends on
                # set iteration order and is not part of the mechanism
                ids = sorted({k.get_id(ctx) for k in registered
                              if table.get(k.get_id(ctx)) is not k})
                run.violation(
                    'reactor-dict/lost/%s/pv=%d/id=%s' % (
                        R.__name__, pv, '+'.join('0x%02X' % i for i in ids)),
                    'reactor dict has fewer entries than registered classes '
                    '(one decoder silently dropped; which one depends on set '
                    'order)', {'pv': pv, 'dropped_or_shadowed': lost})
    run.count('ids_checked', ids_checked)

    # ---- the tables must not depend on the history of earlier calls ----------
    # (first pass above was chronological; now newest-first, then shuffled, and
    # each table is compared with what the first pass saw for that version)
    def table_of(pv, get_packets):
        ctx = C.ConnectionContext(protocol_version=pv)
        out = []
        for k in get_packets(ctx):
            try:
                out.append((k.__module__ + '.' + k.__qualname__,
                            k.get_id(ctx)))
            except Exception as e:
                out.append((k.__qualname__, repr(e)))
        return sorted(out, key=repr)
    rng = run.rng('orders')
    passes = {'newest-first': list(reversed(supported)),
              'shuffled': rng.sample(supported, len(supported)),
              'alternating': [v for pair in zip(
                  supported, reversed(supported)) for v in pair]}
    # compare all call orders with each other: any disagreement means history
    # dependence
    seen_tables = {}
    for label, order in [('oldest-first', supported)] + sorted(passes.items()):
        for pv in order:
            for direction, state, get_packets in tables:
                t = table_of(pv, get_packets)
                run.count('history_table_reads')
                key = (pv, direction, state)
                prev = seen_tables.setdefault(key, (label, t))
                ids = [i for _n, i in t]
                dup = sorted({i for i in ids if ids.count(i) > 1},
                             key=repr)
                new_collision = dup and not any(
                    kk.startswith('collision/%s/%s/pv=%d/' % (direction, state,
                                                              pv))
                    for kk in run.violations)
                if prev[1] != t or new_collision:
                    run.violation(
                        'table/history-dependent/%s/%s' % (direction, state),
                        'the packet table of a version depends on which '
                        'versions were queried before (call order %s vs %s)'
                        % (prev[0], label),
                        {'pv': pv, 'before': prev[1][:8], 'now': t[:8],
                         'colliding_ids': dup})
                    break
    run.sample({'pv': 757, 'cb/play': {
        k.__name__: k.get_id(C.ConnectionContext(protocol_version=757))
        for k in sorted(clientbound.play.get_packets(
            C.ConnectionContext(protocol_version=757)),
            key=lambda k: k.__name__)}})
    # ---- interpreter modes ------------------------------------------------------
    # (the same tables and reactor dicts in fresh interpreters started plain,
    # with -O and with -OO: nothing about a protocol table may hang on an
    # assert statement or a docstring)
    import json
    import subprocess
    from .. import core
    snaps = {}
    for flag in ('', '-O', '-OO'):
        cmd = [sys.executable] + ([flag] if flag else []) + \
            ['-m', 'vf.checks.c06_snapshot']
        pr = subprocess.run(cmd, cwd=core.VERIF_DIR, stdout=subprocess.PIPE,
                            stderr=subprocess.PIPE, timeout=300)
        if pr.returncode:
            if flag:
                run.violation('table/interpreter-mode/raised', 'building the '
                              'tables raised in an interpreter started with '
                              + flag, {'stderr': pr.stderr.decode()[-400:]})
            else:
                run.inconclusive_because('table snapshot failed: %s'
                                         % pr.stderr.decode()[-300:])
            continue
        snaps[flag] = json.loads(pr.stdout.decode())
    for flag in ('-O', '-OO'):
        if '' in snaps and flag in snaps:
            run.count('interpreter_mode_tables_compared', len(snaps['']) - 1)
            assert snaps[flag]['optimize'] == len(flag) - 1
            # (at an id two classes share - the recorded finding - which of
            # them a reactor's dict holds depends on set order, i.e. on the
            # process: those entries are left out of the comparison)
            def contested(pv):
                ids = set()
                for k, rows in snaps[''].items():
                    if k.startswith(pv + ' cb/'):
                        seen_ids = [r.split('=')[1] for r in rows]
                        ids |= {i for i in seen_ids if seen_ids.count(i) > 1}
                return ids

            def norm(k, rows):
                if ' reactor ' not in k:
                    return rows
                bad = contested(k.split(' ')[0])
                return [r for r in rows if r.split('=')[0] not in bad]
            diff = [k for k in snaps[''] if k != 'optimize'
                    and norm(k, snaps[''][k]) != norm(k, snaps[flag].get(k,
                                                                        []))]
            if diff:
                run.violation('table/interpreter-mode', 'a packet table or a '
                              'reactor\'s id->class dict differs when the '
                              'interpreter is started with ' + flag,
                              {'first': diff[0], 'plain': snaps[''][diff[0]][:5],
                               'optimized': snaps[flag].get(diff[0], [])[:5],
                               'tables_differing': len(diff)})
    # ---- context objects with a history: reassigned, copied -------------------
    # (Connection.connect() reassigns context.protocol_version; user code may
    # copy a context to describe a second peer.  What a table says for a
    # context depends on its current version only.)
    import copy

    def table_for(ctx, get_packets):
        out = []
        for k in get_packets(ctx):
            try:
                out.append((k.__module__ + '.' + k.__qualname__,
                            k.get_id(ctx)))
            except Exception as e:
                out.append((k.__qualname__, repr(e)))
        return sorted(out, key=repr)

    def judge_ctx(ctx, pv, how):
        for direction, state, get_packets in tables:
            try:
                t = table_for(ctx, get_packets)
            except Exception as e:
                t = [('raised', repr(e))]
            run.count('context_history_table_reads')
            want = seen_tables[(pv, direction, state)][1]
            if t != want:
                run.violation(
                    'table/context-history/%s' % how,
                    'the packet table read through a context object with a '
                    'history (%s) differs from the one a fresh context of the '
                    'same version gives' % how,
                    {'pv': pv, 'table': '%s/%s' % (direction, state),
                     'fresh': want[:6], 'now': t[:6]})
                return False
        return True
    reused = C.ConnectionContext(protocol_version=supported[0])
    judge_ctx(reused, supported[0], 'reassigned')
    for pv in rng.sample(supported, 12):
        reused.protocol_version = pv
        if not judge_ctx(reused, pv, 'reassigned'):
            break
    for copier, how in ((copy.copy, 'copied'), (copy.deepcopy, 'deep-copied')):
        for pva, pvb in [rng.sample(supported, 2) for _ in range(8)] + \
                [(supported[0], supported[-1]), (supported[-1], supported[0])]:
            orig = C.ConnectionContext(protocol_version=pva)
            # (the original is queried before the copy is taken, so whatever it
            # remembers is there to be shared)
            ok = judge_ctx(orig, pva, 'fresh')
            twin = copier(orig)
            twin.protocol_version = pvb
            ok = ok and judge_ctx(twin, pvb, how) and \
                judge_ctx(orig, pva, 'original-after-copy-changed') and \
                judge_ctx(twin, pvb, how)
            if not ok:
                break

    # ---- user code in the process: subclasses of library packet classes ------
    # (a program may subclass any packet class for its own purposes, e.g. to
    # add helpers; merely defining the subclass must not register it)
    every = set()
    for pv in supported:
        ctx = C.ConnectionContext(protocol_version=pv)
        for _d, _s, get_packets in tables:
            every |= set(get_packets(ctx))
    bases = set(every)
    for k in every:
        for b in k.__mro__[1:]:
            if b.__module__.startswith('minecraft.') and b is not object:
                bases.add(b)
    user_classes = []
    for k in sorted(bases, key=lambda k: (k.__module__, k.__qualname__)):
        try:
            user_classes.append(type('User' + k.__name__, (k,),
                                     {'__module__': 'user_program'}))
        except Exception as e:
            run.extra.setdefault('unsubclassable', []).append(
                '%s: %r' % (k.__qualname__, e))
    run.count('user_subclasses_defined', len(user_classes))
    bad = None
    for pv in supported:
        for direction, state, get_packets in tables:
            t = table_of(pv, get_packets)
            run.count('tables_read_after_user_subclasses')
            want = seen_tables[(pv, direction, state)][1]
            if t != want and bad is None:
                bad = {'pv': pv, 'table': '%s/%s' % (direction, state),
                       'appeared': [n for n in t if n not in want][:6],
                       'vanished': [n for n in want if n not in t][:6]}
    if bad:
        run.violation('table/user-subclass-registered', 'defining a subclass '
                      'of a library packet class in the user program changed '
                      'a packet table', bad)
    del user_classes[:]
    run.extra['unsupported_versions_reported'] = unsupported_report[:50]
    run.extra['supported_versions'] = len(supported)
    run.require('ids_checked', 5000)
    run.require('reactor_dicts_inspected', 1000)
    run.require('history_table_reads', 5000)
    run.require('context_history_table_reads', 200)
    run.require('interpreter_mode_tables_compared', 2000)
    run.require('user_subclasses_defined', 50)
    run.require('tables_read_after_user_subclasses', 500)
    run.require('concurrent_reactor_builds', 100)
    run.require('concurrent_table_queries', 100)
    run.require('get_id_preemption_points', 100)
