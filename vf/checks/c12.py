"""C12 - concurrent writers: every packet hits the wire once, whole and in order.

Two engines drive the real Connection in play state against the independent
server (plain, compressed, encrypted+compressed), 1-3 user threads issuing
queued writes, forced writes and a final (immediate or flushing) disconnect:

 * baton engine: the write lock, the socket, the outgoing queue and the
   networking thread's select are replaced by proxies whose every operation is
   a yield point of a serialising scheduler (vf.probes.baton); small scenarios
   are explored exhaustively up to a pre-emption bound, larger ones by seeded
   random walks; a schedule is a replayable decision list;
 * stress engine: free-running threads, sys.setswitchinterval(1e-6), yields
   between the two sends of a frame and sys.monitoring line-level yield
   injection in connection.py / packet.py.

Oracle (history checker over the server's byte stream and the client-boundary
call log on one logical clock): stream parses into well-formed frames; every
frame carries one of the unique payloads handed in; none twice; queued payloads
of one thread in order; every write that returned before a flushing disconnect
was invoked is present at EOF; nothing is sent after an immediate disconnect
returned; the socket is closed afterwards.
"""
import sys
import threading
import time

from ..probes import baton
from ..probes import client as pc
from ..probes.linemon import LineMonitor
from ..server import mcserver, scripts
from ..server.codec import codec_for

SHARDS = {'quick': 8, 'thorough': 16}
PV = 757


def server_handler(mode, state):
    codec = codec_for(PV)

    def handler(io):
        if io.index >= 1:
            # the same object connects again after the scenario: its first
            # frames must be a fresh handshake and login start, and nothing
            # handed to the *previous* connection may show up here
            state['second_stage'] = 'accepted'
            scripts.read_handshake(io)
            state['second_stage'] = 'handshake'
            scripts.login_offline(io, PV, None, codec)
            state['second_stage'] = 'login'
            did, dp = codec.encode('play_disconnect', {'reason': '"again"'})
            io.send_frame(did, dp)
            io.half_close()
            later = []
            for fr in io.drain(8.0):
                name, vals = codec.decode('play', fr[0], fr[1])
                later.append(vals.get('message') if name == 'sb_chat'
                             else '<%s>' % name)
            state['second_connection'] = later
            return
        scripts.read_handshake(io)
        io.recv_frame()
        if mode == 'encrypted':
            scripts.encryption_exchange(io, codec)
        if mode in ('compressed', 'encrypted'):
            th = state['threshold']
            cid, cp = codec.encode('set_compression', {'threshold': th})
            io.send_frame(cid, cp)
            io.enable_compression(th)
        scripts.send_login_success(io, PV, codec)
        if state.get('burst'):
            # the networking thread is a queuing party too: a burst of
            # teleports and keep-alives, whose answers it queues itself
            buf = bytearray()
            for kind, v in state['burst']:
                if kind == 'tc':
                    buf += io.encode_frame(*codec.encode('cb_position_look', {
                        'x': 1.0, 'y': 2.0, 'z': 3.0, 'yaw': 0.0, 'pitch': 0.0,
                        'flags': 0, 'teleport_id': v, 'dismount': False}))
                else:
                    buf += io.encode_frame(*codec.encode('cb_keep_alive',
                                                         {'id': v}))
            if state.get('burst_gate') is not None:
                # (sent later, when the test opens the gate)
                def later(buf=bytes(buf)):
                    state['burst_gate'].wait(10.0)
                    try:
                        io.send_raw(buf)
                    except Exception:
                        pass
                threading.Thread(target=later, daemon=True).start()
            else:
                io.send_raw(bytes(buf))
        state['in_play'] = True
        msgs = []
        state['msgs'] = msgs
        state['replies'] = []
        while True:
            fr = io.recv_frame(15.0)
            if fr is None:
                break
            name, vals = codec.decode('play', fr[0], fr[1])
            if name == 'sb_chat':
                msgs.append(vals['message'])
            elif name == 'teleport_confirm' and state.get('burst'):
                state['replies'].append(('tc', vals['teleport_id']))
            elif name == 'sb_keep_alive' and state.get('burst'):
                state['replies'].append(('ka', vals['id']))
            else:
                msgs.append('<%s id=%d>' % (name, fr[0]))
        state['eof'] = True
        state['partial'] = io.partial_at_eof
    return handler


def user_ops(conn, log, lock, ops, final, i, make_packet=None):
    """The calls one user thread makes; every call is logged before it is
    invoked and after it returned or raised, and after each one the thread
    must no longer own the write lock."""
    from minecraft.networking.packets import serverbound

    def after(op):
        if lock.held_by_me():
            log.emit('lock.leak', op=op, depth=lock.depth)
    for kind, msg in ops:
        if kind == 'x':
            # a forced write that fails half-way (no message set)
            log.emit('api.call', op='write', msg=msg, force=True, broken=True)
            try:
                conn.write_packet(serverbound.play.ChatPacket(), force=True)
                log.emit('api.ret', op='write', msg=msg)
            except Exception as e:
                log.emit('api.raise', op='write', msg=msg, exc=repr(e))
            after('forced write that raised')
            continue
        log.emit('api.call', op='write', msg=msg, force=kind == 'f')
        try:
            conn.write_packet(make_packet(msg) if make_packet else
                              serverbound.play.ChatPacket(message=msg),
                              force=kind == 'f')
            log.emit('api.ret', op='write', msg=msg)
        except Exception as e:
            log.emit('api.raise', op='write', msg=msg, exc=repr(e))
        after('write')
    if final[0] == i:
        log.emit('api.call', op='disconnect')
        try:
            conn.disconnect(immediate=final[1])
            log.emit('api.ret', op='disconnect')
        except Exception as e:
            log.emit('api.raise', op='disconnect', exc=repr(e))
        after('disconnect')


def lock_leaks(run, log, w, engine):
    leaks = [pl for _s, _r, kind, pl in log.events if kind == 'lock.leak']
    if leaks:
        run.violation('lock/held-after-call', 'a thread still owned the write '
                      'lock after an API call had returned or raised (every '
                      'other thread is locked out from then on)',
                      dict(w, engine=engine, after=leaks[0]))
    return bool(leaks)


def reconnect_probe(run, conn, state, server, threads, w, engine):
    """After an immediate disconnect the same object connects again."""
    try:
        conn.connect()
    except Exception as e:
        run.violation('reconnect/raised', 'connect() after the scenario '
                      'raised', dict(w, engine=engine, error=repr(e)))
        return
    if not pc.wait_idle(conn, 15.0):
        run.inconclusive_because('reconnect probe: threads alive')
        return
    server.join(10.0)
    run.count(engine + '.reconnect_probes')
    frame_errs = [e for e in server.errors if e[1] == 'frame']
    handed = {m for ops in threads for _k, m in ops}
    later = state.get('second_connection')
    if frame_errs or later is None:
        run.violation('wire/next-connection-malformed', 'the next connection '
                      'of the same object does not start with a well-formed '
                      'handshake and login start', dict(
                          w, engine=engine, error=(frame_errs or [[0, 0, (
                              'second connection never completed')]])[0][2],
                          server_errors=[e[1:] for e in server.errors][:3],
                          connections=len(server.connections),
                          stage=state.get('second_stage'),
                          alive=[t.is_alive() for t in server.threads],
                          threads=pc.dump_threads()[-1200:]))
    elif [m for m in later if m in handed]:
        run.violation('wire/stale-packet-on-next-connection', 'a payload '
                      'handed to the previous connection was sent on the next '
                      'one (an immediate disconnect sends nothing further)',
                      dict(w, engine=engine, stale=[m for m in later
                                                    if m in handed][:3]))


def judge(run, log, state, threads, final, server, w, engine):
    """History checker.  threads: list of op lists [('q'|'f', msg)];
    final: (thread index, immediate)."""
    def bad(key, what, **extra):
        run.violation(key, what, dict(w, engine=engine, **extra))
    frame_errs = [e for e in server.errors if e[1] == 'frame']
    if frame_errs:
        bad('wire/malformed', 'the byte stream received by the server does '
            'not parse into well-formed frames (torn or interleaved frame)',
            error=frame_errs[0][2])
        return
    if state.get('partial'):
        bad('wire/partial-frame', 'the stream ends inside a frame',
            leftover=state['partial'])
    if state.get('burst'):
        # answers queued by the networking thread itself: in arrival order
        rep_ = state.get('replies') or []
        run.count(engine + '.own_replies_checked', len(rep_))
        if rep_ != list(state['burst'])[:len(rep_)]:
            bad('wire/queue-order/networking-thread', 'the answers the '
                'networking thread queued for one burst of server packets '
                'left in another order', got=rep_[:8],
                expected=list(state['burst'])[:8])
    msgs = state.get('msgs')
    if msgs is None or not state.get('eof'):
        bad('wire/not-closed', 'the socket was not closed after disconnect()')
        return
    handed = {m for ops in threads for k, m in ops if k != 'x'}
    alien = [m for m in msgs if m not in handed]
    if alien:
        bad('wire/alien-frame', 'a frame on the wire is not one of the '
            'payloads handed to the connection (merged/altered frame)',
            alien=alien[:3])
    dup = sorted({m for m in msgs if msgs.count(m) > 1})
    if dup:
        bad('wire/duplicate', 'a payload reached the wire twice', dup=dup[:3])
    # per-thread order of queued payloads
    pos = {m: i for i, m in enumerate(msgs)}
    for ti, ops in enumerate(threads):
        q = [m for k, m in ops if k == 'q' and m in pos]
        if [pos[m] for m in q] != sorted(pos[m] for m in q):
            bad('wire/queue-order', 'queued payloads of one thread appear out '
                'of order', thread=ti, order=[m for m in msgs if m in q])
    # real-time order against the disconnect
    call = {}
    ret = {}
    disc_call = disc_ret = None
    for seq, role, kind, pl in log.events:
        if kind == 'api.call':
            if pl['op'] == 'disconnect':
                disc_call = seq
            else:
                call[pl['msg']] = seq
        elif kind in ('api.ret', 'api.raise'):
            if pl['op'] == 'disconnect':
                disc_ret = seq
                if kind == 'api.raise':
                    bad('api/disconnect-raised', 'disconnect() raised',
                        error=pl.get('exc'))
            else:
                ret[pl['msg']] = (seq, kind, pl.get('exc'))
    immediate = final[1]
    if disc_call is None:
        return
    missing = []
    for m in handed:
        r = ret.get(m)
        if r is None:
            continue
        returned_before = r[0] < disc_call and r[1] == 'api.ret'
        if returned_before and m not in pos and not immediate:
            missing.append(m)
        if r[1] == 'api.raise' and m in pos:
            bad('wire/rejected-but-sent', 'a write that raised still put its '
                'payload on the wire', msg=m, exc=r[2])
    if missing:
        bad('wire/lost', 'a payload whose write_packet returned before the '
            'flushing disconnect() was invoked never reached the wire',
            missing=sorted(missing)[:4], wire=msgs[:12])
    if immediate and disc_ret is not None:
        disc_role = next(role for seq, role, kind, pl in log.events
                         if seq == disc_call)
        flushed = [seq for seq, role, kind, pl in log.events
                   if kind == 'io.send' and disc_call < seq < disc_ret
                   and role == disc_role]
        if flushed:
            bad('wire/immediate-disconnect-flushed', 'the thread calling an '
                'immediate disconnect() sent bytes from inside that call',
                at=flushed[:3])
        late = [seq for seq, role, kind, pl in log.events
                if kind == 'io.send' and seq > disc_ret]
        if late:
            bad('wire/sent-after-immediate-disconnect', 'bytes were sent after'
                ' an immediate disconnect() had returned', at=late[:3])
    run.seen(engine + '.wire_orders', '|'.join(msgs))
    run.count(engine + '.frames_checked', len(msgs))


# ----------------------------------------------------------------------------
def baton_run(run, cfg, strategy, label):
    """One controlled schedule.  Returns (sched, error-or-None)."""
    from minecraft.networking import connection as C
    from minecraft.networking.packets import serverbound
    mode, threads, final = cfg['mode'], cfg['threads'], cfg['final']
    state = {'threshold': cfg.get('threshold', 16)}
    server = mcserver.Server(server_handler(mode, state))
    log = pc.EventLog()
    rec = pc.Recorder(log)
    names = ['u%d' % i for i in range(len(threads))]
    sched = baton.Scheduler(names + ['net'], strategy)
    real_select = C.select
    orig_run = C.NetworkingThread.run
    conn = None

    class SelectShim(object):
        error = getattr(real_select, 'error', OSError)

        @staticmethod
        def select(rlist, wlist, xlist, timeout=None):
            t = threading.current_thread()
            if sched.active and isinstance(t, C.NetworkingThread) and \
                    t.connection is conn:
                if sched.me() is None:
                    sched.register('net')
                if sched.controlled():
                    def enabled():
                        if t.interrupt or conn._outgoing_packet_queue:
                            return True
                        return bool(real_select.select(rlist, [], [], 0)[0])
                    sched.step('select', enabled)
                    return real_select.select(rlist, wlist, xlist, 0)
            if isinstance(t, C.NetworkingThread) and t.connection is conn \
                    and timeout:
                # idle polling only: keep the thread close to its next select
                # so that it comes under control quickly once activated
                timeout = min(timeout, 0.002)
            return real_select.select(rlist, wlist, xlist, timeout)

    def run_wrapper(self):
        try:
            return orig_run(self)
        finally:
            if sched.me() is not None:
                sched.finish()
    w = {'mode': mode, 'threads': threads, 'final': final, 'schedule': label}
    try:
        K = pc.monitored_connection_class()

        class BatonConnection(K):
            def _connect(self):
                super(BatonConnection, self)._connect()
                self._outgoing_packet_queue = baton.QueueProxy(
                    sched, self._outgoing_packet_queue)

        conn = BatonConnection('127.0.0.1', server.port, username='vfuser',
                               allowed_versions={PV},
                               handle_exception=rec.handle_exception,
                               handle_exit=rec.handle_exit)
        conn.vf_log = log
        conn._write_lock = baton.LockProxy(sched)
        conn.vf_send_hook = lambda kind, proxy, data: sched.step('send') \
            if kind == 'send' and sched.controlled() else None
        C.select = SelectShim
        C.NetworkingThread.run = run_wrapper
        conn.connect()
        if not pc.wait_for(lambda: isinstance(conn.reactor, C.PlayingReactor)
                           and state.get('in_play')
                           and not conn._outgoing_packet_queue, 10.0):
            return None, 'never reached play state: %r' % (rec.exceptions,)
        time.sleep(0.002)
        sched.active = True

        def user(i):
            sched.register(names[i])
            sched.step('begin')
            try:
                user_ops(conn, log, conn._write_lock, threads[i], final, i)
            finally:
                sched.finish()
        ts = [threading.Thread(target=user, args=(i,), name=names[i],
                               daemon=True) for i in range(len(threads))]
        for t in ts:
            t.start()
        deadline = time.monotonic() + 20.0
        for t in ts:
            while t.is_alive() and time.monotonic() < deadline and not any(
                    e[2] == 'lock.leak' for e in log.events[-200:]):
                t.join(0.05)
        if lock_leaks(run, log, w, 'baton'):
            return sched, None
        idle = pc.wait_idle(conn, max(0.1, deadline - time.monotonic()))
        if sched.deadlock:
            run.violation('schedule/deadlock', 'no thread is enabled although '
                          'some have not finished', dict(
                              w, blocked=sched.deadlock,
                              decisions=sched.decisions[-30:]))
            return sched, None
        if any(t.is_alive() for t in ts) or not idle:
            return sched, 'watchdog: threads alive ' + pc.dump_threads()[-900:]
        sched.release_all()
        server.join(8.0)
        if [e for e in server.errors if e[1] in ('script', 'timeout')]:
            return sched, 'server: %r' % (server.errors[:1],)
        w['decisions'] = list(sched.decisions)
        judge(run, log, state, threads, final, server, w, 'baton')
        if final[1]:
            C.select = real_select
            reconnect_probe(run, conn, state, server, threads, w, 'baton')
        run.count('baton.schedules')
        run.count('baton.decision_points', len(sched.trace))
        return sched, None
    finally:
        sched.release_all()
        C.select = real_select
        C.NetworkingThread.run = orig_run
        server.stop()
        if conn is not None:
            pc.safe_disconnect(conn)


def explore(run, cfg, bound, budget, label):
    """Exhaustive exploration up to `bound` pre-emptions (DFS over plans)."""
    seen = set()
    stack = [({}, 0)]
    n = 0
    n_viol = len(run.violations)
    while stack and n < budget:
        plan, depth = stack.pop()
        strategy = baton.Preemptions(plan)
        sched = err = None
        for attempt in range(2):
            sched, err = baton_run(run, cfg, strategy, sorted(plan.items()))
            if err is None:
                break
            strategy = baton.Preemptions(plan)
        n += 1
        if len(run.violations) > n_viol:
            break        # one witness per scenario is enough; later schedules
            # of a scenario whose lock is stuck only run into the watchdog
        if err is not None or sched is None:
            run.inconclusive_because('baton %s plan %r: %s' % (label, plan,
                                                              err))
            continue
        key = tuple(sched.decisions)
        if key in seen:
            continue
        seen.add(key)
        run.case(('baton', label, key))
        run.seen('baton.distinct_schedules', '%s:%s' % (label, ','.join(key)))
        if depth >= bound:
            continue
        start = max(plan) + 1 if plan else 0
        for idx, chosen, default, cands, tag in sched.trace:
            if idx < start:
                continue
            for c in cands:
                if c != chosen:
                    p2 = dict(plan)
                    p2[idx] = c
                    stack.append((p2, depth + 1))
    return n


# ----------------------------------------------------------------------------
def stress_run(run, rng, cfg, idx):
    from minecraft.networking import connection as C
    from minecraft.networking.packets import serverbound
    mode, threads, final = cfg['mode'], cfg['threads'], cfg['final']
    state = {'threshold': cfg.get('threshold', 16)}
    if idx % 2:
        state['burst'] = [('tc', 1), ('ka', 77), ('tc', 2), ('tc', 3),
                          ('ka', 78)]
    server = mcserver.Server(server_handler(mode, state))
    log = pc.EventLog()
    rec = pc.Recorder(log)
    conn = None
    w = {'mode': mode, 'final': final, 'stress': idx,
         'ops': [len(t) for t in threads]}
    old_interval = sys.getswitchinterval()
    try:
        K = pc.monitored_connection_class()
        conn = K('127.0.0.1', server.port, username='vfuser',
                 allowed_versions={PV}, handle_exception=rec.handle_exception,
                 handle_exit=rec.handle_exit)
        conn.vf_log = log
        conn.vf_rng = rng
        conn.vf_send_yield = 0.5
        # owner-tracking proxy around a real RLock (installed before the first
        # connect so that every party uses the same lock)
        lock = baton.LockProxy(baton.NullScheduler())
        conn._write_lock = lock
        conn.connect()
        if not pc.wait_for(lambda: isinstance(conn.reactor, C.PlayingReactor)
                           and state.get('in_play'), 10.0):
            return 'never reached play state'
        barrier = threading.Barrier(len(threads))

        def user(i):
            barrier.wait(5.0)
            user_ops(conn, log, lock, threads[i], final, i)
        sys.setswitchinterval(1e-6)
        with LineMonitor(files=['minecraft/networking/connection.py',
                                'minecraft/networking/packets/packet.py'],
                         yield_prob=0.08, seed=rng.getrandbits(32),
                         record_sites=True) as mon:
            ts = [threading.Thread(target=user, args=(i,), name='u%d' % i,
                                   daemon=True) for i in range(len(threads))]
            for t in ts:
                t.start()
            t_end = time.monotonic() + 30.0
            for t in ts:
                while t.is_alive() and time.monotonic() < t_end and not any(
                        e[2] == 'lock.leak' for e in log.events[-200:]):
                    t.join(0.05)
            leaked = any(e[2] == 'lock.leak' for e in log.events)
            if final[0] is None and not leaked:
                log.emit('api.call', op='disconnect')
                conn.disconnect(immediate=final[1])
                log.emit('api.ret', op='disconnect')
            idle = leaked or pc.wait_idle(conn, 20.0)
            run.count('stress.yields', mon.yields)
            for s in mon.sites:
                run.seen('stress.sites', '%s:%s:%d' % s)
        sys.setswitchinterval(old_interval)
        if lock_leaks(run, log, w, 'stress'):
            return None
        if any(t.is_alive() for t in ts) or not idle:
            return 'watchdog: threads alive ' + pc.dump_threads()[-900:]
        server.join(10.0)
        if [e for e in server.errors if e[1] in ('script', 'timeout')]:
            return 'server: %r' % (server.errors[:1],)
        judge(run, log, state, threads, final, server, w, 'stress')
        if final[1]:
            reconnect_probe(run, conn, state, server, threads, w, 'stress')
        run.count('stress.runs')
        return None
    finally:
        sys.setswitchinterval(old_interval)
        server.stop()
        if conn is not None:
            pc.safe_disconnect(conn)


def big_body(tag, size):
    """Deterministic, incompressible filler derived from the tag."""
    import hashlib
    out, h = [], tag.encode()
    n = 0
    while n < size:
        h = hashlib.sha256(h).digest()
        out.append(h)
        n += len(h)
    return b''.join(out)[:size]


def backpressure_run(run, rng, mode, idx):
    """Environment shaping instead of scheduling: tiny socket buffers and a
    server that does not read for a while, so that every large frame meets a
    full send buffer (a send that the kernel cannot take in one piece)."""
    import socket as _socket
    from minecraft.networking import connection as C
    from minecraft.networking.packets import serverbound
    from ..ref import varint as rvarint
    codec = codec_for(PV)
    state = {'threshold': 1 << 30}
    n_threads = rng.randrange(1, 4)
    sizes = {}
    threads = []
    for t in range(n_threads):
        ops = []
        for k in range(rng.randrange(2, 6)):
            tag = 'bp%d.t%d.%d' % (idx, t, k)
            sizes[tag] = rng.choice((3000, 70000, 200000, 400000))
            ops.append((rng.choice(('q', 'f')), tag))
        threads.append(ops)
    final = (None, False)
    stall = rng.choice((0.1, 0.3))
    PLUGIN_ID = 0x0A           # serverbound plugin message, protocol 757

    def handler(io):
        io.sock.setsockopt(_socket.SOL_SOCKET, _socket.SO_RCVBUF, 65536)
        scripts.read_handshake(io)
        io.recv_frame()
        if mode == 'encrypted':
            scripts.encryption_exchange(io, codec)
        scripts.send_login_success(io, PV, codec)
        state['in_play'] = True
        msgs = []
        state['msgs'] = msgs
        state['go'].wait(10.0)
        time.sleep(stall)                    # the client's buffer fills up
        while True:
            fr = io.recv_frame(20.0)
            if fr is None:
                break
            if fr[0] != PLUGIN_ID:
                msgs.append('<id=%d>' % fr[0])
                continue
            n, pos = rvarint.decode(fr[1], 0)
            data = bytes(fr[1][pos + n:])
            tag, _, body = data.partition(b'|')
            tag = tag.decode('latin-1')
            if tag in sizes and body == big_body(tag, sizes[tag]):
                msgs.append(tag)
            else:
                msgs.append('<corrupt %r len=%d>' % (tag[:20], len(data)))
        state['eof'] = True
        state['partial'] = io.partial_at_eof
    state['go'] = threading.Event()
    server = mcserver.Server(handler)
    log = pc.EventLog()
    rec = pc.Recorder(log)
    conn = None
    w = {'mode': mode, 'backpressure': idx, 'stall': stall,
         'sizes': [[sizes[m] for _k, m in ops] for ops in threads]}

    def make_packet(tag):
        return serverbound.play.PluginMessagePacket(
            channel='vf:bulk', data=tag.encode() + b'|' +
            big_body(tag, sizes[tag]))
    try:
        K = pc.monitored_connection_class()
        conn = K('127.0.0.1', server.port, username='vfuser',
                 allowed_versions={PV}, handle_exception=rec.handle_exception,
                 handle_exit=rec.handle_exit)
        conn.vf_log = log
        conn.vf_rng = rng
        conn.vf_sndbuf = 32768
        lock = baton.LockProxy(baton.NullScheduler())
        conn._write_lock = lock
        conn.connect()
        if not pc.wait_for(lambda: isinstance(conn.reactor, C.PlayingReactor)
                           and state.get('in_play'), 10.0):
            return 'never reached play state'
        state['go'].set()
        ts = [threading.Thread(target=user_ops, args=(
            conn, log, lock, threads[i], final, i, make_packet),
            name='u%d' % i, daemon=True) for i in range(n_threads)]
        for t in ts:
            t.start()
        for t in ts:
            t.join(30.0)
        if any(t.is_alive() for t in ts):
            return 'watchdog: writers alive ' + pc.dump_threads()[-900:]
        sockp = conn.socket
        log.emit('api.call', op='disconnect')
        conn.disconnect()
        log.emit('api.ret', op='disconnect')
        if not pc.wait_idle(conn, 20.0):
            return 'watchdog: threads alive ' + pc.dump_threads()[-900:]
        run.count('backpressure.blocked_sends',
                  getattr(sockp, 'blocked_sends', 0))
        run.count('backpressure.short_sends', getattr(sockp, 'short_sends', 0))
        server.join(25.0)
        if [e for e in server.errors if e[1] in ('script', 'timeout')]:
            return 'server: %r' % (server.errors[:1],)
        if lock_leaks(run, log, w, 'backpressure'):
            return None
        judge(run, log, state, threads, final, server, w, 'backpressure')
        run.count('backpressure.runs')
        run.count('backpressure.bytes', sum(sizes.values()))
        return None
    finally:
        state['go'].set()
        server.stop()
        if conn is not None:
            pc.safe_disconnect(conn)


def leave_or_bulk_run(run, rng, mode, idx, variant):
    """Two free-running scenarios around the flushing disconnect:
    'bulk'  - more than one write batch (300 packets) is still queued when
              disconnect() is called (the caller holds the write lock while
              it queues, so the networking thread cannot drain meanwhile);
    'leave' - an outgoing listener calls disconnect() at the moment a chosen
              packet has been written (by whichever thread writes it), while
              other threads keep handing in packets."""
    from minecraft.networking import connection as C
    from minecraft.networking.packets import serverbound
    state = {'threshold': 16}
    server = mcserver.Server(server_handler(mode, state))
    log = pc.EventLog()
    rec = pc.Recorder(log)
    conn = None
    if variant == 'bulk':
        # (more than one write batch; more than any "reasonable" queue bound)
        n = (301, 1500, 450, 2600, 700)[(idx // 3) % 5]
        threads = [[('q', 'bk%d.%d' % (idx, i)) for i in range(n)]]
        final = (0, False)
    else:
        threads = make_threads(rng, rng.randrange(1, 4), rng.randrange(3, 9),
                               'lv%d' % idx)
        threads = [[(k if k != 'x' else 'q', m) for k, m in ops]
                   for ops in threads]
        final = (None, False)
        leave_on = rng.choice([m for ops in threads for _k, m in ops])
    w = {'mode': mode, 'scenario': variant, 'idx': idx,
         'ops': [len(t) for t in threads]}
    try:
        K = pc.monitored_connection_class()
        conn = K('127.0.0.1', server.port, username='vfuser',
                 allowed_versions={PV}, handle_exception=rec.handle_exception,
                 handle_exit=rec.handle_exit)
        conn.vf_log = log
        conn.vf_rng = rng
        lock = baton.LockProxy(baton.NullScheduler())
        conn._write_lock = lock
        left = []
        if variant == 'leave':
            w['leaves_when_written'] = leave_on

            def leave(packet):
                if packet.message == leave_on and not left:
                    left.append(1)
                    log.emit('api.call', op='disconnect')
                    try:
                        conn.disconnect()
                        log.emit('api.ret', op='disconnect')
                    except Exception as e:
                        log.emit('api.raise', op='disconnect', exc=repr(e))
            conn.register_packet_listener(leave, serverbound.play.ChatPacket,
                                          outgoing=True)
        # the wall clock is stepped while the flush is under way (an NTP
        # correction, a resume from suspend): what is queued is still sent
        clock = pc.SteppingClock()
        step_by = (0, 3600, -3600, 86400 * 400)[idx % 4]
        sends, armed = [0], []
        if step_by:
            w['wall_clock_stepped_by'] = step_by

            def send_hook(kind, proxy, data):
                if kind == 'send' and armed:
                    sends[0] += 1
                    if sends[0] == 3:
                        clock.step(step_by)
                        run.count('flushes_with_wall_clock_step')
            conn.vf_send_hook = send_hook
        conn.connect()
        if not pc.wait_for(lambda: isinstance(conn.reactor, C.PlayingReactor)
                           and state.get('in_play'), 10.0):
            return 'never reached play state'

        def user(i):
            if variant == 'bulk':
                with lock:
                    user_ops(conn, log, baton.LockProxy(baton.NullScheduler()),
                             threads[i], final, i)
            else:
                user_ops(conn, log, lock, threads[i], final, i)
        ts = [threading.Thread(target=user, args=(i,), name='u%d' % i,
                               daemon=True) for i in range(len(threads))]
        armed.append(1)
        with clock:
            for t in ts:
                t.start()
            for t in ts:
                t.join(30.0)
            if any(t.is_alive() for t in ts):
                return 'watchdog: writers alive ' + pc.dump_threads()[-900:]
            if variant == 'leave' and not left:
                pc.wait_for(lambda: left, 5.0)
            if not pc.wait_idle(conn, 20.0):
                return 'watchdog: threads alive ' + pc.dump_threads()[-900:]
        server.join(15.0)
        if [e for e in server.errors if e[1] in ('script', 'timeout')]:
            return 'server: %r' % (server.errors[:1],)
        if variant == 'leave' and not left:
            return 'the leaving packet was never written'
        if lock_leaks(run, log, w, variant):
            return None
        by_net = any(kind == 'api.call' and pl.get('op') == 'disconnect'
                     and role.startswith('net#')
                     for _s, role, kind, pl in log.events)
        # (a disconnect() issued by a user thread pulls the stream away from
        # under the networking thread, which then reports a transport error:
        # existing, tolerated behaviour - judged only when the networking
        # thread itself left)
        if rec.exceptions and by_net:
            run.violation('api/%s-reports-error' % variant, 'a scenario '
                          'without faults ended with an error report',
                          dict(w, exc=repr(rec.exceptions[:1])))
        judge(run, log, state, threads, final, server, w, variant)
        run.count(variant + '.runs')
        return None
    finally:
        server.stop()
        if conn is not None:
            pc.safe_disconnect(conn)


def listener_forced_write_case(run, rng, mode, idx):
    """Delay injection between the two send() calls of one frame: a user
    thread's forced write is paused after its first send (it holds the write
    lock); meanwhile the server's keep-alive makes an incoming listener - the
    networking thread - force-write a packet of its own.  Frames reach the
    server whole: the listener's write waits for the lock."""
    from minecraft.networking import connection as C
    from minecraft.networking.packets import clientbound, serverbound
    state = {'threshold': 16, 'burst': [('ka', 4242)], 'burst_gate':
             threading.Event()}
    server = mcserver.Server(server_handler(mode, state))
    log = pc.EventLog()
    rec = pc.Recorder(log)
    conn = None
    w = {'mode': mode, 'scenario': 'listener-forced-write', 'idx': idx}
    in_listener, user_tid = threading.Event(), []
    paused = []
    try:
        K = pc.monitored_connection_class()
        conn = K('127.0.0.1', server.port, username='vfuser',
                 allowed_versions={PV}, handle_exception=rec.handle_exception,
                 handle_exit=rec.handle_exit)
        conn.vf_log = log

        def on_ka(packet):
            in_listener.set()
            p = serverbound.play.ChatPacket()
            p.message = 'lw%d.from-listener' % idx
            conn.write_packet(p, force=True)
        conn.register_packet_listener(on_ka, clientbound.play.KeepAlivePacket)

        def send_hook(kind, proxy, data):
            if kind == 'send' and user_tid and \
                    threading.get_ident() == user_tid[0] and not paused:
                paused.append(1)
                return
            if kind == 'send' and user_tid and \
                    threading.get_ident() == user_tid[0] and \
                    len(paused) == 1:
                # second send of the user's frame: give the listener time to
                # get in between, if it can
                paused.append(2)
                state['burst_gate'].set()
                in_listener.wait(2.0)
                time.sleep(0.05)
        conn.vf_send_hook = send_hook
        conn.connect()
        if not pc.wait_for(lambda: isinstance(conn.reactor, C.PlayingReactor)
                           and state.get('in_play'), 10.0):
            return 'never reached play state'
        user_tid.append(threading.get_ident())
        p = serverbound.play.ChatPacket()
        p.message = 'lw%d.from-user-%s' % (idx, 'x' * rng.choice((1, 40, 300)))
        conn.write_packet(p, force=True)
        pc.wait_for(lambda: len([m for m in state.get('msgs', [])
                                 if m.startswith('lw')]) >= 2, 3.0)
        pc.safe_disconnect(conn)
        pc.wait_idle(conn, 10.0)
        server.join(10.0)
        run.count('listener_forced_write.runs')
        if len(paused) < 2:
            return 'the user write was not made in two sends'
        msgs = state.get('msgs', [])
        alien = [m for m in msgs if not m.startswith('lw')
                 and not m.startswith('<sb_keep_alive')]
        errs = [e for e in server.errors if e[1] in ('frame', 'script')]
        got = [m for m in msgs if m.startswith('lw')]
        if errs or alien or sorted(got) != sorted(
                [p.message, 'lw%d.from-listener' % idx]):
            run.violation('wire/interleaved-with-listener-write', 'a listener '
                          'of the networking thread force-wrote a packet '
                          'while a user thread was between the two sends of '
                          'its own frame: the server did not receive two '
                          'whole frames', dict(w, got=[m[:40] for m in msgs],
                                               server_errors=repr(errs[:1])))
        return None
    finally:
        state['burst_gate'].set()
        server.stop()
        if conn is not None:
            pc.safe_disconnect(conn)


def reused_object_flush_case(run, rng, mode, idx):
    """The same packet object handed to write_packet() several times (a
    program that keeps one "tick" packet) with other packets in between, all
    still queued when the flushing disconnect() comes: everything queued
    before the call is sent, in order, the repeated object as often as it was
    queued."""
    from minecraft.networking import connection as C
    from minecraft.networking.packets import serverbound
    state = {'threshold': 16}
    server = mcserver.Server(server_handler(mode, state))
    log = pc.EventLog()
    rec = pc.Recorder(log)
    conn = None
    w = {'mode': mode, 'scenario': 'reused-object-flush', 'idx': idx}
    try:
        K = pc.monitored_connection_class()
        conn = K('127.0.0.1', server.port, username='vfuser',
                 allowed_versions={PV}, handle_exception=rec.handle_exception,
                 handle_exit=rec.handle_exit)
        conn.vf_log = log
        conn.connect()
        if not pc.wait_for(lambda: isinstance(conn.reactor, C.PlayingReactor)
                           and state.get('in_play'), 10.0):
            return 'never reached play state'
        tick = serverbound.play.ChatPacket()
        tick.message = 'ro%d.tick' % idx
        plan = []
        for k in range(rng.randrange(2, 7)):
            if rng.random() < 0.4:
                plan.append(tick)
            else:
                p = serverbound.play.ChatPacket()
                p.message = 'ro%d.%d' % (idx, k)
                plan.append(p)
        # the repeated object is also the last one queued in most cases
        plan = [tick] + plan + ([tick] if idx % 3 else [])
        w['queued'] = [p.message for p in plan]
        with conn._write_lock:
            for p in plan:
                conn.write_packet(p)
            conn.disconnect()
        if not pc.wait_idle(conn, 15.0):
            return 'watchdog: threads alive'
        server.join(10.0)
        got = [m for m in state.get('msgs', []) if m.startswith('ro')]
        run.count('reused_object_flush.runs')
        if got != w['queued']:
            run.violation('wire/lost' if len(got) < len(plan) else
                          'wire/order', 'packets queued before a flushing '
                          'disconnect() - one packet object among them queued '
                          'several times - did not all reach the server in '
                          'order', dict(w, got=got))
        return None
    finally:
        server.stop()
        if conn is not None:
            pc.safe_disconnect(conn)


def listener_fails_after_send_case(run, rng, mode, idx):
    """An ordinary outgoing listener (it runs after the frame is on the wire)
    raises an ordinary exception for one packet of a queue; the user's
    exception handler ends the session with a flushing disconnect().  Every
    queued packet reaches the server at most once, in queue order - the one
    whose listener failed has been sent and is not sent again."""
    from minecraft.networking.packets import serverbound
    state = {'threshold': 16}
    server = mcserver.Server(server_handler(mode, state))
    log = pc.EventLog()
    rec = pc.Recorder(log)
    conn = None
    n = rng.randrange(3, 9)
    msgs = ['lf%d.%d' % (idx, i) for i in range(n)]
    bad_at = rng.randrange(n)
    w = {'mode': mode, 'scenario': 'listener-fails-after-send', 'idx': idx,
         'queued': n, 'listener_fails_on': bad_at}
    try:
        K = pc.monitored_connection_class()
        conn = K('127.0.0.1', server.port, username='vfuser',
                 allowed_versions={PV}, handle_exception=rec.handle_exception,
                 handle_exit=rec.handle_exit)
        conn.vf_log = log
        failed = []

        def late(packet):
            if packet.message == msgs[bad_at] and not failed:
                failed.append(1)
                raise ValueError('listener failed after the send')
        conn.register_packet_listener(late, serverbound.play.ChatPacket,
                                      outgoing=True)

        def on_error(exc, exc_info):
            # what a careful program does: say goodbye properly
            conn.disconnect()
        conn.register_exception_handler(on_error, ValueError)
        conn.connect()
        from minecraft.networking import connection as C
        if not pc.wait_for(lambda: isinstance(conn.reactor, C.PlayingReactor)
                           and state.get('in_play'), 10.0):
            return 'never reached play state'
        with conn._write_lock:
            for m in msgs:
                p = serverbound.play.ChatPacket()
                p.message = m
                try:
                    conn.write_packet(p)
                except ValueError:
                    # (a tree that writes at once runs the listener here, in
                    # the caller's thread: what a program then does is up to
                    # it - this one says goodbye as its handler would)
                    run.count('listener_failure_reached_the_caller')
                    conn.disconnect()
        if not pc.wait_idle(conn, 15.0):
            return 'watchdog: threads alive ' + pc.dump_threads()[-600:]
        server.join(10.0)
        got = [m for m in state.get('msgs', []) if m.startswith('lf')]
        run.count('listener_fails_after_send.runs')
        if not failed:
            return 'the failing listener never ran'
        dup = sorted({m for m in got if got.count(m) > 1})
        order_ok = [m for m in msgs if m in got] == [
            m for i, m in enumerate(got) if m not in got[:i]]
        if dup or not order_ok or msgs[bad_at] not in got:
            run.violation('wire/duplicate-after-listener-failure' if dup
                          else 'wire/order-after-listener-failure',
                          'an outgoing listener raised after its packet had '
                          'been sent and the exception handler called a '
                          'flushing disconnect(): the server did not see each '
                          'queued packet at most once, in order',
                          dict(w, got=got, duplicated=dup))
        return None
    finally:
        server.stop()
        if conn is not None:
            pc.safe_disconnect(conn)


def make_threads(rng, n_threads, n_ops, tag):
    threads = []
    for t in range(n_threads):
        ops = []
        for k in range(n_ops):
            kind = rng.choice(('q', 'q', 'f', 'q', 'q', 'f', 'x'))
            # payload sizes on both sides of the compression threshold
            pad = rng.choice(('', '', 'x' * 40))
            ops.append((kind, '%s.t%d.%d%s' % (tag, t, k, pad)))
        threads.append(ops)
    return threads


def run(run):
    thorough = run.tier == 'thorough'
    run.level = 'exploration'
    run.rule = ('baton engine: scenarios of 1-3 user threads x 1-3 packets '
                '(queued/forced) + final disconnect (flushing/immediate) in '
                'plain / compressed / encrypted+compressed mode, explored '
                'exhaustively up to %d pre-emption(s) (decision points = every '
                'lock acquire/release, socket send, queue append/popleft and '
                'the networking thread\'s select), plus seeded random walks on '
                'larger scenarios; stress engine: 2-4 free-running threads x '
                'up to 40 packets with yields between the two sends of a frame'
                ' and line-level yield injection. Distinct = the decision '
                'list / the stress configuration.' % (2 if thorough else 1))
    run.assumptions = ['forced writes by user threads are issued only in play '
                       'state', 'a forced write that raises because the socket'
                       ' is already gone counts as rejected (no bytes)',
                       'operations overlapping the disconnect are at-most-once']
    rng = run.rng('c12')
    # ---- baton: exhaustive small scenarios --------------------------------
    scenarios = []
    k = 0
    for mode in ('plain', 'compressed', 'encrypted'):
        for n_threads, n_ops in ((1, 2), (2, 1), (2, 2), (3, 1)):
            for immediate in (False, True):
                k += 1
                threads = make_threads(rng, n_threads, n_ops, 's%d' % k)
                final = (rng.randrange(n_threads), immediate)
                scenarios.append({'mode': mode, 'threads': threads,
                                  'final': final})
    bound = 2 if thorough else 1
    budget = 1500 if thorough else 60
    for i, cfg in enumerate(scenarios):
        if not run.mine(i):
            continue
        explore(run, cfg, bound, budget, 'sc%d' % i)
        if len(run.samples) < 2:
            run.sample({'baton_scenario': cfg})
    # ---- baton: random walks on larger scenarios ------------------------------
    for i in range(1200 if thorough else 32):
        if not run.mine(i):
            continue
        cfg = {'mode': rng.choice(('plain', 'compressed', 'encrypted')),
               'threads': make_threads(rng, rng.randrange(2, 4),
                                       rng.randrange(2, 5), 'w%d' % i)}
        cfg['final'] = (rng.randrange(len(cfg['threads'])),
                        rng.random() < 0.4)
        strategy = baton.RandomWalk(rng, rng.choice((0.2, 0.5, 0.8)))
        sched, err = baton_run(run, cfg, strategy, 'walk%d' % i)
        if err:
            run.inconclusive_because('baton walk %d: %s' % (i, err))
        elif sched is not None:
            run.case(('walk', i, tuple(sched.decisions)))
            run.seen('baton.distinct_schedules', 'w%d:%s' % (
                i, ','.join(sched.decisions)))
    # ---- stress ------------------------------------------------------------------
    for i in range(640 if thorough else 24):
        if not run.mine(i):
            continue
        n_threads = rng.randrange(2, 5)
        cfg = {'mode': rng.choice(('plain', 'compressed', 'encrypted')),
               'threads': make_threads(rng, n_threads, rng.choice((5, 20, 40)),
                                       'z%d' % i)}
        cfg['final'] = (rng.choice([None] + list(range(n_threads))),
                        rng.random() < 0.3)
        err = None
        for attempt in range(2):
            err = stress_run(run, rng, cfg, i)
            if err is None:
                break
        run.case(('stress', i, cfg['mode'], repr(cfg['final'])))
        if err:
            run.inconclusive_because('stress %d: %s' % (i, err))
    # ---- back-pressure ---------------------------------------------------
    for i in range(96 if thorough else 8):
        if not run.mine(i):
            continue
        mode = ('plain', 'encrypted')[i % 2]
        err = None
        for attempt in range(2):
            err = backpressure_run(run, rng, mode, i)
            if err is None:
                break
        run.case(('backpressure', i, mode))
        if err:
            run.inconclusive_because('backpressure %d: %s' % (i, err))
    # ---- flushing disconnect: bulk queue / leaving from a listener ---------
    for i in range(120 if thorough else 12):
        if not run.mine(i):
            continue
        variant = ('bulk', 'leave', 'leave')[i % 3]
        mode = rng.choice(('plain', 'compressed', 'encrypted'))
        err = None
        for attempt in range(2):
            err = leave_or_bulk_run(run, rng, mode, i, variant)
            if err is None:
                break
        run.case((variant, i, mode))
        if err:
            run.inconclusive_because('%s %d: %s' % (variant, i, err))
    for i in range(60 if thorough else 8):
        if not run.mine(i):
            continue
        mode = ('plain', 'compressed', 'encrypted')[i % 3]
        err = None
        for attempt in range(2):
            err = listener_fails_after_send_case(run, rng, mode, i)
            if err is None:
                break
        run.case(('listener-fails-after-send', i, mode))
        if err:
            run.inconclusive_because('listener fails after send %d: %s'
                                     % (i, err))
    for i in range(60 if thorough else 9):
        if not run.mine(i):
            continue
        mode = ('plain', 'compressed', 'encrypted')[i % 3]
        err = None
        for attempt in range(2):
            err = reused_object_flush_case(run, rng, mode, i)
            if err is None:
                break
        run.case(('reused-object-flush', i, mode))
        if err:
            run.inconclusive_because('reused object flush %d: %s' % (i, err))
    for i in range(30 if thorough else 6):
        if not run.mine(i):
            continue
        mode = ('plain', 'compressed', 'encrypted')[i % 3]
        err = None
        for attempt in range(2):
            err = listener_forced_write_case(run, rng, mode, i)
            if err is None:
                break
        run.case(('listener-forced-write', i, mode))
        if err:
            run.inconclusive_because('listener forced write %d: %s' % (i, err))
    run.require('bulk.runs', 2)
    run.require('listener_fails_after_send.runs', 2)
    run.require('listener_forced_write.runs', 2)
    run.require('reused_object_flush.runs', 2)
    run.require('stress.own_replies_checked', 5)
    run.require('leave.runs', 1)
    run.require('backpressure.runs', 2)
    run.require('backpressure.blocked_sends', 1)
    run.require('baton.schedules', 20)
    run.require('baton.distinct_schedules', 10)
    run.require('baton.frames_checked', 20)
    run.require('stress.runs', 2)
    run.require('stress.frames_checked', 50)
