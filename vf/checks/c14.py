"""C14 - networking-thread exceptions are contained and routed like try/except.

Fault enumeration: a fault is injected at one of seven origins (early listener,
ordinary listener, login-disconnect reaction, status-JSON reaction, decoder,
exit callback, outgoing listener in the write loop) under a generated handler
chain (0-4 handlers: type filters from an exception hierarchy incl. tuples and
catch-all, early flags, return / raise-new / raise-same / reconnect) and one of
four final-handler modes.  Monitors: handler call log with the exception each
received, connection.exception/exc_info, threading.excepthook (re-raise),
thread termination, EOF at the server, success of a later connect().  Oracle:
an executable try/except-chain model.
"""
import threading

from ..probes import client as pc
from ..ref import core_packets as ref
from ..server import mcserver, scripts
from ..server.codec import codec_for

SHARDS = {'quick': 8, 'thorough': 16}
ORIGINS = ['early-listener', 'listener', 'reaction-login-disconnect',
           'reaction-status-json', 'decoder', 'exit-callback',
           'outgoing-listener', 'status-phase-listener',
           'outgoing-listener-then-disconnect', 'fallback-connect-refused']


class E0(Exception):
    pass


class E1(E0):
    pass


class E2(E1):
    pass


class F0(Exception):
    pass


class Frozen(E1):
    """An exception object that refuses attribute assignment once it has
    been constructed (a frozen dataclass, a __slots__ class, a read-only
    property would do the same)."""
    def __init__(self, *a):
        E1.__init__(self, *a)
        object.__setattr__(self, '_ready', True)

    def __setattr__(self, name, value):
        if getattr(self, '_ready', False) and not name.startswith('__'):
            raise AttributeError('cannot assign to field %r' % name)
        object.__setattr__(self, name, value)


def model(fault, handlers, final_mode):
    """handlers: effective order; each dict(types, behaviour, new_type).
    Returns (calls [(handler id, exc type name)], recorded type name,
    reraise bool, final_called bool)."""
    exc_t = fault
    calls = []
    caught = False
    for h in handlers:
        if not h['types'] or issubclass(exc_t, tuple(h['types'])):
            calls.append((h['id'], exc_t.__name__))
            if h['behaviour'] in ('return', 'reconnect', 'disconnect'):
                caught = True
                break
            if h['behaviour'] in ('raise-new', 'reconnect-raise'):
                exc_t = h['new_type']
            # raise-same: exc unchanged
    final_called = final_mode in ('returns', 'raises', 'reconnects')
    if final_called:
        calls.append(('final', exc_t.__name__))
        if final_mode == 'raises':
            exc_t = F0
    return calls, exc_t.__name__, (final_mode == 'none' and not caught), \
        final_called


def scenario(run, rng, origin, chain, final_mode, pv, hook_log):
    import struct as _struct
    from minecraft.exceptions import LoginDisconnect
    from minecraft.networking import connection as C
    from minecraft.networking.packets import clientbound, serverbound
    import json as _json
    codec = codec_for(pv)
    fault_type = {'reaction-login-disconnect': LoginDisconnect,
                  'reaction-status-json': _json.JSONDecodeError,
                  'decoder': _struct.error}.get(origin) or \
        rng.choice((E0, E1, E2, F0, KeyError, Frozen, Frozen))
    if origin == 'fallback-connect-refused':
        # the negotiation's own recovery (reconnect with the default version
        # after an unanswered status query) fails: the exception raised inside
        # the reactor's hook replaces the end-of-stream and is routed
        fault_type = ConnectionRefusedError
    if origin == 'status-phase-listener':
        # (EOFError is excluded: in the negotiation phase it is, by design,
        # taken as 'server does not answer status queries' - see C15)
        fault_type = rng.choice((ConnectionResetError, BrokenPipeError,
                                 ConnectionAbortedError, OSError, E1,
                                 TimeoutError))
    import threading as _th
    state_ev = {'entered': _th.Event(), 'disconnect_sent': _th.Event()}
    state = {'eof': {}, 'accepted': 0}
    may_reconnect = any(h['behaviour'] in ('reconnect', 'reconnect-raise')
                        for h in chain) or final_mode == 'reconnects'
    # the failing listener may have queued packets before it failed; an
    # outgoing listener that raises stands guard over them
    queue_before_fault = origin in ('early-listener', 'listener') and \
        rng.random() < 0.5
    disconnect_before_fault = origin in ('early-listener', 'listener') and \
        not queue_before_fault and rng.random() < 0.5
    if disconnect_before_fault:
        # (transport-flavoured exception types included: what matters is who
        # raised, not what)
        fault_type = rng.choice((fault_type, OSError, EOFError, ValueError,
                                 FileNotFoundError))
        run.count('faults_after_the_listener_disconnected')

    def handler(io):
        state['accepted'] += 1
        hs = scripts.read_handshake(io)
        if hs is None:
            return
        first = io.index == 0
        if hs['next_state'] == 1 and origin == 'fallback-connect-refused' \
                and first:
            io.recv_frame()
            # from now on the client's target refuses connections
            conn.options.port = refuser.port
            io.half_close()
        elif hs['next_state'] == 1 and origin == 'status-phase-listener':
            io.recv_frame()
            io.send_frame(0x00, ref.encode_field('string', _json.dumps({
                'version': {'name': 'vf', 'protocol': pv},
                'players': {'max': 1, 'online': 0},
                'description': {'text': 'x'}})))
        elif hs['next_state'] == 1:
            io.recv_frame()
            io.send_frame(0x00, ref.encode_field('string', '{not json'))
        else:
            if first and origin == 'reaction-login-disconnect':
                io.recv_frame()
                did, dp = codec.encode('login_disconnect',
                                       {'reason': '{"text":"no"}'})
                io.send_frame(did, dp)
            else:
                scripts.login_offline(io, pv, None, codec)
                if first and origin in ('early-listener', 'listener'):
                    cid, cp = codec.encode('cb_chat', {
                        'json': '{"text":"boom"}', 'position': 0,
                        'sender': '00000000-0000-0000-0000-000000000001'})
                    io.send_frame(cid, cp)
                elif first and origin == 'decoder':
                    kid = codec.packet_id('cb_keep_alive')
                    io.send_frame(kid, b'\x01')        # truncated body
                elif first and origin == 'outgoing-listener':
                    pass                                # client will talk
                elif first and origin == 'outgoing-listener-then-disconnect':
                    # the server's disconnect packet is already waiting in
                    # the client's socket when the listener fails
                    state_ev['entered'].wait(8.0)
                    did, dp = codec.encode('play_disconnect',
                                           {'reason': '"bye"'})
                    io.send_frame(did, dp)
                    state_ev['disconnect_sent'].set()
                else:
                    did, dp = codec.encode('play_disconnect',
                                           {'reason': '"bye"'})
                    io.send_frame(did, dp)
                    state.setdefault('served', []).append(io.index)
        try:
            # (closure of the old connection is not judged when a handler
            # reconnects, so do not wait long for it)
            io.wait_eof(1.0 if may_reconnect and io.index == 0 else 8.0)
            state['eof'][io.index] = True
        except mcserver.ScriptTimeout:
            state['eof'][io.index] = False

    server = mcserver.Server(handler)
    refuser = mcserver.RefusingPort()
    log = pc.EventLog()
    calls = []                   # (handler id, exc type name, exc object)
    received = {}
    conn = None
    final_calls = []
    reconnects = []
    cancelled = []       # handlers that disconnected after a reconnect
    tripped = []

    one_shot = rng.random() < 0.5

    def final_returns(exc, exc_info):
        calls.append(('final', type(exc).__name__, exc))
        if one_shot:
            # a final handler that takes itself out (for later sessions): the
            # fault in progress is still the one it was installed for
            conn.handle_exception = None
            run.count('final_handlers_unregistering_themselves')

    def final_raises(exc, exc_info):
        calls.append(('final', type(exc).__name__, exc))
        raise F0('from final')
    delegate = rng.random() < 0.5

    def final_reconnects(exc, exc_info):
        # the auto-reconnect idiom: a *final* handler starting a new connection
        calls.append(('final', type(exc).__name__, exc))
        reconnects.append('final')
        if not delegate:
            conn.disconnect(immediate=queue_before_fault)
            conn.connect()
            return
        # ... or handing the recovery to a supervisor thread and waiting for it
        done_ev = threading.Event()

        def supervisor():
            try:
                conn.disconnect(immediate=queue_before_fault)
                conn.connect()
            except Exception as e:
                delegated.append(repr(e))
            done_ev.set()
        t = threading.Thread(target=supervisor, name='supervisor',
                             daemon=True)
        t.start()
        if not done_ev.wait(8.0):
            owner = getattr(conn._write_lock, 'owner', None)
            delegated.append('blocked; write lock owned by %s' % (
                'the waiting networking thread' if owner ==
                threading.get_ident() else owner))
    delegated = []
    final_arg = {'none': None, 'false': False, 'returns': final_returns,
                 'raises': final_raises,
                 'reconnects': final_reconnects}[final_mode]
    exits = []
    w = {'origin': origin, 'final': final_mode, 'pv': pv,
         'fault': fault_type.__name__,
         'chain': [(h['id'], [t.__name__ for t in h['types']], h['early'],
                    h['behaviour'], h['new_type'].__name__
                    if h['new_type'] else None) for h in chain]}
    try:
        K = pc.monitored_connection_class()
        from ..probes import baton as _baton

        def handle_exit():
            exits.append(1)
            if origin == 'exit-callback' and len(exits) == 1:
                raise fault_type('from exit callback')
        conn = K('127.0.0.1', server.port, username='vfuser',
                 allowed_versions={pv}, handle_exception=final_arg,
                 handle_exit=handle_exit)
        # owner-tracking proxy around a real RLock (evidence for a deadlock)
        conn._write_lock = _baton.LockProxy(_baton.NullScheduler())
        effective = []
        registered = {}
        for h in chain:
            def make(h):
                def fn(exc, exc_info):
                    calls.append((h['id'], type(exc).__name__, exc))
                    if exc_info[1] is not exc:
                        calls.append((h['id'], 'exc_info-mismatch', exc))
                    if h['behaviour'] == 'raise-new':
                        raise h['new_type']('from handler %s' % h['id'])
                    import sys as _sys
                    first_call = len(calls) == 1 and \
                        origin != 'fallback-connect-refused'
                    if first_call and _sys.exc_info()[1] is not exc:
                        # the first handler runs while the original exception
                        # is being handled: a bare 'raise', traceback.
                        # format_exc() and sys.exc_info() all refer to it
                        # (for later handlers, after an earlier one raised,
                        # the interpreter's state is not specified)
                        calls.append((h['id'], 'not-the-active-exception',
                                      exc))
                    if h['behaviour'] == 'raise-same':
                        if first_call and h.setdefault(
                                'bare', rng.random() < 0.5):
                            raise
                        raise exc
                    if h['behaviour'] == 'reconnect':
                        reconnects.append(h['id'])
                        conn.connect()
                    if h['behaviour'] == 'return':
                        # the return value of a handler has no meaning
                        return h.setdefault('returns', rng.choice(
                            (None, False, True, 0, '')))
                    if h['behaviour'] == 'reconnect-raise':
                        reconnects.append(h['id'])
                        conn.connect()
                        raise h['new_type']('from handler %s' % h['id'])
                    if h['behaviour'] == 'disconnect':
                        if reconnects:
                            cancelled.append(h['id'])
                        # (a flushing disconnect would write the packets
                        # the failing listener queued and trip the guard -
                        # inside this handler, which is the handler's doing)
                        conn.disconnect(immediate=queue_before_fault)
                return fn
            if 'dup_of' in h:
                fn, types_arg = registered[h['dup_of']]
                kw_e = {'early': True} if h['early'] else {}
                conn.register_exception_handler(fn, *types_arg, **kw_e)
                run.count('handlers_registered_twice')
                if h['early']:
                    effective.insert(0, h)
                else:
                    effective.append(h)
                continue
            fn = make(h)
            # (the keyword is left out when it has its default value)
            kw_e = {'early': h['early']} if h['early'] or \
                rng.random() < 0.3 else {}
            # the filter may be spelled like the argument of isinstance() /
            # an except clause: classes, a tuple of classes, nested tuples
            types_arg = tuple(h['types'])
            if len(types_arg) >= 1:
                spelling = rng.choice(('flat', 'flat', 'one-tuple', 'nested',
                                       'mixed'))
                if spelling == 'one-tuple':
                    types_arg = (tuple(types_arg),)
                elif spelling == 'nested':
                    types_arg = ((tuple(types_arg),),)
                elif spelling == 'mixed' and len(types_arg) >= 2:
                    types_arg = (types_arg[0], tuple(types_arg[1:]))
                if spelling != 'flat':
                    run.count('handler_filters_given_as_tuples')
            registered[h['id']] = (fn, types_arg)
            if rng.random() < 0.5:
                conn.register_exception_handler(fn, *types_arg, **kw_e)
            else:
                conn.exception_handler(*types_arg, **kw_e)(fn)
            if h['early']:
                effective.insert(0, h)
            else:
                effective.append(h)
        # fault injection points on the client
        if origin in ('early-listener', 'listener'):
            def boom(packet):
                if disconnect_before_fault:
                    # the failing listener has already ended the session
                    conn.disconnect()
                if queue_before_fault:
                    for j in range(rng.randrange(1, 3)):
                        conn.write_packet(serverbound.play.ChatPacket(
                            message='queued before the fault %d' % j))
                raise fault_type('from listener')
            if queue_before_fault:
                def tripwire(packet):
                    tripped.append(1)
                    raise ValueError('an outgoing listener failed while a '
                                     'packet was written after the fault')
                conn.register_packet_listener(
                    tripwire, serverbound.play.ChatPacket, outgoing=True)
                run.count('faults_with_packets_still_queued')
            conn.register_packet_listener(
                boom, clientbound.play.ChatMessagePacket,
                early=origin == 'early-listener')
        fired = []
        if origin == 'fallback-connect-refused':
            conn.allowed_proto_versions = {pv, 47 if pv != 47 else 340}
        if origin == 'status-phase-listener':
            def boom_status(packet):
                if not fired:
                    fired.append(1)
                    # later connects of this object go straight to login
                    conn.allowed_proto_versions = {pv}
                    raise fault_type('from a listener during negotiation')
            # (early: the built-in reaction - which would itself start the
            # login connection - has not run yet)
            conn.register_packet_listener(
                boom_status, clientbound.status.ResponsePacket, early=True)
            # more than one allowed version: connect() first asks the server
            conn.allowed_proto_versions = {pv, 47 if pv != 47 else 340}
        if origin.startswith('outgoing-listener'):
            def boom_out(packet):
                if not fired:
                    fired.append(1)
                    if origin == 'outgoing-listener-then-disconnect':
                        import time
                        state_ev['entered'].set()
                        state_ev['disconnect_sent'].wait(8.0)
                        time.sleep(0.03)       # let the frame arrive
                    raise fault_type('from outgoing listener')
            conn.register_packet_listener(
                boom_out, serverbound.play.ChatPacket, outgoing=True)
        del hook_log[:]
        if origin == 'reaction-status-json':
            conn.status(handle_status=False, handle_ping=False)
        else:
            conn.connect()
        if origin.startswith('outgoing-listener'):
            if not pc.wait_for(lambda: isinstance(conn.reactor,
                                                  C.PlayingReactor), 8.0):
                return 'never reached play'
            conn.write_packet(serverbound.play.ChatPacket(message='x'))
        exp_calls, exp_recorded, exp_reraise, _fc = model(
            fault_type, effective, final_mode)
        if not pc.wait_idle(conn, 20.0):
            return 'threads alive: ' + pc.dump_threads()
        server.join(12.0)
        if [e for e in server.errors if e[1] == 'frame']:
            run.violation('routing/malformed-client-bytes', 'the client sent '
                          'bytes the independent server cannot parse as the '
                          'expected frame', dict(w, error=[e for e in
                                                 server.errors if e[1] ==
                                                 'frame'][0][2]))
            return None
        if [e for e in server.errors if e[1] == 'script']:
            return 'server script error %r' % (server.errors[:1],)
        run.count('faults_injected')
        run.seen('origins', origin)

        def bad(key, what, **extra):
            run.violation(key, what, dict(
                w, calls=[(a, b) for a, b, _c in calls],
                expected_calls=exp_calls, **extra))
        got_calls = [(a, b) for a, b, _c in calls]
        if final_mode == 'reconnects' and delegate:
            run.count('final_handlers_delegating_to_another_thread')
            if delegated:
                bad('containment/handler-cannot-delegate', 'a final handler '
                    'that hands the recovery to another thread and waits for '
                    'it never sees it finish (the other thread cannot use the '
                    'connection while the handler runs)', detail=delegated[:2])
                return None
        if got_calls != exp_calls:
            bad('routing/handler-calls', 'handlers called differently from a '
                'try/except chain (first match catches; a raising handler '
                'replaces the exception for later handlers; final handler '
                'always runs)')
            return None
        rec_exc = conn.exception
        if type(rec_exc).__name__ != exp_recorded:
            bad('routing/recorded-exception', 'connection.exception is not the'
                ' last exception', recorded=repr(rec_exc),
                expected=exp_recorded)
        elif conn.exc_info is None or conn.exc_info[1] is not rec_exc:
            bad('routing/exc_info', 'connection.exc_info does not belong to '
                'the recorded exception')
        reraised = [h for h in hook_log]
        if bool(reraised) != exp_reraise:
            bad('routing/reraise', 'exception %s re-raised from the thread' %
                ('was not' if exp_reraise else 'was'), hook=reraised[:2],
                expected_reraise=exp_reraise)
        elif exp_reraise and not reraised[0].startswith(exp_recorded + ':'):
            # what escapes the thread must be the (last) exception itself
            bad('routing/reraised-another-exception', 'the exception that '
                'escaped the thread is not the one that was routed',
                hook=reraised[:2], expected=exp_recorded)
        if reconnects:
            # (the reconnect's TCP connection is established by the kernel
            # before the server's accept loop has picked it up)
            pc.wait_for(lambda: state['accepted'] >= 2, 5.0)
            server.join(5.0)
        if not reconnects:
            if state['eof'].get(0) is not True:
                bad('containment/not-closed', 'the connection was not closed '
                    'after the exception')
            if state['accepted'] != 1:
                bad('containment/extra-connection', 'an unexpected connection '
                    'was opened', accepted=state['accepted'])
        elif cancelled:
            # a later handler closed the connection an earlier one had opened
            run.count('reconnects_cancelled_by_later_handler')
            if state['accepted'] != 2:
                bad('containment/reconnect-from-handler', 'a handler started a'
                    ' new connection; exactly one more TCP connection must '
                    'appear', accepted=state['accepted'])
        else:
            run.count('reconnects_from_handler')
            if state['accepted'] != 2:
                bad('containment/reconnect-from-handler', 'a handler started a'
                    ' new connection; exactly one more TCP connection must '
                    'appear', accepted=state['accepted'])
            elif 1 not in state.get('served', []) or \
                    state['eof'].get(1) is not True:
                # the server completes the login of the new session and ends
                # it with a play disconnect: it must get that far, i.e. the
                # new connection was not torn down with the failed one
                bad('containment/reconnected-session-killed', 'the connection '
                    'started by a handler did not run to its normal end',
                    served=state.get('served'), by=reconnects,
                    server_errors=[e[1:] for e in server.errors][:2])
        # the same object can connect again
        if origin == 'fallback-connect-refused':
            conn.options.port = server.port
            conn.allowed_proto_versions = {pv}
        before = len(exits)
        n_before = state['accepted']
        try:
            conn.connect()
        except Exception as e:
            bad('reuse/connect-raised', 'connect() after the failure raised',
                error=repr(e))
            return None
        if not pc.wait_idle(conn, 20.0):
            return 'threads alive after reconnect: ' + pc.dump_threads()
        server.join(10.0)
        if state['accepted'] != n_before + 1 or len(exits) != before + 1:
            bad('reuse/reconnect-failed', 'a later connect() on the same '
                'object did not produce a working session',
                accepted=state['accepted'], exits=len(exits))
        run.count('reuse_checked')
        return None
    finally:
        server.stop()
        refuser.close()
        if conn is not None:
            try:
                conn.disconnect(immediate=True)
            except Exception:
                pass


def foreign_connect_case(run, rng, pv, idx):
    """Delay injection: while the failing networking thread is inside an
    exception handler, another thread enters connect() (and is held there for a
    moment, inside the connection's lock).  The failing thread must then *not*
    tear down the connection the other thread has started."""
    import time
    from minecraft.networking.packets import clientbound
    codec = codec_for(pv)
    state = {'accepted': 0}

    def handler(io):
        state['accepted'] += 1
        hs = scripts.read_handshake(io)
        if hs is None:
            return
        scripts.login_offline(io, pv, None, codec)
        if io.index == 0:
            cid, cp = codec.encode('cb_chat', {
                'json': '{"text":"boom"}', 'position': 0,
                'sender': '00000000-0000-0000-0000-000000000001'})
            io.send_frame(cid, cp)
            try:
                io.wait_eof(8.0)
            except mcserver.ScriptTimeout:
                pass
            return
        kid, kp = codec.encode('cb_keep_alive', {'id': 77})
        io.send_frame(kid, kp)
        try:
            fr = io.recv_frame(6.0)
            if fr is not None:
                nm, vals = codec.decode('play', fr[0], fr[1])
                state['second_alive'] = nm == 'sb_keep_alive' and \
                    vals['id'] == 77
        except mcserver.ScriptTimeout:
            state['second_alive'] = False
        did, dp = codec.encode('play_disconnect', {'reason': '"bye"'})
        io.send_frame(did, dp)
        try:
            io.wait_eof(6.0)
        except mcserver.ScriptTimeout:
            pass

    server = mcserver.Server(handler)
    in_handler, main_in_connect = threading.Event(), threading.Event()
    K = pc.monitored_connection_class()
    final_mode = rng.choice(('none-with-handler', 'returns', 'false'))
    seen = []

    def final(exc, info):
        seen.append(exc)
    conn = K('127.0.0.1', server.port, username='vfuser',
             allowed_versions={pv}, handle_exception={
                 'none-with-handler': None, 'returns': final,
                 'false': False}[final_mode])
    w = {'pv': pv, 'final': final_mode, 'case': idx}
    try:
        def boom(packet):
            raise E1('fault')
        conn.register_packet_listener(boom, clientbound.play.ChatMessagePacket)

        def h(exc, info):
            in_handler.set()
            main_in_connect.wait(3.0)
            time.sleep(0.01)
        conn.register_exception_handler(h)
        conn.connect()
        if not in_handler.wait(10.0):
            return 'fault never reached the handler'

        def hook():
            main_in_connect.set()
            time.sleep(0.06)          # hold connect() open inside the lock
        conn.vf_connect_hook = hook
        try:
            conn.connect()
        except Exception as e:
            run.violation('foreign-connect/refused', 'connect() from another '
                          'thread was refused although the failing thread was '
                          'already interrupted', dict(w, error=repr(e)))
            return None
        conn.vf_connect_hook = None
        if not pc.wait_idle(conn, 20.0):
            return 'threads alive: ' + pc.dump_threads()
        server.join(10.0)
        run.count('foreign_connects')
        if state['accepted'] != 2 or state.get('second_alive') is not True:
            run.violation('containment/foreign-connection-torn-down', 'the '
                          'failing networking thread tore down the connection '
                          'another thread had started meanwhile (or it never '
                          'worked)', dict(w, accepted=state['accepted'],
                                          alive=state.get('second_alive'),
                                          connected=conn.connected))
        return None
    finally:
        server.stop()
        pc.safe_disconnect(conn)


def user_reconnect_during_handler_case(run, rng, pv, idx):
    """Delay injection at an existing suspension point (the start of a
    thread): a *user* thread reconnects while the failing networking thread is
    still inside an exception handler, so the new thread is chained behind it;
    the failing thread then ends before the new one has run its first
    statement.  The new thread must still take the connection over, and the
    object must be usable afterwards."""
    import time
    from minecraft.networking import connection as C
    from minecraft.networking.packets import clientbound
    codec = codec_for(pv)
    state = {'accepted': 0, 'served': []}

    def handler(io):
        state['accepted'] += 1
        if scripts.read_handshake(io) is None:
            return
        scripts.login_offline(io, pv, None, codec)
        if io.index == 0:
            cid, cp = codec.encode('cb_chat', {
                'json': '{"text":"boom"}', 'position': 0,
                'sender': '00000000-0000-0000-0000-000000000001'})
            io.send_frame(cid, cp)
        else:
            did, dp = codec.encode('play_disconnect', {'reason': '"bye"'})
            io.send_frame(did, dp)
            state['served'].append(io.index)
        try:
            io.wait_eof(8.0)
        except mcserver.ScriptTimeout:
            pass
    server = mcserver.Server(handler)
    rec = pc.Recorder()
    in_handler, reconnected = threading.Event(), threading.Event()
    orig_run = C.NetworkingThread.run

    def late_start(self):
        if self.previous_thread is not None:
            time.sleep(0.3)          # the predecessor ends in the meantime
        return orig_run(self)
    w = {'directed': 'user-reconnect-during-handler', 'pv': pv}
    conn = None
    try:
        conn = pc.make_connection(server.port, rec, allowed_versions={pv},
                                  early_listener=False)

        def boom(_p):
            raise E1('from listener')
        conn.register_packet_listener(boom, clientbound.play.ChatMessagePacket)

        def slow_handler(exc, info):
            in_handler.set()
            reconnected.wait(8.0)
        conn.register_exception_handler(slow_handler, E1)
        conn.connect()
        if not in_handler.wait(10.0):
            return 'the fault never reached the handler'
        C.NetworkingThread.run = late_start
        errs = []
        try:
            conn.disconnect()
            conn.connect()               # from the user thread
        except Exception as e:
            errs.append(e)
        reconnected.set()
        ok2 = pc.wait_idle(conn, 15.0)
        C.NetworkingThread.run = orig_run
        run.count('user_reconnects_during_handler')
        if errs:
            run.violation('reuse/connect-raised', 'connect() from a user '
                          'thread while the failing thread was in its handler '
                          'raised', dict(w, error=repr(errs[0])))
            return None
        pc.wait_for(lambda: 1 in state['served'], 5.0)
        if not ok2 or 1 not in state['served']:
            run.violation('containment/reconnected-session-killed', 'the '
                          'session a user thread started during exception '
                          'handling did not run to its normal end', dict(
                              w, served=state['served'], idle=ok2))
            return None
        try:
            conn.connect()
        except Exception as e:
            run.violation('reuse/connect-raised', 'connect() after the '
                          'failure raised', dict(w, error=repr(e),
                                                 third_connect=True))
            return None
        ok3 = pc.wait_idle(conn, 15.0)
        pc.wait_for(lambda: 2 in state['served'], 5.0)
        if not ok3 or 2 not in state['served']:
            run.violation('reuse/reconnect-failed', 'a later connect() on the '
                          'same object did not produce a working session',
                          dict(w, served=state['served']))
        return None
    finally:
        C.NetworkingThread.run = orig_run
        reconnected.set()
        server.stop()
        if conn is not None:
            pc.safe_disconnect(conn)


def gen_chain(rng):
    pool = [(E0,), (E1,), (E2,), (F0,), (Exception,), (), (E2, F0),
            (KeyError, ValueError), (LookupError,), (OSError,),
            (ValueError,), (E1, KeyError),
            # filters that can match nothing the thread routes
            (KeyboardInterrupt,), (SystemExit, GeneratorExit),
            (BaseException,), (KeyboardInterrupt, E1)]
    try:
        from minecraft.exceptions import ConnectionFailure, LoginDisconnect
        pool += [(ConnectionFailure,), (LoginDisconnect, E0)]
    except Exception:
        pass
    import struct as _struct
    pool.append((_struct.error,))
    chain = []
    reconnect_used = False
    for i in range(rng.choice((0, 1, 2, 2, 3, 4))):
        beh = rng.choice(('return', 'return', 'raise-new', 'raise-same',
                          'reconnect', 'reconnect-raise', 'disconnect'))
        if beh in ('reconnect', 'reconnect-raise'):
            if reconnect_used:
                beh = 'return' if beh == 'reconnect' else 'raise-new'
            reconnect_used = True
        chain.append({'id': 'h%d' % i, 'types': rng.choice(pool),
                      'early': rng.random() < 0.3, 'behaviour': beh,
                      'new_type': rng.choice((E0, E1, E2, F0, KeyError))
                      if beh in ('raise-new', 'reconnect-raise') else None})
    # the same callable registered a second time with the same filter is a
    # second clause of the chain like any other (it sees what its first
    # occurrence raised; an early re-registration also stands at the front)
    plain = [h for h in chain if h['behaviour'] not in ('reconnect',
                                                        'reconnect-raise')]
    if plain and rng.random() < 0.3:
        orig = rng.choice(plain)
        chain.insert(rng.randrange(chain.index(orig) + 1, len(chain) + 1),
                     dict(orig, early=rng.random() < 0.4,
                          dup_of=orig['id']))
    return chain


def run(run):
    thorough = run.tier == 'thorough'
    run.level = 'fault_enumeration'
    run.rule = ('fault origins {early listener, ordinary listener, login-'
                'disconnect reaction, status-JSON reaction, decoder (truncated'
                ' keep-alive body), exit callback, outgoing listener in the '
                'write loop} x generated handler chains (0-4 handlers; type '
                'filters from an exception hierarchy incl. tuples, built-in '
                'types and catch-all; early flags; return / raise-new / '
                'raise-same / reconnect-from-handler) x final handler {None, '
                'False, returning, raising, reconnecting}; each followed by a '
                'fresh '
                'connect() on the same object. Distinct = (origin, chain, '
                'final).')
    run.assumptions = ['the status-phase EOF fallback (reactor swallows the '
                       'fault) is excluded here and covered by C15',
                       're-raise is observed through threading.excepthook']
    hook_log = []
    old_hook = threading.excepthook

    def hook(args):
        hook_log.append('%s: %s' % (args.exc_type.__name__, args.exc_value))
    threading.excepthook = hook
    rng = run.rng('c14')
    try:
        n = 0
        reps = 160 if thorough else 10
        for origin in ORIGINS:
            for final_mode in ('none', 'false', 'returns', 'raises',
                               'reconnects'):
                for rep in range(reps):
                    n += 1
                    if not run.mine(n):
                        continue
                    chain = gen_chain(rng)
                    if rep < 2 and final_mode != 'reconnects':
                        # directed: a handler reconnects and fails, a later
                        # one closes what the first has opened
                        chain = [{'id': 'h0', 'types': (), 'early': False,
                                  'behaviour': 'reconnect-raise',
                                  'new_type': E1}]
                        if rep == 1:
                            chain.append({'id': 'h1', 'types': (E1,),
                                          'early': False, 'behaviour':
                                          'raise-new', 'new_type': F0})
                        chain.append({'id': 'h9', 'types': (E1, F0),
                                      'early': False,
                                      'behaviour': 'disconnect',
                                      'new_type': None})
                    if origin == 'fallback-connect-refused':
                        # (the target refuses connections: handlers cannot
                        # reconnect in this scenario)
                        if final_mode == 'reconnects':
                            continue
                        for h in chain:
                            if h['behaviour'] == 'reconnect':
                                h['behaviour'] = 'return'
                            if h['behaviour'] == 'reconnect-raise':
                                h['behaviour'] = 'raise-new'
                    if final_mode == 'reconnects':
                        # one reconnect per failure: a second connect() would
                        # be refused as InvalidState, which is correct
                        for h in chain:
                            if h['behaviour'] == 'reconnect':
                                h['behaviour'] = 'return'
                            if h['behaviour'] == 'reconnect-raise':
                                h['behaviour'] = 'raise-new'
                    pv = rng.choice((757, 757, 404, 340, 578))
                    err = None
                    for attempt in range(3):
                        err = scenario(run, rng, origin, chain, final_mode,
                                       pv, hook_log)
                        if err is None:
                            break
                    run.case((origin, final_mode, repr(chain)))
                    if err:
                        run.inconclusive_because('%s/%s: %s' % (
                            origin, final_mode, err))
                    elif len(run.samples) < 3 and chain:
                        run.sample({'origin': origin, 'final': final_mode,
                                    'chain': [(h['id'], [t.__name__ for t in
                                                         h['types']],
                                               h['behaviour']) for h in chain]})
        for i in range(40 if thorough else 8):
            if not run.mine(i):
                continue
            err = None
            for attempt in range(3):
                err = foreign_connect_case(run, rng, rng.choice((757, 404,
                                                                 340)), i)
                if err is None:
                    break
            run.case(('foreign-connect', i))
            if err:
                run.inconclusive_because('foreign connect %d: %s' % (i, err))
        for i in range(20 if thorough else 4):
            if not run.mine(i + 3):
                continue
            err = None
            for attempt in range(2):
                err = user_reconnect_during_handler_case(
                    run, rng, rng.choice((757, 404, 340)), i)
                if err is None:
                    break
            run.case(('user-reconnect-during-handler', i))
            if err:
                run.inconclusive_because('user reconnect %d: %s' % (i, err))
    finally:
        threading.excepthook = old_hook
    run.require('user_reconnects_during_handler', 2)
    run.require('foreign_connects', 2)
    run.require('faults_injected', 20)
    run.require('origins', len(ORIGINS))
    run.require('reuse_checked', 10)
    run.require('reconnects_cancelled_by_later_handler', 5)
    run.require('faults_with_packets_still_queued', 5)
    run.require('final_handlers_delegating_to_another_thread', 2)
