"""C07 - core packets match the published protocol for every supported release.

Both directions against vf.ref.core_packets (independent table + encoder):
the real Packet.write output must equal the reference frame byte for byte, and
the real read of reference bytes must give the values and consume them exactly;
ids come from the documented table, never from the tree.
"""
import io
import math
import struct

from ..ref import core_packets as ref
from ..ref import nbtmini

SHARDS = {'quick': 4, 'thorough': 16}


def f32(v):
    return struct.unpack('>f', struct.pack('>f', v))[0]


def mapping(cb, sb):
    J = {'eid': 'entity_id', 'gamemode': 'game_mode',
         'previous_gamemode': 'previous_game_mode', 'dimension': 'dimension',
         'difficulty': 'difficulty', 'max_players': 'max_players',
         'level_type': 'level_type', 'reduced_debug': 'reduced_debug_info',
         'view_distance': 'render_distance', 'hashed_seed': 'hashed_seed',
         'respawn_screen': 'respawn_screen', 'world_names': 'world_names',
         'dimension_codec': 'dimension_codec', 'world_name': 'world_name',
         'is_debug': 'is_debug', 'is_flat': 'is_flat',
         'is_hardcore': 'is_hardcore',
         'simulation_distance': 'simulation_distance'}
    same = lambda *names: {n: n for n in names}   # noqa: E731
    return {
        'handshake': (sb.handshake, 'HandShakePacket', {
            'protocol': 'protocol_version', 'host': 'server_address',
            'port': 'server_port', 'next_state': 'next_state'}),
        'status_request': (sb.status, 'RequestPacket', {}),
        'status_response': (cb.status, 'ResponsePacket',
                            {'json': 'json_response'}),
        'status_ping': (sb.status, 'PingPacket', {'payload': 'time'}),
        'status_pong': (cb.status, 'PingResponsePacket', {'payload': 'time'}),
        'login_start': (sb.login, 'LoginStartPacket', same('name')),
        'encryption_request': (cb.login, 'EncryptionRequestPacket', same(
            'server_id', 'public_key', 'verify_token')),
        'encryption_response': (sb.login, 'EncryptionResponsePacket', same(
            'shared_secret', 'verify_token')),
        'login_success': (cb.login, 'LoginSuccessPacket', {
            'uuid': 'UUID', 'username': 'Username'}),
        'set_compression': (cb.login, 'SetCompressionPacket',
                            same('threshold')),
        'login_disconnect': (cb.login, 'DisconnectPacket',
                             {'reason': 'json_data'}),
        'cb_keep_alive': (cb.play, 'KeepAlivePacket', {'id': 'keep_alive_id'}),
        'join_game': (cb.play, 'JoinGamePacket', J),
        'cb_chat': (cb.play, 'ChatMessagePacket', {
            'json': 'json_data', 'position': 'position', 'sender': 'sender'}),
        'cb_position_look': (cb.play, 'PlayerPositionAndLookPacket', dict(
            same('x', 'y', 'z', 'yaw', 'pitch', 'flags', 'teleport_id'),
            dismount='dismount_vehicle')),
        'play_disconnect': (cb.play, 'DisconnectPacket',
                            {'reason': 'json_data'}),
        'teleport_confirm': (sb.play, 'TeleportConfirmPacket',
                             same('teleport_id')),
        'sb_chat': (sb.play, 'ChatPacket', same('message')),
        'sb_keep_alive': (sb.play, 'KeepAlivePacket', {'id': 'keep_alive_id'}),
        'sb_position_look': (sb.play, 'PositionAndLookPacket', same(
            'x', 'feet_y', 'z', 'yaw', 'pitch', 'on_ground')),
    }


STRINGS = ['', 'a', 'Notch', 'é', '€', '\U0001F600', '\ufeffNotch',
           '\ufeff', 'a\ufeffb', '\x00', ' lead', 'trail ', 'x' * 127, 'x' * 128,
           '{"text":"hello"}', 'localhost', 'minecraft:overworld',
           'é' * 64, '€' * 43, 'mc.example.com']


def gen_value(rng, name, field, code, pv, docs):
    if code == 'varint':
        if field == 'next_state':
            return rng.choice((1, 2))
        if field == 'protocol':
            return rng.choice((pv, 0, 2 ** 31 - 1))
        if 'keep_alive' in name:
            # the id is a *signed* VarInt on the wire; the library hands a
            # negative one to its user as the unsigned alias and must be able
            # to send the same five bytes back
            return rng.choice((0, 1, 2 ** 31 - 1, 2 ** 31, 2 ** 32 - 1,
                               2 ** 32 - 128, rng.getrandbits(32)))
        return rng.choice((0, 1, 127, 128, 255, 16383, 16384, 2097151, 2097152,
                           2 ** 28 - 1, 2 ** 28, 2 ** 31 - 1,
                           rng.getrandbits(31)))
    if code == 'long':
        return rng.choice((0, 1, -1, 2 ** 63 - 1, -2 ** 63, 2 ** 31, -2 ** 31,
                           rng.getrandbits(63), -rng.getrandbits(63)))
    if code == 'int':
        return rng.choice((0, 1, -1, 2 ** 31 - 1, -2 ** 31,
                           rng.getrandbits(31)))
    if code == 'ushort':
        return rng.choice((0, 1, 25565, 65535, rng.getrandbits(16)))
    if code == 'ubyte':
        if field == 'gamemode':
            return rng.choice((0, 1, 2, 3)) | (8 if pv < 751 and
                                               rng.random() < 0.3 else 0)
        if field == 'previous_gamemode':
            return rng.choice((0, 1, 2, 3, 255))
        return rng.choice((0, 1, 2, 3, 20, 127, 128, 255))
    if code == 'byte':
        return rng.choice((0, 1, 2, -1, 31, 127, -128))
    if code == 'bool':
        return rng.random() < 0.5
    if code == 'double':
        return rng.choice((0.0, -0.0, 1.5, -64.25, 3e7, -3e7, 1e-300,
                           math.inf, -math.inf, rng.uniform(-1e6, 1e6)))
    if code == 'float':
        return rng.choice((0.0, -0.0, 90.0, -180.0, 359.5, math.inf,
                           f32(rng.uniform(-360, 360))))
    if code == 'string':
        return rng.choice(STRINGS)
    if code == 'bytes_v':
        return bytes(rng.getrandbits(8) for _ in range(
            rng.choice((0, 1, 4, 16, 128, 162, 294))))
    if code == 'uuid':
        h = '%032x' % rng.getrandbits(128)
        return '%s-%s-%s-%s-%s' % (h[:8], h[8:12], h[12:16], h[16:20], h[20:])
    if code == 'strings_v':
        # (the count is a VarInt: 128 names and more need its second byte)
        return [rng.choice(STRINGS[1:6]) for _ in range(rng.choice(
            (0, 1, 3, 3, 1, 127, 128, 129, 300)))]
    if code == 'nbt':
        return rng.choice(docs)
    raise KeyError(code)


def run(run):
    import pynbt
    from minecraft.networking.connection import ConnectionContext
    from minecraft.networking.packets import (PacketBuffer, clientbound,
                                              serverbound)
    import minecraft
    thorough = run.tier == 'thorough'
    run.level = 'exploration'
    reps = 400 if thorough else 16
    run.rule = ('%d release protocols (1.8 .. 1.18.1) x %d core packets x %d '
                'boundary/random value sets, both directions: real write vs '
                'reference frame bytes; real read of reference bytes vs values '
                'and exact consumption; class registered in the right state '
                'table. Distinct = (protocol, packet, values).'
                % (len(ref.RELEASES), len(ref.NAMES), reps))
    run.assumptions = ['vf.ref.core_packets is a transcription of the protocol'
                       ' documentation (Appendix A of DESIGN.md); it is as good'
                       ' as its author\'s reading', 'snapshot versions have no'
                       ' independent table (C05/C06 constrain them)']
    rng = run.rng('c07')
    M = mapping(clientbound, serverbound)
    docs = [d for d, _l in nbtmini.sample_documents()][3:]   # dimension docs
    missing = [pv for pv in ref.RELEASES
               if pv not in minecraft.SUPPORTED_PROTOCOL_VERSIONS]
    if missing:
        run.violation('release-unsupported', 'a release the README lists is '
                      'not a supported protocol', {'versions': missing})
    # release names: what a user who asks for '1.16' gets
    if run.shard == 0:
        assert sorted(set(ref.RELEASE_NAMES.values())) == sorted(ref.RELEASES)
        for name, pv_doc in sorted(ref.RELEASE_NAMES.items()):
            run.count('release_names_checked')
            run.case(('release-name', name))
            got = minecraft.KNOWN_MINECRAFT_VERSIONS.get(name)
            if got != pv_doc:
                run.violation('release-name/number', 'a release name does not '
                              'resolve to its published protocol number',
                              {'name': name, 'tree': got,
                               'documented': pv_doc})
            if minecraft.SUPPORTED_MINECRAFT_VERSIONS.get(name) != pv_doc:
                run.violation('release-name/supported', 'a release the README '
                              'lists as supported is not in the table of '
                              'supported versions (or maps to another number)',
                              {'name': name, 'tree': minecraft.
                               SUPPORTED_MINECRAFT_VERSIONS.get(name)})
            if name not in minecraft.RELEASE_MINECRAFT_VERSIONS:
                run.violation('release-name/release-table', 'a release is '
                              'missing from the table of release versions',
                              {'name': name})
        # and the README of the tree lists the same names
        try:
            import os, re
            readme = open(os.path.join(os.path.dirname(os.path.dirname(
                minecraft.__file__)), 'README.rst')).read()
            listed = set(re.findall(r'\b1\.\d+(?:\.\d+)?\b', readme.split(
                'Supported Minecraft versions')[1].split('In addition')[0]))
            if listed != set(ref.RELEASE_NAMES):
                run.violation('release-name/readme', 'the releases named by '
                              'the README differ from the documented ones',
                              {'only_readme': sorted(listed - set(
                                  ref.RELEASE_NAMES)),
                               'only_reference': sorted(set(
                                   ref.RELEASE_NAMES) - listed)})
        except (OSError, IndexError):
            pass
    case = 0
    # Releases are visited in a seeded shuffled order and, for every other
    # packet, through one long-lived context object whose protocol version is
    # reassigned - what Connection.connect() does when the same object
    # reconnects to an upgraded server.  Ids/layouts cached per context object
    # or per process must follow.
    order = [pv for pv in ref.RELEASES if pv not in missing]
    rng.shuffle(order)
    shared_ctx = ConnectionContext(protocol_version=order[0])
    for pv in order:
        fresh_ctx = ConnectionContext(protocol_version=pv)
        for name in ref.NAMES:
            if (case + 1) % 2:
                shared_ctx.protocol_version = pv
                ctx = shared_ctx
                run.count('cases_with_reused_context')
            else:
                ctx = fresh_ctx
            case += 1
            if not run.mine(case):
                continue
            lay = ref.layout(name, pv)
            mod, cls_name, fmap = M[name]
            K = getattr(mod, cls_name)
            registered = K in mod.get_packets(ctx)
            if lay is None:
                if registered:
                    run.violation('registered-but-absent/%s' % name, 'packet '
                                  'registered for a release that does not have'
                                  ' it', {'pv': pv})
                continue
            run.seen('packets', name)
            run.seen('releases', pv)
            if not registered:
                run.violation('not-registered/%s' % name, 'core packet missing'
                              ' from the state table', {'pv': pv})
            doc_id, fields = lay
            try:
                got_id = K.get_id(ctx)
            except Exception as e:
                got_id = repr(e)
            if got_id != doc_id:
                run.violation('id/%s' % name, 'packet id differs from the '
                              'published id', {'pv': pv, 'tree': got_id,
                                               'documented': doc_id})
            # the reader finds a class by id: at the published id the core
            # class must be the only claimant of its table (otherwise which
            # class decodes the packet depends on set iteration order)
            claimants = []
            for k2 in mod.get_packets(ctx):
                try:
                    if k2.get_id(ctx) == doc_id:
                        claimants.append(k2.__name__)
                except Exception:
                    pass
            run.count('decode_slots_checked')
            if sorted(claimants) != [cls_name]:
                run.violation('decode-slot/%s' % name, 'at the published id of'
                              ' a core packet the state table offers other '
                              'classes than the core class', {
                                  'pv': pv, 'id': doc_id,
                                  'claimants': sorted(claimants)})
            for rep in range(reps if fields else 1):
                values = {f: gen_value(rng, name, f, code, pv, docs)
                          for f, code in fields}
                run.case((pv, name, repr(values)))
                exp_frame = ref.frame(name, pv, values)
                w = {'pv': pv, 'packet': name, 'values': values}
                # ---- pyCraft encodes ------------------------------------
                try:
                    p = K(context=ctx)
                    for f, code in fields:
                        v = values[f]
                        if code == 'nbt':
                            v = pynbt.NBTFile(io=io.BytesIO(v))
                            if rep % 3 == 1:
                                # the same compound as it comes out of a larger
                                # document: a tag that has a name of its own.
                                # On the network the root tag's name is empty.
                                v = pynbt.TAG_Compound(
                                    v.value, name=rng.choice((
                                        'minecraft:overworld', 'dimension',
                                        'x')))
                                run.count('named_root_tags_written')
                        setattr(p, fmap[f], v)
                    buf = PacketBuffer()
                    p.write(buf)
                    got = buf.get_writable()
                except Exception as e:
                    run.violation('write-raised/%s' % name, 'real write raised',
                                  dict(w, error=repr(e)))
                    got = None
                if got is not None:
                    run.count('frames_compared')
                    if got != exp_frame:
                        run.violation('bytes/%s' % name, 'bytes written differ'
                                      ' from the published layout',
                                      dict(w, got=got, expected=exp_frame))
                # ---- pyCraft decodes reference bytes ------------------------
                _pid, payload = ref.encode(name, pv, values)
                body = PacketBuffer()
                body.send(payload)
                body.reset_cursor()
                try:
                    q = K(context=ctx)
                    q.read(body)
                except Exception as e:
                    run.violation('read-raised/%s' % name, 'real read of '
                                  'reference bytes raised',
                                  dict(w, error=repr(e), payload=payload))
                    continue
                run.count('decodes_compared')
                if body.read():
                    run.violation('unread/%s' % name, 'reference payload not '
                                  'consumed exactly', w)
                for f, code in fields:
                    back = getattr(q, fmap[f], '<<missing>>')
                    v = values[f]
                    if code == 'nbt':
                        out = io.BytesIO()
                        try:
                            pynbt.NBTFile(value=back).save(out)
                        except Exception as e:
                            out = io.BytesIO(repr(e).encode())
                        ok = out.getvalue() == v
                    elif code in ('double', 'float'):
                        ok = isinstance(back, float) and (
                            back == v and math.copysign(1, back) ==
                            math.copysign(1, v))
                    elif code == 'bool':
                        ok = back is v or back == v
                    else:
                        ok = back == v
                    if not ok:
                        run.violation('decode/%s.%s' % (name, f), 'decoded '
                                      'field differs from the encoded value',
                                      dict(w, field=f, back=back))
            if case % 97 == 0:
                run.sample({'pv': pv, 'packet': name, 'id': doc_id,
                            'frame': exp_frame})
    if run.shard == 0:
        reused_object_live(run)
        run.require('reused_object_sessions', 3)
    run.require('frames_compared', 500)
    run.require('decodes_compared', 500)
    run.require('packets', len(ref.NAMES))
    run.require('releases', len(ref.RELEASES))


def reused_object_live(run):
    """One packet *object* written through several Connection objects that
    speak different releases, one after the other: on each connection it must
    go out with the id and layout of that connection's release."""
    from ..probes import client as pc
    from ..server import mcserver, scripts
    from ..server.codec import codec_for
    from minecraft.networking import connection as C
    from minecraft.networking.packets import serverbound
    rng = run.rng('c07-live')
    chat = serverbound.play.ChatPacket(message='same object')
    pal = serverbound.play.PositionAndLookPacket(
        x=1.5, feet_y=64.0, z=-2.25, yaw=90.0, pitch=-10.0, on_ground=True)
    versions = [340, 498, 47, 754, 757, 110]
    rng.shuffle(versions)
    for pv in versions:
        codec = codec_for(pv)
        got = []

        def handler(io, pv=pv, codec=codec, got=got):
            scripts.read_handshake(io)
            scripts.login_offline(io, pv, None, codec)
            for _ in range(2):
                fr = io.recv_frame(8.0)
                if fr is None:
                    break
                got.append((fr[0], bytes(fr[1])))
            did, dp = codec.encode('play_disconnect', {'reason': '"bye"'})
            io.send_frame(did, dp)
            io.half_close()
            io.drain(5.0)
        server = mcserver.Server(handler)
        rec = pc.Recorder()
        conn = pc.make_connection(server.port, rec, allowed_versions={pv})
        try:
            conn.connect()
            if not pc.wait_for(lambda: isinstance(conn.reactor,
                                                  C.PlayingReactor), 8.0):
                run.inconclusive_because('reused object: no play state @%d'
                                         % pv)
                continue
            conn.write_packet(chat)
            conn.write_packet(pal)
            pc.wait_idle(conn, 15.0)
            server.join(8.0)
        finally:
            server.stop()
            pc.safe_disconnect(conn)
        run.case(('reused-object', pv))
        run.count('reused_object_sessions')
        want = [ref.encode('sb_chat', pv, {'message': 'same object'}),
                ref.encode('sb_position_look', pv, {
                    'x': 1.5, 'feet_y': 64.0, 'z': -2.25, 'yaw': 90.0,
                    'pitch': -10.0, 'on_ground': True})]
        want = [(i, bytes(p_)) for i, p_ in want]
        if got != want:
            run.violation('live/reused-packet-object', 'a packet object that '
                          'had already been written through another '
                          'connection went out with ids/layout that are not '
                          'those of this connection\'s release', {
                              'pv': pv, 'order': versions,
                              'got': [(i, p_[:12]) for i, p_ in got],
                              'expected': [(i, p_[:12]) for i, p_ in want]})
            break
