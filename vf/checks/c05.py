"""C05 - every packet class round-trips under every supported protocol version.

For every supported version and every class in the 8 state/direction tables the
real write() produces a frame that is parsed back by the real read() of a fresh
instance; monitors: id on the wire vs get_id, unread remainder, field-wise
type-aware equality, repr().  Generators: generic per wire type for
definition-driven packets, hand-written per class for custom codecs; a class
with a custom codec and no registered generator makes the run inconclusive.
"Programs": random field-list definitions turned into fresh Packet subclasses.
"""
import math
import struct
from fractions import Fraction

from ..ref import nbtmini
from ..ref import varint as rv

SHARDS = {'quick': 8, 'thorough': 16}


def f32(v):
    return struct.unpack('>f', struct.pack('>f', v))[0]


class Gen(object):
    """Value generators and comparators per wire type."""

    def __init__(self, rng, T, extra):
        self.rng, self.T, self.X = rng, T, extra

    def ints(self, lo, hi):
        r = self.rng
        edge = [lo, hi, 0, 1, lo + 1, hi - 1, -1]
        edge = [e for e in edge if lo <= e <= hi]
        return r.choice(edge) if r.random() < 0.5 else r.randint(lo, hi)

    def string(self):
        r = self.rng
        if r.random() < 0.02:
            # near the protocol's 32767-character limit, multi-byte
            return r.choice(('a' * 32767, '中' * 10923, 'я' * 20000,
                             'é' * 32767))
        if r.random() < 0.05:
            return r.choice(('\ufeff', '\ufeffjson', 'x\ufeff', '\x00', '\u2028',
                             '\uffff'))
        return r.choice(('', 'a', 'héllo', '€uro \U0001F600', 'x' * 130,
                         '{"text":"hi"}', 'minecraft:overworld',
                         ''.join(chr(r.randrange(32, 0x2000))
                                 for _ in range(r.randrange(0, 20)))))

    def value(self, t, ctx):
        """Returns (value, comparator(written, read) -> bool)."""
        T, r = self.T, self.rng
        eq = lambda a, b: type(a) is type(b) and a == b   # noqa: E731
        inst = t if not isinstance(t, type) else None
        if inst is not None and isinstance(inst, T.FixedPoint):
            den = inst.denominator
            carrier = inst.integer_type
            bits = {T.Byte: 8, T.Short: 16, T.Integer: 32}[carrier]
            lo, hi = -(1 << (bits - 1)), (1 << (bits - 1)) - 1
            if r.random() < 0.5:
                return self.ints(lo, hi) / den, lambda a, b: a == b
            v = r.uniform((lo + 1) / den, (hi - 1) / den)
            return v, lambda a, b: abs(Fraction(a) - Fraction(b)) <= \
                Fraction(1, den)
        if inst is not None and isinstance(inst, T.PrefixedArray):
            n = r.choice((0, 1, 2, 3, 5)) if r.random() < 0.9 else 130
            if inst.length_type is T.Byte:
                n = min(n, 127)
            pairs = [self.value(inst.element_type, ctx) for _ in range(n)]
            vals = [p[0] for p in pairs]
            cmps = [p[1] for p in pairs]
            return vals, lambda a, b: len(a) == len(b) and all(
                c(x, y) for c, x, y in zip(cmps, a, b))
        if t is T.Boolean:
            return r.random() < 0.5, eq
        if t is T.UnsignedByte:
            return self.ints(0, 255), eq
        if t is T.Byte:
            return self.ints(-128, 127), eq
        if t is T.Short:
            return self.ints(-32768, 32767), eq
        if t is T.UnsignedShort:
            return self.ints(0, 65535), eq
        if t is T.Integer:
            return self.ints(-2 ** 31, 2 ** 31 - 1), eq
        if t is T.Long:
            return self.ints(-2 ** 63, 2 ** 63 - 1), eq
        if t is T.UnsignedLong:
            return self.ints(0, 2 ** 64 - 1), eq
        if t is T.VarInt:
            return r.choice((0, 1, 127, 128, 16383, 16384, 2 ** 21, 2 ** 28,
                             2 ** 31 - 1, r.getrandbits(31))), eq
        if t is T.VarLong:
            return r.choice((0, 127, 128, 2 ** 35, 2 ** 63 - 1,
                             r.getrandbits(63))), eq
        if t is T.Float:
            v = r.choice((0.0, -0.0, 1.5, -1e10, f32(r.uniform(-1e6, 1e6)),
                          f32(3.4e38), math.inf))
            return v, lambda a, b: a == b
        if t is T.Double:
            v = r.choice((0.0, -0.0, 0.1, -1e300, r.uniform(-3e7, 3e7), 5e-324,
                          math.inf))
            return v, lambda a, b: a == b
        if t is T.Angle:
            if r.random() < 0.5:
                return r.randrange(256) * 360 / 256, lambda a, b: a == b
            v = r.choice((359.9, -0.1, 359.3, r.uniform(-720, 720)))

            def acmp(a, b):
                d = (Fraction(a) - Fraction(b)) % 360
                return min(d, 360 - d) <= Fraction(360, 256)
            return v, acmp
        if t is T.String:
            return self.string(), eq
        if t is T.UUID:
            h = '%032x' % r.getrandbits(128)
            return '%s-%s-%s-%s-%s' % (h[:8], h[8:12], h[12:16], h[16:20],
                                       h[20:]), eq
        if t is T.VarIntPrefixedByteArray or t is T.TrailingByteArray:
            return bytes(r.getrandbits(8) for _ in range(
                r.choice((0, 1, 5, 200)))), eq
        if t is T.ShortPrefixedByteArray:
            return bytes(r.getrandbits(8) for _ in range(
                r.choice((0, 1, 5, 300)))), eq
        if t is T.Position:
            v = (self.ints(-2 ** 25, 2 ** 25 - 1), self.ints(-2 ** 11,
                                                               2 ** 11 - 1),
                 self.ints(-2 ** 25, 2 ** 25 - 1))
            if r.random() < 0.5:
                v = T.Position(*v)
            return v, lambda a, b: tuple(a) == tuple(b)
        if t is T.NBT:
            import io
            import pynbt
            doc, _label = r.choice(nbtmini.sample_documents())
            tag = pynbt.NBTFile(io=io.BytesIO(doc))

            def ncmp(a, b):
                ba, bb = io.BytesIO(), io.BytesIO()
                pynbt.NBTFile(value=a).save(ba)
                pynbt.NBTFile(value=b).save(bb)
                return ba.getvalue() == bb.getvalue()
            return tag, ncmp
        X = self.X
        if t is X['ChunkSectionPos']:
            return (self.ints(-2 ** 21, 2 ** 21 - 1),
                    self.ints(-2 ** 19, 2 ** 19 - 1),
                    self.ints(-2 ** 21, 2 ** 21 - 1)), \
                lambda a, b: tuple(a) == tuple(b)
        if t is X['MBCRecord']:
            new = ctx.protocol_later_eq(741)
            rec = t(x=r.randrange(16), y=r.randrange(16 if new else 256),
                    z=r.randrange(16), block_state_id=r.choice(
                        (0, 1, 4095, 2 ** 20, r.getrandbits(31))))
            return rec, lambda a, b: a == b
        if t is X['ExplosionRecord']:
            return t(self.ints(-128, 127), self.ints(-128, 127),
                     self.ints(-128, 127)), \
                lambda a, b: tuple(a) == tuple(b) and type(b) is t
        if t is X['EffectPosition']:
            if r.random() < 0.6:
                v = tuple(self.ints(-2 ** 31, 2 ** 31 - 1) / 8.0
                          for _ in range(3))
                return v, lambda a, b: tuple(a) == tuple(b)
            v = tuple(r.uniform(-1e6, 1e6) for _ in range(3))
            return v, lambda a, b: all(abs(x - y) <= 0.125
                                       for x, y in zip(a, b))
        if t is X['Pitch']:
            if ctx.protocol_later_eq(204):
                return f32(r.uniform(0, 2)), lambda a, b: a == b
            if ctx.protocol_later_eq(201):
                v = f32(r.uniform(0, 2))
                return v, lambda a, b: abs(a - b) <= 1e-5 * max(1, abs(a))
            v = r.randrange(-128, 128) / 63.5
            return v, lambda a, b: abs(a - b) <= 1 / 63.5 + 1e-9
        raise KeyError('no generator for type %r' % (t,))


# --------------------------------------------------------------------------
def custom_generators(G, P, T):
    """Hand-written generators: name -> fn(ctx, variant) -> (attrs dict,
    [(attr, cmp)], skip-reason or None)."""
    r = G.rng
    eq = lambda a, b: a == b     # noqa: E731
    cb, sb = P['cb'], P['sb']

    def map_packet(ctx, variant):
        M = cb.MapPacket
        a = {'map_id': G.value(T.VarInt, ctx)[0], 'scale': r.randrange(-2, 5)}
        a['is_tracking_position'] = (r.random() < 0.5) \
            if ctx.protocol_later_eq(107) else True
        a['is_locked'] = (r.random() < 0.5) if ctx.protocol_later_eq(452) \
            else False
        icons = []
        for _ in range((0, 1, 3, 2)[variant % 4]):
            new = ctx.protocol_later_eq(373)
            icons.append(M.MapIcon(
                type=r.randrange(300 if new else 16),
                direction=r.randrange(256 if new else 16),
                location=(r.randrange(-128, 128), r.randrange(-128, 128)),
                display_name=(r.choice((None, '{"text":"n"}', ''))
                              if ctx.protocol_later_eq(364) else None)))
        a['icons'] = icons
        if variant % 3 == 0:
            a.update(width=0, height=0, offset=None, pixels=None)
        else:
            w, h = r.choice(((1, 1), (128, 128), (3, 7), (255, 1)))
            a.update(width=w, height=h,
                     offset=(r.randrange(128), r.randrange(128)),
                     pixels=bytes(r.getrandbits(8) for _ in range(w * h)))
        return a, [(k, eq) for k in a], None

    def player_list(ctx, variant):
        K = cb.PlayerListItemPacket
        kind = variant % 5
        acts = []
        for _ in range(r.choice((0, 1, 3))):
            u = G.value(T.UUID, ctx)[0]
            if kind == 0:
                acts.append(K.AddPlayerAction(
                    uuid=u, name=G.string()[:16],
                    properties=[K.PlayerProperty(
                        name='textures', value=G.string(),
                        signature=r.choice((None, 'sig', '')))
                        for _ in range(r.randrange(3))],
                    gamemode=r.randrange(4), ping=G.value(T.VarInt, ctx)[0],
                    display_name=r.choice((None, '{"text":"d"}'))))
            elif kind == 1:
                acts.append(K.UpdateGameModeAction(uuid=u,
                                                   gamemode=r.randrange(4)))
            elif kind == 2:
                acts.append(K.UpdateLatencyAction(
                    uuid=u, ping=G.value(T.VarInt, ctx)[0]))
            elif kind == 3:
                acts.append(K.UpdateDisplayNameAction(
                    uuid=u, display_name=r.choice((None, 'dn', ''))))
            else:
                acts.append(K.RemovePlayerAction(uuid=u))
        a = {'action_type': [K.AddPlayerAction, K.UpdateGameModeAction,
                             K.UpdateLatencyAction, K.UpdateDisplayNameAction,
                             K.RemovePlayerAction][kind], 'actions': acts}
        return a, [('action_type', lambda x, y: x is y), ('actions', eq)], None

    def spawn_object(ctx, variant):
        a = {'entity_id': G.value(T.VarInt, ctx)[0]}
        if ctx.protocol_later_eq(49):
            a['object_uuid'] = G.value(T.UUID, ctx)[0]
        a['type_id'] = r.choice((0, 1, 94, 127, 300)) \
            if ctx.protocol_later_eq(458) else r.randrange(-128, 128)
        for c in 'xyz':
            a[c] = G.value(T.Double if ctx.protocol_later_eq(100)
                           else T.Integer, ctx)[0]
        a['pitch'] = r.randrange(256) * 360 / 256
        a['yaw'] = r.randrange(256) * 360 / 256
        a['data'] = r.choice((0, 1, -1, 2 ** 31 - 1, -2 ** 31))
        if ctx.protocol_later_eq(49) or a['data'] > 0:
            for c in 'xyz':
                a['velocity_' + c] = G.value(T.Short, ctx)[0]
        return a, [(k, eq) for k in a], None

    def combat_event(ctx, variant):
        K = cb.CombatEventPacket
        kind = variant % 3
        ev = K.EnterCombatEvent() if kind == 0 else \
            K.EndCombatEvent(duration=G.value(T.VarInt, ctx)[0],
                             entity_id=G.value(T.Integer, ctx)[0]) \
            if kind == 1 else \
            K.EntityDeadEvent(player_id=G.value(T.VarInt, ctx)[0],
                              entity_id=G.value(T.Integer, ctx)[0],
                              message=G.string())
        return {'event': ev}, [('event', eq)], None

    def face_player(ctx, variant):
        a = {}
        with_entity = variant % 2 == 0
        if ctx.protocol_later_eq(353):
            a['origin'] = r.randrange(2)
            for c in 'xyz':
                a[c] = G.value(T.Double, ctx)[0]
            a['entity_id'] = G.value(T.VarInt, ctx)[0] if with_entity else None
            if with_entity:
                a['entity_origin'] = r.randrange(2)
        else:
            a['entity_id'] = G.value(T.VarInt, ctx)[0] if with_entity else None
            if not with_entity:
                for c in 'xyz':
                    a[c] = G.value(T.Double, ctx)[0]
        return a, [(k, eq) for k in a], None

    def plugin_response(ctx, variant):
        v = variant % 4
        a = {'message_id': G.value(T.VarInt, ctx)[0]}
        if v == 0:
            a.update(successful=False, data=None)
            exp = (False, None)
        elif v == 1:
            d = bytes(r.getrandbits(8) for _ in range(r.choice((0, 1, 40))))
            a.update(successful=True, data=d)
            exp = (True, d)
        elif v == 2:
            d = bytes(r.getrandbits(8) for _ in range(r.choice((0, 7))))
            a.update(data=d)              # 'successful' left unset
            exp = (True, d)
        else:
            exp = (False, None)           # neither set
        return a, [('message_id', eq),
                   ('successful', lambda _w, rd, e=exp: rd == e[0]),
                   ('data', lambda _w, rd, e=exp: rd == e[1])], None

    return {'MapPacket': map_packet, 'PlayerListItemPacket': player_list,
            'SpawnObjectPacket': spawn_object,
            'CombatEventPacket': combat_event,
            'FacePlayerPacket': face_player,
            'PluginResponsePacket': plugin_response}


def layout_sig(definition):
    """Structural signature of a field list (field types that are instances,
    e.g. FixedPoint(Short, 12), are described by type and attributes: their
    default repr is an address, which the allocator reuses)."""
    def sig(t):
        if isinstance(t, type):
            return t
        attrs = getattr(t, '__dict__', None)
        if attrs is None:
            attrs = {k: getattr(t, k) for k in getattr(type(t), '__slots__',
                                                       ()) if hasattr(t, k)}
        return (type(t), tuple(sorted(
            (k, sig(v) if not isinstance(v, (int, float, str, bool,
                                             type(None))) else v)
            for k, v in attrs.items())))
    return [[(n, sig(t)) for n, t in field.items()] for field in definition]


def is_custom(K, Packet):
    return K.read is not Packet.read or \
        K.write_fields is not Packet.write_fields


def roundtrip(run, K, ctx, attrs, cmps, label, PacketBuffer, key_extra=''):
    """write -> parse frame -> read; returns nothing, records violations."""
    pv = ctx.protocol_version
    name = K.__name__
    w = {'class': name, 'pv': pv, 'variant': label,
         'fields': {k: v for k, v in list(attrs.items())[:12]}}
    try:
        p = K(context=ctx)
        for k, v in attrs.items():
            setattr(p, k, v)
        buf = PacketBuffer()
        p.write(buf)
    except Exception as e:
        run.violation('write-raised/%s/%s' % (name, type(e).__name__),
                      'writing a packet with wire-representable values raised',
                      dict(w, error=repr(e)))
        return
    frame = buf.get_writable()
    # a copy of the packet object writes the same bytes (shallow and deep)
    if isinstance(label, int) and label % 4 == 1:
        import copy
        for how, fn in (('copy', copy.copy), ('deepcopy', copy.deepcopy)):
            try:
                twin = fn(p)
                b2 = PacketBuffer()
                twin.write(b2)
                same = b2.get_writable() == frame
                err = None
            except Exception as e:
                same, err = False, repr(e)
            run.count('packet_copies_written')
            if not same:
                run.violation('copy/%s/%s' % (how, name), 'a %s of a packet '
                              'object does not write the same bytes as the '
                              'original' % how, dict(w, error=err))
                break
    try:
        length, pos = rv.decode(frame, 0)
        pid, pos2 = rv.decode(frame, pos)
    except EOFError:
        run.violation('frame/%s' % name, 'malformed frame', dict(w,
                                                                 frame=frame))
        return
    if length != len(frame) - pos:
        run.violation('frame-length/%s' % name, 'length prefix wrong',
                      dict(w, frame=frame))
        return
    try:
        want_id = K.get_id(ctx)
    except Exception as e:
        want_id = repr(e)
    if pid != want_id:
        run.violation('id/%s' % name, 'id on the wire differs from get_id',
                      dict(w, wire_id=pid, get_id=want_id))
    body = PacketBuffer()
    body.send(frame[pos2:])
    body.reset_cursor()
    try:
        q = K(context=ctx)
        q.read(body)
    except Exception as e:
        run.violation('read-raised/%s/%s' % (name, type(e).__name__),
                      'reading back the written packet raised',
                      dict(w, error=repr(e), payload=frame[pos2:]))
        return
    rest = body.read()
    if rest:
        run.violation('unread/%s' % name, 'payload not consumed exactly',
                      dict(w, unread=len(rest)))
    for attr, cmp in cmps:
        try:
            rd = getattr(q, attr)
        except Exception as e:
            run.violation('field-missing/%s.%s' % (name, attr), 'field not '
                          'readable after read()', dict(w, error=repr(e)))
            continue
        wr = attrs.get(attr)
        try:
            ok = cmp(wr, rd)
        except Exception as e:
            ok = False
        if not ok:
            run.violation('field/%s.%s' % (name, attr), 'field value differs '
                          'after write->read', dict(w, written=wr, read=rd))
    for obj, what in ((p, 'written'), (q, 'read')):
        try:
            s = repr(obj)
            assert isinstance(s, str) and name in s
        except Exception as e:
            run.violation('repr/%s' % name, 'repr() of the %s packet raised'
                          % what, dict(w, error=repr(e)))
    run.count('roundtrips')


def run(run):
    import minecraft
    from minecraft.networking import types as T
    from minecraft.networking.connection import ConnectionContext
    from minecraft.networking.packets import (Packet, PacketBuffer,
                                              clientbound, serverbound)
    thorough = run.tier == 'thorough'
    run.level = 'exploration'
    reps = 60 if thorough else 4
    run.rule = ('all %d supported protocol versions x every class of the 8 '
                'state/direction tables x %d value sets (boundary + seeded '
                'random; every action/event/optional-field variant for custom '
                'codecs), plus %d generated field-list packet definitions '
                '("programs"). Distinct = (version, class, values).'
                % (len(minecraft.SUPPORTED_PROTOCOL_VERSIONS), reps,
                   20000 if thorough else 600))
    run.assumptions = [
        'wire-representable = accepted by both write and read (e.g. map '
        'offsets 0..127, Angle/FixedPoint compared within one quantum)',
        'sound pitch before protocol 204 compared within one quantum (lossy '
        'byte/scaled encoding)']
    rng = run.rng('c05')
    cb, sb = clientbound.play, serverbound.play
    X = {'ChunkSectionPos': cb.MultiBlockChangePacket.ChunkSectionPos,
         'MBCRecord': cb.MultiBlockChangePacket.Record,
         'ExplosionRecord': cb.ExplosionPacket.Record,
         'EffectPosition': cb.SoundEffectPacket.EffectPosition,
         'Pitch': cb.SoundEffectPacket.Pitch}
    G = Gen(rng, T, X)
    custom = custom_generators(G, {'cb': cb, 'sb': serverbound.login}, T)
    tables = [clientbound.handshake, clientbound.status, clientbound.login,
              clientbound.play, serverbound.handshake, serverbound.status,
              serverbound.login, serverbound.play]
    # The (version, class) cases are visited in a seeded *shuffled* order, so
    # that behaviour depending on which versions were used before (module- or
    # class-level caches) has newer-then-older sequences to show itself in.
    cases = []
    case = 0
    for pv in minecraft.SUPPORTED_PROTOCOL_VERSIONS:
        ctx0 = ConnectionContext(protocol_version=pv)
        for mod in tables:
            classes = sorted(mod.get_packets(ctx0),
                             key=lambda k: (k.__module__, k.__qualname__))
            for K in classes:
                case += 1
                if run.mine(case):
                    cases.append((case, pv, K))
    rng.shuffle(cases)
    # half of the cases use one long-lived context object whose protocol
    # version is reassigned (what Connection.connect() does on every
    # reconnect): anything cached per context object must follow
    shared_ctx = ConnectionContext(protocol_version=cases[0][1] if cases
                                   else 757)
    for case, pv, K in cases:
        if case % 2:
            shared_ctx.protocol_version = pv
            ctx = shared_ctx
            run.count('cases_with_reused_context')
        else:
            ctx = ConnectionContext(protocol_version=pv)
        run.seen('classes', K.__module__.split('.')[-3][0] + ':' +
                 K.__qualname__)
        name = K.__name__
        if is_custom(K, Packet) and name not in custom:
            run.inconclusive_because(
                'class %s has a hand-written codec and no registered '
                'generator' % K.__qualname__)
            continue
        for rep in range(reps):
            try:
                if name in custom and is_custom(K, Packet):
                    attrs, cmps, skip = custom[name](ctx, rep)
                else:
                    attrs, cmps = {}, []
                    for field in K.get_definition(ctx):
                        for fname, ftype in field.items():
                            v, c = G.value(ftype, ctx)
                            attrs[fname] = v
                            cmps.append((fname, c))
            except KeyError as e:
                run.inconclusive_because(str(e))
                break
            run.case((pv, name, rep, repr(sorted(attrs.items(),
                                                 key=lambda i: i[0]))),
                     nontrivial=True)
            roundtrip(run, K, ctx, attrs, cmps, rep, PacketBuffer)
            if case % 997 == 0 and rep == 0:
                run.sample({'pv': pv, 'class': name, 'fields': attrs})

    # ---- programs: generated field-list definitions -------------------------
    leaf = [T.Boolean, T.UnsignedByte, T.Byte, T.Short, T.UnsignedShort,
            T.Integer, T.Long, T.UnsignedLong, T.Float, T.Double, T.VarInt,
            T.VarLong, T.String, T.UUID, T.Angle, T.Position,
            T.VarIntPrefixedByteArray, T.ShortPrefixedByteArray,
            T.FixedPoint(T.Integer), T.FixedPoint(T.Short, 12),
            T.FixedPoint(T.Byte), T.FixedPointInteger, T.NBT]

    def rand_type(depth=0):
        if depth < 3 and rng.random() < 0.25:
            return T.PrefixedArray(rng.choice((T.VarInt, T.Short, T.Byte,
                                               T.UnsignedByte, T.Integer)),
                                   rand_type(depth + 1))
        return rng.choice(leaf)
    n_prog = 20000 if thorough else 600
    for i in range(n_prog):
        if not run.mine(i):
            continue
        fields = [{'f%d' % j: rand_type()} for j in range(rng.randrange(1, 7))]
        if rng.random() < 0.35:
            # a definition entry is a dict: one with several items is several
            # fields in insertion order, an empty one is no field at all
            grouped, j = [], 0
            while j < len(fields):
                step = rng.randrange(0, 4)
                entry = {}
                for f in fields[j:j + step]:
                    entry.update(f)
                grouped.append(entry)
                j += step
            fields = grouped
            run.count('programs_grouped_entries')
        if rng.random() < 0.3:
            fields.append({'tail': T.TrailingByteArray})
        pid = rng.choice((0, 1, 0x7F, 0x80, 0x3FFF, 0x4000))
        # the layout is declared on a direct Packet subclass, or on a subclass
        # of a library packet class that has a version-dependent layout of its
        # own (the declared list then replaces the inherited one), or on the
        # instance
        base_kind = i % 4
        if base_kind == 1:
            base = rng.choice((clientbound.play.ChatMessagePacket,
                               clientbound.play.JoinGamePacket,
                               serverbound.play.KeepAlivePacket))
            K = type('GenPacket%d' % i, (base,), {
                'packet_name': 'generated', 'definition': fields})
            run.count('programs_on_library_subclasses')
        else:
            K = type('GenPacket%d' % i, (Packet,), {
                'id': pid, 'packet_name': 'generated', 'definition': fields})
        pv = rng.choice(minecraft.SUPPORTED_PROTOCOL_VERSIONS)
        ctx = ConnectionContext(protocol_version=pv)
        attrs, cmps = {}, []
        for f in fields:
            for fname, ftype in f.items():
                v, c = G.value(ftype, ctx)
                attrs[fname] = v
                cmps.append((fname, c))
        run.case(('program', i, repr(fields)))
        run.count('programs')
        # programs share one violation key family
        K.__name__ = 'GeneratedPacket'
        roundtrip(run, K, ctx, attrs, cmps, 'program %d: %r' % (i, fields),
                  PacketBuffer)
    run.extra['programs'] = run.counters.get('programs', 0)

    # ---- relay: a packet *received* under one version, re-sent under another -
    # The reader of the connection produces the packet object; a relay gives
    # that very object another context and writes it.  The id on the wire must
    # be the one registered for the context it is written under, and the
    # fields must survive (classes whose layout is the same in both versions).
    import socket
    from minecraft.networking.connection import Connection, PlayingReactor
    relay_pairs = []
    sup = list(minecraft.SUPPORTED_PROTOCOL_VERSIONS)
    for k in range(400 if thorough else 40):
        a_, b_ = rng.sample(sup, 2)
        relay_pairs.append((a_, b_))
    for k, (pva, pvb) in enumerate(relay_pairs):
        if not run.mine(k):
            continue
        ctxa = ConnectionContext(protocol_version=pva)
        ctxb = ConnectionContext(protocol_version=pvb)
        both = [K for K in clientbound.play.get_packets(ctxa)
                if K in clientbound.play.get_packets(ctxb)
                and not is_custom(K, Packet)
                and layout_sig(K.get_definition(ctxa)) ==
                layout_sig(K.get_definition(ctxb))
                and K.get_id(ctxa) != K.get_id(ctxb)]
        both.sort(key=lambda K: K.__qualname__)
        if not both:
            continue
        conn = Connection('127.0.0.1', 1, allowed_versions={pva})
        conn.context.protocol_version = pva
        reactor = PlayingReactor(conn)
        # (where two classes share an id the reader's table holds one of
        # them: that is C06's subject and recorded there, not a codec matter)
        both = [K for K in both
                if reactor.clientbound_packets.get(K.get_id(ctxa)) is K]
        # (the sound pitch is one type object with two encodings, byte-scaled
        # before protocol 204: same-looking layout, different value domain)
        if min(pva, pvb) < 204 <= max(pva, pvb):
            both = [K for K in both if K.__name__ != 'SoundEffectPacket']
        for K in rng.sample(both, min(len(both), 6)):
            attrs, cmps = {}, []
            for field in K.get_definition(ctxa):
                for fname, ftype in field.items():
                    v, c = G.value(ftype, ctxa)
                    attrs[fname] = v
                    cmps.append((fname, c))
            w = {'class': K.__name__, 'received_under': pva,
                 'written_under': pvb, 'fields': attrs}
            sa, sb_ = socket.socketpair()
            try:
                src = K(ctxa, **attrs)
                src.write(sa)
                stream = sb_.makefile('rb', 0)
                got = reactor.read_packet(stream, timeout=5)
                stream.close()
            except Exception as e:
                run.violation('relay/read-raised/%s' % K.__name__,
                              'the connection reader raised on a packet '
                              'written by the same class', dict(w,
                                                                error=repr(e)))
                continue
            finally:
                sa.close()
                sb_.close()
            if type(got) is not K:
                run.violation('relay/class/%s' % K.__name__, 'the reader '
                              'produced another class', dict(w,
                                                             got=repr(got)))
                continue
            how = rng.choice(('new-context', 'reassigned-version'))
            if how == 'new-context':
                got.context = ctxb
            else:
                conn.context.protocol_version = pvb
            try:
                out = PacketBuffer()
                got.write(out)
                frame = out.get_writable()
                length, pos = rv.decode(frame, 0)
                pid, pos2 = rv.decode(frame, pos)
            except Exception as e:
                run.violation('relay/write-raised/%s' % K.__name__,
                              're-writing a received packet raised',
                              dict(w, error=repr(e)))
                conn.context.protocol_version = pva
                continue
            conn.context.protocol_version = pva
            run.count('relayed_packets')
            run.case(('relay', pva, pvb, K.__name__, repr(attrs)))
            if pid != K.get_id(ctxb):
                run.violation('relay/id/%s' % how, 'a received packet written '
                              'under another version carries the id of the '
                              'version it was received under',
                              dict(w, wire_id=pid, id_for_written=K.get_id(ctxb),
                                   id_for_received=K.get_id(ctxa), how=how))
                continue
            body = PacketBuffer()
            body.send(frame[pos2:])
            body.reset_cursor()
            try:
                q = K(context=ctxb)
                q.read(body)
                bad = [f for f, c in cmps if not c(attrs[f], getattr(q, f))]
            except Exception as e:
                bad = [repr(e)]
            if bad or body.read():
                run.violation('relay/fields/%s' % K.__name__, 'fields of a '
                              'relayed packet differ', dict(w, fields_bad=bad))

    # ---- layouts must not depend on process history ---------------------------
    if run.shard == 0:
        import json
        import subprocess
        import sys
        from .. import core
        snaps = {}
        for order in ('asc', 'desc'):
            p = subprocess.run([sys.executable, '-m', 'vf.checks.c05_snapshot',
                                order], cwd=core.VERIF_DIR,
                               stdout=subprocess.PIPE, stderr=subprocess.PIPE,
                               timeout=300)
            if p.returncode:
                run.inconclusive_because('layout snapshot (%s) failed: %s' % (
                    order, p.stderr.decode()[-300:]))
                break
            snaps[order] = json.loads(p.stdout.decode())
        if len(snaps) == 2:
            run.count('layout_snapshots_compared', len(snaps['asc']))
            for key, layout in snaps['asc'].items():
                other = snaps['desc'].get(key)
                if other != layout:
                    run.violation(
                        'layout/history-dependent/%s' % key.split('.')[-1],
                        'the field layout a packet class reports for a version'
                        ' depends on which versions were used earlier in the '
                        'process (oldest-first vs newest-first sweep)',
                        {'class_and_version': key, 'oldest_first': layout,
                         'newest_first': other})
                    break
    run.require('roundtrips', 2000)
    run.require('classes', 40)
    run.require('programs', 50)
    run.require('relayed_packets', 10)
    if run.shard == 0:
        run.require('layout_snapshots_compared', 5000)
