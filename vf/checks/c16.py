"""C16 - connection lifecycle: one active thread, clean refusal, always reusable.

Generated call histories over {connect (against servers that hold / refuse /
disconnect in login / disconnect in play / fail mid-frame), status, disconnect,
disconnect(immediate), reconnect from a listener / exception handler / exit
callback} are executed on one real Connection, with explicit server barriers so
that the state before each call is unambiguous; a small lifecycle model
predicts each outcome.  Monitors: exceptions raised to API callers, TCP
connections accepted by the server, keep-alive echo on the live connection
after a refused call, thread termination, and the I/O event log (thread role x
logical time) whose role sequence must never interleave.  A second part lets
two user threads issue random calls concurrently under yield injection.
"""
import os
import queue
import threading
import time

from ..probes import client as pc
from ..probes.linemon import LineMonitor
from ..ref import core_packets as ref
from ..server import mcserver, scripts
from ..server.codec import codec_for

SHARDS = {'quick': 8, 'thorough': 16}

ACTIONS = ['connect-hold', 'connect-hold', 'connect-refused',
           'connect-login-disconnect', 'connect-play-disconnect',
           'connect-midframe', 'status', 'disconnect', 'disconnect',
           'disconnect-immediate', 'double-disconnect', 'disconnect-other-'
           'thread', 'reconnect-listener', 'reconnect-exc-handler',
           'reconnect-exit-callback', 'cancel-reconnect-listener',
           'stall-then-disconnect', 'negotiation-silent-then-disconnect',
           'reconnect-listener-lingers', 'status-ping-connect-in-callback',
           'reconnect-early-listener', 'reconnect-exit-callback-lingers']


class Harness(object):
    def __init__(self, pv, encrypted=False):
        self.pv = pv
        self.encrypted = encrypted
        self.codec = codec_for(pv)
        self.next_mode = 'hold'
        self.ka = 5000
        self.server = mcserver.Server(self.handler)
        self.refuser = mcserver.RefusingPort()
        self.closed_port = self.refuser.port
        self.ios = []

    def handler(self, io):
        io.cmds, io.results = queue.Queue(), queue.Queue()
        io.stray_ka = []
        io.phase = 'accepted'
        self.ios.append(io)
        codec, pv = self.codec, self.pv
        if self.next_mode == 'hold-greet':
            # unsolicited (and harmless: unknown id) data right after accept,
            # so that whoever selects on the new transport first finds it
            # readable
            io.send_frame(0x7E, b'greeting')
            self.next_mode = 'hold'
        hs = scripts.read_handshake(io)
        if hs is None:
            io.phase = 'closed-early'
            return
        if hs['next_state'] == 1 and self.next_mode == 'status-silent':
            # a server that accepts the status query and never answers it
            io.recv_frame()
            io.phase = 'status-silent'
            self.next_mode = 'hold'
            self._await_eof(io)
            return
        if hs['next_state'] == 1:
            io.recv_frame()
            io.send_frame(0x00, ref.encode_field('string',
                          '{"version":{"name":"x","protocol":%d}}' % pv))
            io.phase = 'status-served'
            # a client that measures the latency pings now
            try:
                fr = io.recv_frame(6.0)
                if fr is not None and fr[0] == 0x01:
                    io.send_frame(0x01, fr[1])
                    io.phase = 'status-ponged'
            except mcserver.ScriptTimeout:
                pass
            self._await_eof(io)
            return
        mode = self.next_mode
        io.mode = mode
        if mode == 'login-disconnect':
            io.recv_frame()
            did, dp = codec.encode('login_disconnect', {'reason': '"no"'})
            io.send_frame(did, dp)
            io.phase = 'done'
            self._await_eof(io)
            return
        if getattr(self, 'plugin_request', False):
            # a login plugin request before anything else (pv >= 393)
            io.recv_frame()                       # login start
            qid, qp = codec.encode('plugin_request', {
                'message_id': 3, 'channel': 'vf:hold', 'data': b''})
            io.send_frame(qid, qp)
            try:
                io.recv_frame(3.0)                # the answer (or nothing)
            except mcserver.ScriptTimeout:
                pass
            scripts.send_login_success(io, pv, codec)
        else:
            scripts.login_offline(io, pv, getattr(self, 'threshold', None),
                                  codec, encrypted=self.encrypted)
        if mode == 'stall':
            # a hung server: the beginning of a frame, then silence - it does
            # not even react to the client's end-of-stream
            kid, kp = codec.encode('cb_keep_alive', {'id': 1})
            data = io.encode_frame(kid, kp)
            io.send_raw(data[:len(data) - 3])
            io.phase = 'stalled'
            try:
                io.cmds.get(timeout=20.0)
            except queue.Empty:
                pass
            io.phase = 'done'
            return
        if mode == 'play-disconnect':
            did, dp = codec.encode('play_disconnect', {'reason': '"bye"'})
            io.send_frame(did, dp)
            io.phase = 'done'
            self._await_eof(io)
            return
        if mode == 'midframe':
            kid, kp = codec.encode('cb_keep_alive', {'id': 1})
            data = io.encode_frame(kid, kp)
            io.send_raw(data[:len(data) - 2])
            io.phase = 'done'
            io.half_close()
            self._await_eof(io)
            return
        io.phase = 'play'
        while True:
            try:
                cmd = io.cmds.get(timeout=0.02)
            except queue.Empty:
                cmd = None
            if cmd is None:
                try:
                    io._fill(0.005)
                except mcserver.ScriptTimeout:
                    pass
                if io.eof:
                    io.phase = 'eof'
                    return
                continue
            if cmd[0] == 'ka':
                kid, kp = codec.encode('cb_keep_alive', {'id': cmd[1]})
                io.send_frame(kid, kp)
                ok = False
                try:
                    while True:
                        fr = io.recv_frame(5.0)
                        if fr is None:
                            break
                        nm, vals = codec.decode('play', fr[0], fr[1])
                        if nm == 'sb_keep_alive' and vals['id'] == cmd[1]:
                            ok = True
                            break
                        if nm == 'sb_keep_alive':
                            io.stray_ka.append(vals['id'])
                except mcserver.ScriptTimeout:
                    pass
                io.results.put(ok)
            elif cmd[0] == 'kick':
                did, dp = codec.encode('play_disconnect', {'reason': '"kick"'})
                io.send_frame(did, dp)
            elif cmd[0] == 'pos':
                cid, cp = codec.encode('cb_position_look', {
                    'x': 1.0, 'y': 2.0, 'z': 3.0, 'yaw': 4.0, 'pitch': 5.0,
                    'flags': 0, 'teleport_id': 9, 'dismount': False})
                io.send_frame(cid, cp)
            elif cmd[0] == 'setcomp' and pv == 47:
                io.send_frame(0x46, ref.encode_field('varint', 64))
                io.enable_compression(64)
            elif cmd[0] == 'ka-noecho':
                kid, kp = codec.encode('cb_keep_alive', {'id': cmd[1]})
                io.send_frame(kid, kp)
            elif cmd[0] in ('trigger', 'cancel', 'linger', 'callnow-connect',
                            'callnow-status'):
                cid, cp = codec.encode('cb_chat', {
                    'json': '{"text":"%s"}' % (
                        'reconnect' if cmd[0] == 'trigger' else cmd[0]),
                    'position': 0,
                    'sender': '00000000-0000-0000-0000-000000000001'})
                io.send_frame(cid, cp)
            elif cmd[0] == 'stop':
                return

    def _await_eof(self, io):
        try:
            io.wait_eof(6.0)
        except mcserver.ScriptTimeout:
            io.never_closed = True

    def alive(self, io):
        self.ka += 1
        io.cmds.put(('ka', self.ka))
        try:
            return io.results.get(timeout=8.0)
        except queue.Empty:
            return False

    def stop(self):
        for io in self.ios:
            if hasattr(io, 'cmds'):
                io.cmds.put(('stop',))
        self.server.stop()
        self.refuser.close()


def role_interleaving(log):
    """Networking roles in order of their I/O events; returns the first
    (role, later role, seq) where an earlier thread does I/O after a later one
    has started, else None."""
    started = []
    for seq, role, kind, _pl in log.events:
        if kind not in ('io.read', 'io.send') or not role.startswith('net#'):
            continue
        if role not in started:
            started.append(role)
        elif role != started[-1]:
            return (role, started[-1], seq)
    return None


def foreign_transport_io(log):
    """A networking thread belongs to one connection generation (the
    transport that was current when it started doing I/O).  Returns the first
    (role, own generation, foreign generation, kind, seq) where a networking
    thread reads from / writes to a transport of another generation."""
    own = {}
    for seq, role, kind, pl in log.events:
        if kind not in ('io.read', 'io.send', 'io.shutdown', 'io.close') \
                or not role.startswith('net#'):
            continue
        g = pl.get('gen')
        if role not in own:
            own[role] = g
        elif own[role] != g:
            return (role, own[role], g, kind, seq)
    return None


def call_chain():
    """Names of the connection.py functions on the current stack (outermost
    first) - identifies the code path of an I/O event."""
    import sys
    f = sys._getframe(2)
    names = []
    while f is not None:
        if f.f_code.co_filename.endswith('connection.py'):
            names.append(f.f_code.co_name)
        f = f.f_back
    return '>'.join(reversed(names))


def stale_thread_findings(run, log, w):
    """Effects of an *interrupted* networking thread on its successor
    connection, identified by mechanism.  Returns True if any was seen."""
    seen = False
    foreign = foreign_transport_io(log)
    if foreign:
        seen = True
        path = ''
        for seq, role, kind, pl in log.events[:foreign[4]][::-1]:
            if kind == 'io.send.path' and role == foreign[0]:
                path = pl['path']
                break
        if '_react>disconnect' in path or '_handle_exit>disconnect' in path \
                or '_handle_exception>disconnect>' in path and \
                'run>_handle_exception>disconnect' not in path:
            # disconnect() called by *user code* running in the networking
            # thread (a listener or callback that has itself started the new
            # connection and now ends it): I/O on the new transport at the
            # user's request, not a stale thread
            run.count('foreign_io_at_user_request')
            seen = False
            key = None
        elif foreign[3] == 'io.send' and path.endswith(
                '_react>react>disconnect>_pop_packet>_write_packet'):
            key = 'stale-thread/reaction-disconnect-flushes-successor'
        elif foreign[3] in ('io.shutdown', 'io.close') and path.endswith(
                '_react>react>disconnect'):
            key = 'stale-thread/reaction-disconnect-flushes-successor'
        elif foreign[3] in ('io.shutdown', 'io.close') and path.endswith(
                'run>_handle_exception>disconnect'):
            key = 'stale-thread/error-teardown-closes-successor'
        elif foreign[3] == 'io.read':
            key = 'stale-thread/reads-successor-transport'
        elif foreign[3] == 'io.send' and path.endswith(
                '_react>react>write_packet>_write_packet'):
            # the forced write of a reaction (the encryption response)
            key = 'stale-thread/reaction-forced-write-on-successor-transport'
        else:
            key = 'threads/io-on-foreign-transport/%s/via:%s' % (foreign[3],
                                                                 path)
        if key is not None:
            run.violation(key, 'an interrupted networking thread, still '
                          'reacting to a packet it had read, did I/O on the '
                          'transport of the successor connection', dict(
                              w, detail=foreign,
                              trace=compact_trace(log, foreign[4])))
    for seq, role, kind, pl in log.events:
        if kind == 'state.reactor' and pl.get('stale'):
            seen = True
            key = 'stale-thread/login-success-overwrites-successor-reactor' \
                if pl['cls'] == 'PlayingReactor' else \
                'stale-thread/overwrites-reactor:%s' % pl['cls']
            run.violation(key, 'an interrupted networking thread replaced the '
                          'packet reactor of the successor connection',
                          dict(w, role=role, trace=compact_trace(log, seq)))
            break
    return seen


def compact_trace(log, upto, n=40):
    out = []
    for seq, role, kind, pl in log.events[max(0, upto - n):upto + 3]:
        extra = pl.get('gen', pl.get('op', ''))
        if kind == 'io.send':
            extra = 'gen%s %dB' % (pl.get('gen'), len(pl.get('data', b'')))
        if kind == 'api.raise':
            extra = '%s %s' % (pl.get('op'), pl.get('exc'))
        out.append('%d %s %s %s' % (seq, role, kind, extra))
    return out


def history_case(run, rng, pv, actions, idx, encrypted=False):
    from minecraft.exceptions import InvalidState
    from minecraft.networking import connection as C
    from minecraft.networking.packets import clientbound
    H = Harness(pv, encrypted)
    rec = pc.Recorder()
    hooks = {'exit': None, 'exc': None}
    w = {'pv': pv, 'history': list(actions), 'encrypted_sessions': encrypted}
    conn = None
    try:
        K = pc.monitored_connection_class()

        def handle_exit():
            rec.handle_exit()
            if hooks['exit']:
                f, hooks['exit'] = hooks['exit'], None
                f()

        def handle_exception(exc, info):
            rec.handle_exception(exc, info)
        conn = K('127.0.0.1', H.server.port, username='vfuser',
                 allowed_versions={pv}, handle_exception=handle_exception,
                 handle_exit=handle_exit)
        conn.vf_log = rec.log
        conn.vf_send_hook = lambda kind, proxy, data: rec.log.emit(
            'io.send.path', gen=proxy.gen, path=call_chain())

        def exc_handler(exc, info):
            if hooks['exc']:
                f, hooks['exc'] = hooks['exc'], None
                f()
        conn.register_exception_handler(exc_handler)

        def on_chat(packet):
            if 'cancel' in packet.json_data:
                # start a successor from inside the networking thread and
                # cancel it again before it has run
                conn.disconnect()
                conn.connect()
                conn.disconnect()
            elif 'linger' in packet.json_data:
                # reconnect, then keep the (old) networking thread busy in
                # this callback for a while
                conn.disconnect()
                conn.connect()
                time.sleep(linger_s)
            elif 'callnow' in packet.json_data:
                # the mistaken call made by the networking thread itself, on
                # its own live connection
                try:
                    if 'status' in packet.json_data:
                        conn.status(handle_status=False, handle_ping=False)
                    else:
                        conn.connect()
                    in_listener.append(None)
                except Exception as e:
                    in_listener.append(e)
            elif 'reconnect' in packet.json_data:
                conn.disconnect()
                conn.connect()
        in_listener = []
        conn.register_packet_listener(on_chat,
                                      clientbound.play.ChatMessagePacket)
        early_ids = []

        def on_ka_early(packet):
            # an *early* listener that reconnects and returns normally (no
            # IgnorePacket): the later stages still run for this packet
            if packet.keep_alive_id in early_ids:
                conn.disconnect()
                conn.connect()
        conn.register_packet_listener(on_ka_early,
                                      clientbound.play.KeepAlivePacket,
                                      early=True)
        state = 'idle'
        live = None
        lingered = []
        linger_s = 3.0 if idx % 2 == 0 else 4.0

        def bad(key, what, **extra):
            run.violation(key, what, dict(w, at_step=step, action=action,
                                          state_before=state0, **extra))

        def reach_play(n_before):
            """Wait until a new connection is in play state at the server."""
            ok = pc.wait_for(lambda: len(H.ios) > n_before and
                             getattr(H.ios[-1], 'phase', '') == 'play', 10.0)
            return H.ios[-1] if ok else None

        for step, action in enumerate(actions):
            state0 = state
            n_ios = len(H.ios)
            n_exc, n_exit = len(rec.exceptions), rec.exits
            run.count('calls')
            run.seen('state_action', '%s/%s' % (state, action))
            if action.startswith('connect-') or action == 'status' or \
                    action in ('reconnect-exc-handler',
                               'reconnect-exit-callback',
                               'reconnect-exit-callback-lingers'):
                mode = {'connect-hold': 'hold',
                        'connect-login-disconnect': 'login-disconnect',
                        'connect-play-disconnect': 'play-disconnect',
                        'connect-midframe': 'midframe',
                        'reconnect-exc-handler': 'login-disconnect',
                        'reconnect-exit-callback': 'play-disconnect',
                        'reconnect-exit-callback-lingers': 'play-disconnect'
                        }.get(action, 'hold')
                H.next_mode = mode
                if action == 'connect-refused':
                    conn.options.port = H.closed_port

                def again():
                    H.next_mode = 'hold'
                    conn.connect()
                if action == 'reconnect-exc-handler' and state == 'idle':
                    hooks['exc'] = again
                if action == 'reconnect-exit-callback' and state == 'idle':
                    hooks['exit'] = again

                def again_and_linger():
                    # the exit callback starts the next session and then goes
                    # on for a while (user code after connect())
                    again()
                    time.sleep(0.4)
                    lingered.append(1)
                if action == 'reconnect-exit-callback-lingers' and \
                        state == 'idle':
                    hooks['exit'] = again_and_linger
                raised = None
                from_listener = state == 'active' and (idx + step) % 2 == 1
                if state == 'active':
                    # what the user can read from the live object, and an
                    # option the application may have changed for next time
                    live.cmds.put(('pos',))
                    pc.wait_for(lambda: conn.spawned, 3.0)
                    import minecraft as _mc
                    wider = set(conn.allowed_proto_versions) | {
                        _mc.SUPPORTED_PROTOCOL_VERSIONS[-1],
                        _mc.SUPPORTED_PROTOCOL_VERSIONS[0]}
                    saved_allowed = conn.allowed_proto_versions
                    conn.allowed_proto_versions = wider
                    before_attrs = (conn.spawned, conn.connected,
                                    conn.context.protocol_version)
                try:
                    if from_listener:
                        # on an active connection the call may as well come
                        # from a listener, i.e. from the networking thread
                        del in_listener[:]
                        live.cmds.put(('callnow-status' if action == 'status'
                                       else 'callnow-connect',))
                        if not pc.wait_for(lambda: in_listener, 8.0):
                            return 'the listener making the call never ran'
                        raised = in_listener[0]
                        run.count('calls_on_active_from_a_listener')
                    elif action == 'status':
                        conn.status(handle_status=False, handle_ping=False)
                    else:
                        conn.connect()
                except Exception as e:
                    raised = e
                finally:
                    conn.options.port = H.server.port
                if state == 'active':
                    # must be refused, leaving the live connection undisturbed
                    hooks['exc'] = hooks['exit'] = None
                    after_attrs = (conn.spawned, conn.connected,
                                   conn.context.protocol_version)
                    conn.allowed_proto_versions = saved_allowed
                    if isinstance(raised, InvalidState) and \
                            after_attrs != before_attrs:
                        bad('active/attributes-changed', 'a refused connect()/'
                            'status() changed what the live connection '
                            'reports about itself (spawned, connected, '
                            'protocol version)', before=before_attrs,
                            after=after_attrs)
                        conn.context.protocol_version = before_attrs[2]
                    if not isinstance(raised, InvalidState):
                        bad('active/not-refused', 'connect()/status() on an '
                            'active connection must raise InvalidState',
                            raised=repr(raised), from_listener=from_listener)
                        return None
                    time.sleep(0.01)
                    if len(H.ios) != n_ios:
                        bad('active/opened-tcp', 'a refused call opened a TCP '
                            'connection')
                    if not H.alive(live):
                        bad('active/disturbed', 'the live connection no longer'
                            ' echoes keep-alives after a refused call')
                        return None
                    run.count('refusals_on_active')
                    continue
                # state idle
                if action == 'connect-refused':
                    if not isinstance(raised, OSError):
                        bad('idle/refused-connect', 'connect() to a closed '
                            'port should raise the socket error to the caller',
                            raised=repr(raised))
                    if not pc.wait_idle(conn, 10.0):
                        return 'threads alive after refused connect'
                    run.count('refused_tcp_connects')
                    continue
                if raised is not None:
                    bad('idle/connect-raised', 'connect()/status() on an idle '
                        'connection raised', raised=repr(raised))
                    return None
                if action in ('connect-hold',):
                    live = reach_play(n_ios)
                    if live is None or not H.alive(live):
                        bad('idle/connect-failed', 'connect() on an idle '
                            'connection did not produce a working session',
                            exc=repr(rec.exceptions[n_exc:]))
                        return None
                    state = 'active'
                elif action in ('reconnect-exc-handler',
                                'reconnect-exit-callback',
                                'reconnect-exit-callback-lingers'):
                    # first connection ends, the callback reconnects (hold)
                    ok = pc.wait_for(lambda: len(H.ios) >= n_ios + 2 and
                                     getattr(H.ios[-1], 'phase', '') == 'play',
                                     12.0)
                    if not ok or not H.alive(H.ios[-1]):
                        bad('reconnect/%s' % action, 'reconnecting from the '
                            'callback did not produce a working session',
                            connections=len(H.ios) - n_ios,
                            exc=repr(rec.exceptions[n_exc:]))
                        return None
                    live = H.ios[-1]
                    state = 'active'
                    run.count('reconnects_from_callbacks')
                    if action == 'reconnect-exit-callback-lingers':
                        # once the callback has returned, the new session is
                        # the registered, active one
                        pc.wait_for(lambda: lingered, 5.0)
                        time.sleep(0.1)
                        n_now = len(H.ios)
                        try:
                            conn.connect()
                            r2 = None
                        except Exception as e:
                            r2 = e
                        if not isinstance(r2, InvalidState):
                            bad('active/not-refused', 'connect()/status() on '
                                'an active connection must raise InvalidState '
                                '(session started by a lingering exit '
                                'callback)', raised=repr(r2))
                            return None
                        if len(H.ios) != n_now or not H.alive(live):
                            bad('active/disturbed', 'the live connection no '
                                'longer echoes keep-alives after a refused '
                                'call')
                            return None
                        run.count('reconnects_from_lingering_exit_callback')
                else:
                    if not pc.wait_idle(conn, 15.0):
                        return 'threads alive after %s: %s' % (
                            action, pc.dump_threads())
                    if action == 'connect-login-disconnect' and \
                            len(rec.exceptions) != n_exc + 1:
                        bad('end/login-disconnect', 'expected one error report')
                    if action == 'connect-midframe' and \
                            len(rec.exceptions) != n_exc + 1:
                        bad('end/midframe', 'expected one error report',
                            exc=repr(rec.exceptions[n_exc:]))
                    if action in ('connect-play-disconnect', 'status') and \
                            (rec.exits != n_exit + 1 or
                             len(rec.exceptions) != n_exc):
                        bad('end/clean', 'expected a clean end (one exit '
                            'callback, no error)', exits=rec.exits - n_exit,
                            exc=repr(rec.exceptions[n_exc:]))
                    state = 'idle'
            elif action in ('disconnect', 'disconnect-immediate',
                            'double-disconnect', 'disconnect-other-thread'):
                errs = []

                def call(imm=action == 'disconnect-immediate'):
                    try:
                        conn.disconnect(immediate=imm)
                    except BaseException as e:
                        errs.append(e)
                if action == 'disconnect-other-thread':
                    t = threading.Thread(target=call, name='user-b')
                    t.start()
                    t.join(10.0)
                else:
                    call()
                    if action == 'double-disconnect':
                        call()
                        call(True)
                if errs:
                    mech = 'never-connected' if not H.ios and \
                        not any(a == 'connect-refused'
                                for a in actions[:step]) else \
                        'after-refused-connect' if any(
                            a == 'connect-refused' for a in actions[:step]) \
                        and not H.ios else 'other'
                    bad('disconnect-raised/%s/%s' % (
                        mech, type(errs[0]).__name__),
                        'disconnect() raised', error=repr(errs[0]))
                    # keep going only if the state is still consistent
                    if state == 'active':
                        return None
                    continue
                if not pc.wait_idle(conn, 15.0):
                    bad('disconnect/thread-alive', 'networking thread did not '
                        'terminate after disconnect()',
                        threads=pc.dump_threads()[-800:])
                    return None
                if state == 'active':
                    if not pc.wait_for(lambda: live.eof, 8.0):
                        bad('disconnect/not-closed', 'server did not see the '
                            'connection close after disconnect()')
                    run.count('disconnects_of_active')
                else:
                    run.count('disconnects_of_idle')
                state = 'idle'
            elif action == 'stall-then-disconnect':
                if state != 'idle':
                    continue
                H.next_mode = 'stall'
                try:
                    conn.connect()
                except Exception as e:
                    bad('idle/connect-raised', 'connect() on an idle '
                        'connection raised', raised=repr(e))
                    return None
                if not pc.wait_for(lambda: len(H.ios) > n_ios and getattr(
                        H.ios[-1], 'phase', '') == 'stalled', 10.0):
                    return 'stall never reached'
                stalled = H.ios[-1]
                time.sleep(0.05)     # the client is now blocked mid-frame
                errs = []
                imm = rng.random() < 0.5

                def call():
                    try:
                        conn.disconnect(immediate=imm)
                    except BaseException as e:
                        errs.append(e)
                t = threading.Thread(target=call, name='user-b')
                t.start()
                t.join(6.0)
                hung = t.is_alive()
                done = not hung and pc.wait_idle(conn, 6.0)
                stalled.cmds.put(('stop',))
                if errs:
                    bad('disconnect-raised/stalled/%s' % type(errs[0]).__name__,
                        'disconnect() raised', error=repr(errs[0]))
                    return None
                if not done:
                    bad('disconnect/thread-alive', 'networking thread (blocked'
                        ' in the middle of a frame from a silent server) did '
                        'not terminate after disconnect()', immediate=imm,
                        disconnect_call_hung=hung)
                    pc.wait_idle(conn, 10.0)
                    return None
                H.next_mode = 'hold'
                state = 'idle'
                run.count('disconnects_of_stalled')
            elif action == 'status-ping-connect-in-callback':
                if state != 'idle':
                    continue
                H.next_mode = 'hold'
                cb_err = []

                def on_ping(_ms):
                    # the status query is over when its result is delivered:
                    # the same object may connect from inside this callback
                    try:
                        conn.connect()
                    except Exception as e:
                        cb_err.append(e)
                try:
                    conn.status(handle_status=False, handle_ping=on_ping)
                except Exception as e:
                    bad('idle/connect-raised', 'status() on an idle connection'
                        ' raised', raised=repr(e))
                    return None
                ok = pc.wait_for(lambda: cb_err or (
                    len(H.ios) >= n_ios + 2 and getattr(
                        H.ios[-1], 'phase', '') == 'play'), 12.0)
                if cb_err or not ok or not H.alive(H.ios[-1]):
                    bad('reconnect/ping-callback', 'connect() from inside the '
                        'latency callback of a status query did not produce a '
                        'working session', raised=repr(cb_err[:1]),
                        connections=len(H.ios) - n_ios,
                        exc=repr(rec.exceptions[n_exc:]))
                    if cb_err and not pc.wait_idle(conn, 5.0):
                        pc.safe_disconnect(conn)
                    return None
                live = H.ios[-1]
                state = 'active'
                run.count('connects_from_ping_callback')
            elif action == 'reconnect-early-listener':
                if state != 'active':
                    continue
                H.next_mode = 'hold'
                self_ka = 770000 + step
                early_ids.append(self_ka)
                live.cmds.put(('ka-noecho', self_ka))
                new = reach_play(n_ios)
                if new is None or not H.alive(new):
                    bad('reconnect/listener', 'disconnect()+connect() from an '
                        'early listener did not produce a working session',
                        exc=repr(rec.exceptions[n_exc:]))
                    return None
                stray = [i for i in getattr(new, 'stray_ka', ())
                         if i in early_ids]
                if stray:
                    bad('reconnect/old-session-reply-in-new-session', 'the '
                        'reply to a packet of the previous session was sent '
                        'on the new connection', stray=stray)
                    return None
                live = new
                run.count('reconnects_from_early_listener')
            elif action == 'negotiation-silent-then-disconnect':
                if state != 'idle':
                    continue
                other = 47 if pv != 47 else 340
                conn.allowed_proto_versions = {pv, other}
                H.next_mode = 'status-silent'
                # (the reader, woken by the socket shutdown, gets its turn
                # before disconnect() goes on to close the stream)
                conn.vf_close_delay = 0.05
                try:
                    conn.connect()
                except Exception as e:
                    conn.allowed_proto_versions = {pv}
                    bad('idle/connect-raised', 'connect() on an idle '
                        'connection raised', raised=repr(e))
                    return None
                ok = pc.wait_for(lambda: len(H.ios) > n_ios and getattr(
                    H.ios[-1], 'phase', '') == 'status-silent', 10.0)
                conn.allowed_proto_versions = {pv}
                if not ok:
                    return 'silent status step never reached'
                time.sleep(0.05)      # the client now waits for the reply
                errs = []

                def call():
                    try:
                        conn.disconnect(immediate=rng.random() < 0.5)
                    except BaseException as e:
                        errs.append(e)
                t = threading.Thread(target=call, name='user-b')
                t.start()
                t.join(8.0)
                idle = not t.is_alive() and pc.wait_idle(conn, 8.0)
                conn.vf_close_delay = 0
                time.sleep(0.1)
                if errs:
                    bad('disconnect-raised/negotiating/%s'
                        % type(errs[0]).__name__, 'disconnect() raised',
                        error=repr(errs[0]))
                    return None
                if len(H.ios) != n_ios + 1:
                    bad('disconnect/negotiation-goes-on', 'disconnect() during'
                        ' version negotiation was answered by a new TCP '
                        'connection', connections=len(H.ios) - n_ios)
                    pc.safe_disconnect(conn)
                    return None
                if not idle:
                    bad('disconnect/thread-alive', 'networking thread did not '
                        'terminate after disconnect() during version '
                        'negotiation', threads=pc.dump_threads()[-600:])
                    return None
                H.next_mode = 'hold'
                state = 'idle'
                run.count('disconnects_during_negotiation')
            elif action == 'reconnect-listener-lingers':
                if state != 'active':
                    continue
                H.next_mode = 'hold'
                t_linger = time.monotonic()
                live.cmds.put(('linger',))
                new = reach_play(n_ios) if pc.wait_for(
                    lambda: len(H.ios) > n_ios, 8.0) else None
                # (the successor may only start once the old thread has left
                # its callback: allow for the lingering)
                if new is None:
                    new = reach_play(n_ios)
                if new is None or not H.alive(new):
                    bad('reconnect/listener', 'disconnect()+connect() from a '
                        'listener that then lingers did not produce a working '
                        'session', exc=repr(rec.exceptions[n_exc:]))
                    return None
                # wait until the old thread has really left the callback
                time.sleep(max(0.0, t_linger + linger_s + 0.4 -
                               time.monotonic()))
                live = new
                run.count('reconnects_from_lingering_listener')
                # the new session is the active one: a further connect() must
                # be refused and leave it undisturbed
                n_now = len(H.ios)
                try:
                    conn.connect()
                    raised = None
                except Exception as e:
                    raised = e
                if not isinstance(raised, InvalidState):
                    bad('active/not-refused', 'connect()/status() on an '
                        'active connection must raise InvalidState (after a '
                        'listener reconnected and lingered)',
                        raised=repr(raised), lingered_s=linger_s)
                    return None
                if len(H.ios) != n_now or not H.alive(live):
                    bad('active/disturbed', 'the live connection no longer '
                        'echoes keep-alives after a refused call')
                    return None
            elif action == 'cancel-reconnect-listener':
                if state != 'active':
                    continue
                H.next_mode = 'hold'
                live.cmds.put(('cancel',))
                if not pc.wait_idle(conn, 15.0) or not pc.wait_for(
                        lambda: live.eof, 8.0):
                    bad('cancel-reconnect/not-idle', 'after disconnect(); '
                        'connect(); disconnect() inside a listener the '
                        'connection did not come to rest',
                        threads=pc.dump_threads()[-600:])
                    return None
                time.sleep(0.02)
                state = 'idle'
                run.count('cancelled_reconnects')
            elif action == 'reconnect-listener':
                if state != 'active':
                    continue
                H.next_mode = 'hold'
                live.cmds.put(('trigger',))
                new = reach_play(n_ios)
                if new is None or not H.alive(new):
                    bad('reconnect/listener', 'disconnect()+connect() from a '
                        'listener did not produce a working session',
                        exc=repr(rec.exceptions[n_exc:]))
                    return None
                if not pc.wait_for(lambda: live.eof, 8.0):
                    bad('reconnect/listener-old-open', 'the old connection was'
                        ' not closed')
                live = new
                run.count('reconnects_from_listener')
            inter = role_interleaving(rec.log)
            if inter:
                bad('threads/io-overlap', 'two networking threads of one '
                    'connection performed I/O in overlapping intervals',
                    detail=inter)
                return None
            if stale_thread_findings(run, rec.log, dict(w, at_step=step)):
                return None
        # final: always ends with a disconnect and a terminated thread
        try:
            conn.disconnect()
        except Exception as e:
            run.violation('disconnect-raised/final/%s' % type(e).__name__,
                          'final disconnect() raised', dict(w, error=repr(e)))
        if not pc.wait_idle(conn, 15.0):
            run.violation('disconnect/thread-alive', 'thread alive at the end',
                          w)
        else:
            # "always reusable": whatever the history was, the object can
            # connect once more
            H.next_mode = 'hold'
            n_ios = len(H.ios)
            try:
                conn.connect()
                ok = pc.wait_for(lambda: len(H.ios) > n_ios and getattr(
                    H.ios[-1], 'phase', '') == 'play', 10.0)
                if not ok or not H.alive(H.ios[-1]):
                    run.violation('reuse/final-connect-failed', 'after the '
                                  'history the object could not establish a '
                                  'working session', dict(
                                      w, exc=repr(rec.exceptions[-1:])))
            except Exception as e:
                run.violation('reuse/final-connect-raised', 'after the history'
                              ' connect() raised', dict(w, error=repr(e)))
            run.count('final_reuse_probes')
            try:
                conn.disconnect()
            except Exception:
                pass
            pc.wait_idle(conn, 10.0)
        run.count('histories')
        run.count('net_threads', sum(1 for r in set(rec.log.roles.values())
                                     if r.startswith('net#')))
        return None
    finally:
        H.stop()
        if conn is not None:
            try:
                conn.disconnect(immediate=True)
            except Exception:
                pass


def handover_gap_case(run, rng, pv, variant):
    """Delay injection at an existing suspension point: the successor thread's
    join() on its predecessor is held open *after* the predecessor has fully
    ended, so the connection sits in the hand-over gap (no current thread, a
    pending successor) while a second user thread calls connect()/status()/
    disconnect().  The calls must be refused (or, for disconnect, honoured)
    exactly as for an active connection."""
    from minecraft.exceptions import InvalidState
    from minecraft.networking import connection as C
    H = Harness(pv)
    rec = pc.Recorder()
    conn = None
    gap_open, gap_close = threading.Event(), threading.Event()
    orig_join = C.NetworkingThread.join
    w = {'pv': pv, 'variant': variant}

    def join(self, timeout=None):
        r = orig_join(self, timeout)
        if threading.current_thread() is not threading.main_thread() and \
                isinstance(threading.current_thread(), C.NetworkingThread) \
                and not gap_open.is_set():
            gap_open.set()
            gap_close.wait(5.0)
        return r
    try:
        K = pc.monitored_connection_class()
        conn = K('127.0.0.1', H.server.port, username='vfuser',
                 allowed_versions={pv}, handle_exception=rec.handle_exception,
                 handle_exit=rec.handle_exit)
        conn.vf_log = rec.log
        from minecraft.networking.packets import clientbound

        def on_chat(packet):
            # reconnect from inside the networking thread: the predecessor is
            # certainly alive when the successor is created
            if 'reconnect' in packet.json_data:
                conn.disconnect(immediate=variant.endswith('imm'))
                conn.connect()
        conn.register_packet_listener(on_chat,
                                      clientbound.play.ChatMessagePacket)
        conn.connect()
        if not pc.wait_for(lambda: H.ios and getattr(H.ios[-1], 'phase', '')
                           == 'play', 10.0):
            return 'first session never reached play'
        first = H.ios[-1]
        C.NetworkingThread.join = join
        H.next_mode = 'hold'
        first.cmds.put(('trigger',))         # successor waits for predecessor
        if not gap_open.wait(8.0):
            return 'hand-over gap never opened'
        n_ios = len(H.ios)
        in_gap = (conn.networking_thread is None and
                  conn.new_networking_thread is not None)
        run.count('gap.reached' if in_gap else 'gap.not_reached')
        results = []

        def second_user():
            for op in ('connect', 'status'):
                try:
                    if op == 'connect':
                        conn.connect()
                    else:
                        conn.status(handle_status=False, handle_ping=False)
                    results.append((op, None))
                except BaseException as e:
                    results.append((op, e))
        t = threading.Thread(target=second_user, name='user-b')
        t.start()
        t.join(10.0)
        time.sleep(0.02)
        opened = len(H.ios) - n_ios
        gap_close.set()
        C.NetworkingThread.join = orig_join
        for op, e in results:
            if not isinstance(e, InvalidState):
                run.violation('handover-gap/%s-not-refused' % op, 'a call made'
                              ' while a successor thread is pending (the '
                              'predecessor has just ended) was not refused '
                              'with InvalidState', dict(w, got=repr(e),
                                                        in_gap=in_gap))
        # only the pending reconnect may have opened a TCP connection
        pc.wait_for(lambda: getattr(H.ios[-1], 'phase', '') == 'play'
                    and H.ios[-1] is not first, 10.0)
        total_new = len(H.ios) - (H.ios.index(first) + 1)
        if total_new != 1:
            run.violation('handover-gap/extra-tcp', 'calls in the hand-over gap'
                          ' opened additional TCP connections',
                          dict(w, new_connections=total_new))
        elif not H.alive(H.ios[-1]):
            run.violation('handover-gap/session-disturbed', 'the pending '
                          'reconnect did not become a working session',
                          dict(w, exc=repr(rec.exceptions[:1])))
        alive = [th for th in threading.enumerate()
                 if isinstance(th, C.NetworkingThread)
                 and th.connection is conn]
        if len(alive) > 1:
            run.violation('handover-gap/two-threads', 'two networking threads '
                          'are alive for one connection', dict(w))
        run.count('gap.cases')
        return None
    finally:
        C.NetworkingThread.join = orig_join
        gap_close.set()
        H.stop()
        if conn is not None:
            try:
                conn.disconnect(immediate=True)
            except Exception:
                pass


def check_vs_lock_case(run, rng, pv, second_call):
    """Delay injection: thread B is held inside connect() (inside the
    connection's lock) on an idle object while thread A calls status() or
    connect().  A's call must be refused and must leave B's connection
    undisturbed - whether the activity check runs before or after waiting for
    the lock decides that."""
    from minecraft.exceptions import InvalidState
    H = Harness(pv)
    rec = pc.Recorder()
    conn = None
    w = {'pv': pv, 'second_call': second_call}
    b_in_connect = threading.Event()
    try:
        K = pc.monitored_connection_class()
        conn = K('127.0.0.1', H.server.port, username='vfuser',
                 allowed_versions={pv}, handle_exception=rec.handle_exception,
                 handle_exit=rec.handle_exit)
        conn.vf_log = rec.log
        calls = [0]

        def hook():
            calls[0] += 1
            if calls[0] == 1:
                b_in_connect.set()
                time.sleep(0.08)
        conn.vf_connect_hook = hook
        errs = []

        def b():
            try:
                conn.connect()
            except Exception as e:
                errs.append(e)
        tb = threading.Thread(target=b, name='user-b')
        tb.start()
        if not b_in_connect.wait(8.0):
            return 'thread B never entered connect()'
        raised = None
        try:
            if second_call == 'status':
                conn.status(handle_status=False, handle_ping=False)
            else:
                conn.connect()
        except Exception as e:
            raised = e
        tb.join(10.0)
        if errs:
            return 'thread B: %r' % errs[0]
        run.count('check_vs_lock_cases')
        if not isinstance(raised, InvalidState):
            run.violation('check-vs-lock/not-refused', 'a call made while '
                          'another thread was inside connect() was not '
                          'refused with InvalidState', dict(
                              w, raised=repr(raised)))
        ok = pc.wait_for(lambda: H.ios and getattr(H.ios[0], 'phase', '')
                         == 'play', 10.0)
        time.sleep(0.02)
        if len(H.ios) != 1:
            run.violation('check-vs-lock/opened-tcp', 'the refused call opened'
                          ' a TCP connection of its own (the activity check '
                          'ran before the lock was held)', dict(
                              w, connections=len(H.ios),
                              raised=repr(raised)))
        elif not ok or not H.alive(H.ios[0]):
            run.violation('check-vs-lock/disturbed', 'the connection started '
                          'by the other thread no longer works', dict(
                              w, raised=repr(raised),
                              exc=repr(rec.exceptions[:1])))
        return None
    finally:
        H.stop()
        if conn is not None:
            pc.safe_disconnect(conn)


def stale_read_case(run, rng, pv, idx):
    """Delay injection at one statement: the networking thread is held just
    before it calls read_packet() (i.e. after it has tested its interrupt
    flag) while a user thread disconnects and connects again.  The held thread
    must not go on to read from the new connection's transport."""
    import inspect
    import sys
    from minecraft.networking import connection as C
    src, first = inspect.getsourcelines(C.NetworkingThread._run)
    lines = [first + i for i, ln in enumerate(src) if 'read_packet(' in ln]
    if not lines:
        return 'no read_packet( call found in NetworkingThread._run'
    code = C.NetworkingThread._run.__code__
    H = Harness(pv)
    rec = pc.Recorder()
    conn = None
    held, release = threading.Event(), threading.Event()
    armed = [False]
    mon = sys.monitoring
    TOOL = 4
    w = {'pv': pv, 'case': idx}

    def on_line(co, lineno):
        if co is code and lineno in lines and armed[0]:
            armed[0] = False
            held.set()
            release.wait(5.0)
        return None
    try:
        K = pc.monitored_connection_class()
        conn = K('127.0.0.1', H.server.port, username='vfuser',
                 allowed_versions={pv}, handle_exception=rec.handle_exception,
                 handle_exit=rec.handle_exit)
        conn.vf_log = rec.log
        conn.vf_send_hook = lambda kind, proxy, data: rec.log.emit(
            'io.send.path', gen=proxy.gen, path=call_chain())
        conn.connect()
        if not pc.wait_for(lambda: H.ios and getattr(H.ios[-1], 'phase', '')
                           == 'play', 10.0):
            return 'first session never reached play'
        mon.use_tool_id(TOOL, 'vf-stale-read')
        mon.register_callback(TOOL, mon.events.LINE, on_line)
        mon.set_local_events(TOOL, code, mon.events.LINE)
        armed[0] = True
        if not held.wait(5.0):
            return 'networking thread never reached the read'
        # the thread has passed its interrupt test and is about to read
        conn.disconnect(immediate=True)
        H.next_mode = 'hold-greet'
        conn.connect()
        new = None
        if pc.wait_for(lambda: len(H.ios) >= 2, 5.0):
            new = H.ios[-1]
        time.sleep(0.01)          # let the greeting arrive
        release.set()
        time.sleep(0.05)
        run.count('stale_read_cases')
        stale = stale_thread_findings(run, rec.log, w)
        ok = new is not None and pc.wait_for(
            lambda: getattr(new, 'phase', '') == 'play', 10.0) and \
            H.alive(new)
        if not ok and not stale:
            run.violation('stale-read/new-session-broken', 'after disconnect'
                          '(); connect() while the old networking thread was '
                          'about to read, the new session does not work',
                          dict(w, exc=repr(rec.exceptions[:2])))
        return None
    finally:
        release.set()
        try:
            mon.set_local_events(TOOL, code, 0)
            mon.register_callback(TOOL, mon.events.LINE, None)
            mon.free_tool_id(TOOL)
        except Exception:
            pass
        H.stop()
        if conn is not None:
            pc.safe_disconnect(conn)


def disconnect_during_reaction_case(run, rng, pv, idx):
    """Delay injection inside LoginReactor.react: the networking thread is held
    at one statement of its reaction to the encryption request (chosen by
    idx) while a user thread calls disconnect().  Whatever the held thread
    goes on to do, disconnect() afterwards - any number of times - must not
    raise, the thread must end, and the object must connect again."""
    import inspect
    import sys
    from minecraft.networking import connection as C
    src, first = inspect.getsourcelines(C.LoginReactor.react)
    # statement-start lines between the forced write of the encryption
    # response and the end of that branch
    start = next((i for i, ln in enumerate(src)
                  if 'EncryptionResponsePacket()' in ln), None)
    end = next((i for i, ln in enumerate(src)
                if i > (start or 0) and ln.lstrip().startswith('elif ')), None)
    if start is None or end is None:
        return 'encryption branch not found in LoginReactor.react'
    lines = [first + i for i in range(start, end)
             if src[i].strip() and not src[i].lstrip().startswith('#')]
    line = lines[idx % len(lines)]
    code = C.LoginReactor.react.__code__
    H = Harness(pv, encrypted=True)
    rec = pc.Recorder()
    conn = None
    held, release = threading.Event(), threading.Event()
    armed = [True]
    mon = sys.monitoring
    TOOL = 4
    w = {'pv': pv, 'case': idx, 'held_at': 'LoginReactor.react:+%d %s' % (
        line - first, src[line - first].strip()[:60])}

    def on_line(co, lineno):
        if co is code and lineno == line and armed[0]:
            armed[0] = False
            held.set()
            release.wait(5.0)
        return None
    try:
        K = pc.monitored_connection_class()
        conn = K('127.0.0.1', H.server.port, username='vfuser',
                 allowed_versions={pv}, handle_exception=rec.handle_exception,
                 handle_exit=rec.handle_exit)
        conn.vf_log = rec.log
        mon.use_tool_id(TOOL, 'vf-react-hold')
        mon.register_callback(TOOL, mon.events.LINE, on_line)
        mon.set_local_events(TOOL, code, mon.events.LINE)
        conn.connect()
        if not held.wait(8.0):
            # (only statement-start lines fire; a continuation line never does)
            run.count('reaction_hold.line_never_reached')
            return None
        raised = []
        try:
            conn.disconnect(immediate=idx % 2 == 0)
        except Exception as e:
            raised.append(('while the thread was held', repr(e)))
        release.set()
        ended = pc.wait_idle(conn, 10.0)
        for k in range(2):
            try:
                conn.disconnect()
            except Exception as e:
                raised.append(('call %d after the thread ended' % (k + 1),
                               repr(e)))
        run.count('disconnects_during_encryption_setup')
        run.seen('reaction_hold_lines', line - first)
        if raised:
            run.violation('disconnect/raised-after-racing-encryption-setup',
                          'disconnect() raised; an earlier disconnect() had '
                          'been called while the networking thread was '
                          'switching the connection to encryption',
                          dict(w, raised=raised))
        if not ended:
            run.violation('disconnect/thread-alive', 'the networking thread '
                          'did not terminate after disconnect()',
                          dict(w, threads=pc.dump_threads()[-600:]))
            return None
        # the object is still usable
        H.next_mode = 'hold'
        n0 = len(H.ios)
        try:
            conn.connect()
        except Exception as e:
            run.violation('reconnect/after-racing-encryption-setup',
                          'connect() raised on the idle object',
                          dict(w, error=repr(e)))
            return None
        ok = pc.wait_for(lambda: len(H.ios) > n0 and getattr(
            H.ios[-1], 'phase', '') == 'play', 10.0) and H.alive(H.ios[-1])
        if not ok:
            run.violation('reconnect/after-racing-encryption-setup',
                          'the object did not produce a working session '
                          'afterwards', dict(w, exc=repr(rec.exceptions[:2])))
        return None
    finally:
        release.set()
        try:
            mon.set_local_events(TOOL, code, 0)
            mon.register_callback(TOOL, mon.events.LINE, None)
            mon.free_tool_id(TOOL)
        except Exception:
            pass
        H.stop()
        if conn is not None:
            pc.safe_disconnect(conn)


def reaction_sites():
    """Statement-start lines of the library's own reactions (login and play
    state) and of the dispatch around them: [(code, line, label, state)]."""
    import inspect
    from minecraft.networking import connection as C
    import re
    sites = []
    for fn, state in ((C.LoginReactor.react, 'login'),
                      (C.PlayingReactor.react, 'play'),
                      (C.Connection._react, 'any')):
        src, first = inspect.getsourcelines(fn)
        branch = ''
        for i, ln in enumerate(src[1:], 1):
            t = ln.strip()
            m = re.match(r'(?:el)?if packet\.packet_name == "([^"]+)"', t)
            if m:
                branch = m.group(1)
            if not t or t.startswith(('#', 'elif ', 'else:', 'except', 'try:',
                                      'finally:', '"""', "'")):
                continue
            sites.append((fn.__code__, first + i,
                          '%s:+%d %s' % (fn.__qualname__, i, t[:48]),
                          state + '/' + branch))
    return sites


def hold_sweep_case(run, rng, pv, site_idx, reconnect=False):
    """Delay injection, one statement at a time, over the library's own
    reactions: the networking thread is held at the chosen statement (first
    time it gets there) while a user thread calls disconnect().  After that
    call has returned: no further TCP connection is made, the thread ends,
    further disconnect() calls do not raise, and the object connects again to
    a working session."""
    import sys
    from minecraft.exceptions import InvalidState
    sites = reaction_sites()
    code, line, label, state = sites[site_idx % len(sites)]
    # the conversation that leads through the statement
    if state == 'login/login plugin request':
        pv = (757, 404)[site_idx % 2]
    elif state == 'play/set compression' or ('position_response' in label):
        pv = 47
    elif 'teleport_confirm' in label:
        pv = (757, 404, 340)[site_idx % 3]
    H = Harness(pv, encrypted=site_idx % 2 == 0 or
                state == 'login/encryption request')
    if state == 'login/set compression':
        H.threshold = 64
    if state == 'login/login plugin request':
        H.plugin_request = True
        H.encrypted = False
    if state == 'login/disconnect':
        H.next_mode = 'login-disconnect'
    rec = pc.Recorder()
    conn = None
    held, release = threading.Event(), threading.Event()
    armed = [True]
    mon = sys.monitoring
    TOOL = 4
    w = {'pv': pv, 'held_at': label, 'encrypted': H.encrypted}

    def on_line(co, lineno):
        if co is code and lineno == line and armed[0]:
            armed[0] = False
            held.set()
            release.wait(6.0)
        return None
    try:
        K = pc.monitored_connection_class()
        conn = K('127.0.0.1', H.server.port, username='vfuser',
                 allowed_versions={pv}, handle_exception=rec.handle_exception,
                 handle_exit=rec.handle_exit)
        conn.vf_log = rec.log
        conn.vf_send_hook = lambda kind, proxy, data: rec.log.emit(
            'io.send.path', gen=proxy.gen, path=call_chain())
        pc.observe_options(conn)
        from minecraft.networking.connection import NetworkingThread
        real_write_packet = conn.write_packet

        def observed_write_packet(packet, force=False):
            cur = threading.current_thread()
            if isinstance(cur, NetworkingThread) and cur.interrupt and (
                    conn.new_networking_thread is not None or
                    conn.networking_thread is not cur):
                rec.log.emit('state.queue', cls=type(packet).__name__,
                             force=force, stale=True)
            return real_write_packet(packet, force=force)
        conn.write_packet = observed_write_packet
        mon.use_tool_id(TOOL, 'vf-hold-sweep')
        mon.register_callback(TOOL, mon.events.LINE, on_line)
        mon.set_local_events(TOOL, code, mon.events.LINE)
        conn.connect()
        if not held.wait(1.5):
            # not a statement of the login phase: drive the play state
            live = None
            if pc.wait_for(lambda: H.ios and getattr(H.ios[-1], 'phase', '')
                           == 'play', 8.0):
                live = H.ios[-1]
            if live is None and state.startswith('login/'):
                # (a statement of a login branch this conversation does not
                # lead through, e.g. the other arm of a condition)
                run.count('hold_sweep.statement_never_reached')
                run.seen('hold_sweep_unreached', label)
                return None
            if live is None:
                return 'never reached play state'
            for cmd in (('setcomp',), ('ka-noecho', 4711), ('pos',),
                        ('kick',)):
                if held.is_set():
                    break
                live.cmds.put(cmd)
                held.wait(0.7)
        if not held.is_set():
            run.count('hold_sweep.statement_never_reached')
            run.seen('hold_sweep_unreached', label)
            if os.environ.get('VF_DEBUG'):
                open('/tmp/hold_unreached.txt', 'a').write('UNREACHED %s pv=%d enc=%s\n' % (
                    label, pv, H.encrypted))
            return None
        result = {}

        def user():
            try:
                conn.disconnect(immediate=site_idx % 3 == 0)
            except Exception as e:
                result['raised'] = e
            result['generation'] = getattr(conn, 'vf_generation', 0)
            if reconnect:
                H.next_mode = 'hold'
                H.threshold, H.plugin_request = None, False
                try:
                    conn.connect()
                except Exception as e:
                    result['connect_raised'] = e
        t = threading.Thread(target=user, name='user-disconnect', daemon=True)
        t.start()
        t.join(0.3)
        if reconnect and not t.is_alive():
            # let the successor get as far as it can while its predecessor
            # is still held (it waits for it to end)
            time.sleep(0.05)
        release.set()
        t.join(10.0)
        if t.is_alive():
            run.violation('disconnect/blocked', 'disconnect() did not return '
                          'within 10 s of the networking thread going on',
                          dict(w, threads=pc.dump_threads()[-600:]))
            return None
        if reconnect:
            # ---- disconnect(); connect() by the user thread ------------------
            w['user_calls'] = 'disconnect(); connect()'
            run.count('hold_sweep_reconnect_cases')
            run.seen('hold_sweep_reconnect_sites', label)
            if 'raised' in result or 'connect_raised' in result:
                run.violation('reconnect/user-thread/held-in-reaction/raised',
                              'disconnect() or the connect() after it raised',
                              dict(w, raised=repr(result.get('raised')),
                                   connect_raised=repr(result.get(
                                       'connect_raised'))))
                return None
            ok = pc.wait_for(lambda: any(getattr(io, 'phase', '') == 'play'
                                         and not io.eof for io in H.ios[1:]),
                             8.0)
            live = next((io for io in H.ios[1:][::-1]
                         if getattr(io, 'phase', '') == 'play'), None)
            ok = bool(ok and live is not None and H.alive(live))
            stale = stale_thread_findings(run, rec.log, w)
            writes = [(k, pl) for _s, _r, k, pl in rec.log.events
                      if k in ('state.options', 'state.transport',
                               'state.queue') and pl.get('stale')
                      and not (k == 'state.queue' and pl.get('force'))]
            if writes and not stale:
                kind, pl = writes[0]
                key = {'state.options':
                       'stale-thread/set-compression-alters-successor',
                       'state.transport':
                       'stale-thread/encryption-wraps-successor-transport',
                       'state.queue':
                       'stale-thread/reaction-queues-packet-for-successor'
                       }[kind]
                if kind == 'state.queue' and ok:
                    # (an answer queued for the successor that it could send
                    # without harm, e.g. after its own login had finished)
                    key = None
                    run.count('stale_queue_appends_without_effect')
            if writes and not stale and key is not None:
                run.violation(key, 'an interrupted networking thread, still '
                              'reacting to a packet it had read, changed state '
                              'of the successor connection (framing flags, '
                              'transport objects or outgoing queue)',
                              dict(w, write=pl, successor_works=ok))
                stale = True
            if ok and not stale:
                # the successor is the registered, active connection: a
                # further connect() is refused and leaves it undisturbed,
                # also once the predecessor has run to its end
                pc.wait_for(lambda: not any(
                    t.name.startswith('Networking') and t.is_alive()
                    and t is not conn.networking_thread
                    for t in threading.enumerate()
                    if getattr(t, 'connection', None) is conn), 3.0)
                gen0 = getattr(conn, 'vf_generation', 0)
                try:
                    conn.connect()
                    r2 = None
                except Exception as e:
                    r2 = e
                run.count('hold_sweep_refusal_probes')
                if not isinstance(r2, InvalidState) or \
                        getattr(conn, 'vf_generation', 0) != gen0 or \
                        not H.alive(live):
                    run.violation('active/not-refused/after-user-thread-'
                                  'reconnect', 'after disconnect(); connect() '
                                  'from a user thread (predecessor still '
                                  'inside a reaction at the time) a further '
                                  'connect() on the now active connection is '
                                  'not refused, or disturbs it',
                                  dict(w, raised=repr(r2),
                                       tcp_connects=getattr(
                                           conn, 'vf_generation', 0) - gen0))
            if not ok and not stale:
                run.violation('reconnect/user-thread/held-in-reaction',
                              'disconnect(); connect() from a user thread '
                              'while the networking thread was inside a '
                              'reaction: the new session does not work',
                              dict(w, exc=repr(rec.exceptions[:2]),
                                   phases=[getattr(io, 'phase', None)
                                           for io in H.ios]))
            return None
        time.sleep(0.2)
        settled = pc.wait_idle(conn, 5.0)
        raised = []
        if 'raised' in result:
            raised.append(('while the thread was held', repr(result['raised'])))
        for k in range(2):
            try:
                conn.disconnect()
            except Exception as e:
                raised.append(('call %d afterwards' % (k + 1), repr(e)))
        later = getattr(conn, 'vf_generation', 0) - result['generation']
        run.count('hold_sweep_cases')
        run.seen('hold_sweep_sites', label)
        if raised:
            run.violation('disconnect/raised/held-in-reaction',
                          'disconnect() raised; the first call had been made '
                          'while the networking thread was inside a reaction',
                          dict(w, raised=raised))
        if later or not settled:
            run.violation('disconnect/goes-on/held-in-reaction',
                          'after disconnect() had returned the object opened '
                          'a connection or kept a networking thread',
                          dict(w, connections_after_disconnect=later,
                               networking_thread_alive=not settled))
            return None
        H.next_mode = 'hold'
        n0 = len(H.ios)
        try:
            conn.connect()
        except Exception as e:
            run.violation('reconnect/held-in-reaction', 'connect() raised on '
                          'the idle object', dict(w, error=repr(e)))
            return None
        ok = pc.wait_for(lambda: len(H.ios) > n0 and getattr(
            H.ios[-1], 'phase', '') == 'play', 10.0) and H.alive(H.ios[-1])
        if not ok:
            run.violation('reconnect/held-in-reaction', 'the object did not '
                          'produce a working session afterwards',
                          dict(w, exc=repr(rec.exceptions[:2])))
        return None
    finally:
        release.set()
        try:
            mon.set_local_events(TOOL, code, 0)
            mon.register_callback(TOOL, mon.events.LINE, None)
            mon.free_tool_id(TOOL)
        except Exception:
            pass
        H.stop()
        if conn is not None:
            pc.safe_disconnect(conn)


def platform_and_interpreter_case(run, rng, pv, idx):
    """Two ways for a session to end that are nobody's protocol:
    'thread-start-fails'   - the platform cannot start a thread just when
                             connect() wants its networking thread
                             (RuntimeError from Thread.start(), raised to the
                             caller);
    'listener-exits'       - a listener raises SystemExit / KeyboardInterrupt
                             (sys.exit() in a callback): the networking thread
                             ends through a BaseException.
    Afterwards disconnect() does not raise, connect() on the now idle object is
    accepted and produces a working session."""
    from minecraft.exceptions import InvalidState
    from minecraft.networking import connection as C
    from minecraft.networking.packets import clientbound
    variant = ('thread-start-fails', 'listener-exits')[idx % 2]
    H = Harness(pv)
    rec = pc.Recorder()
    conn = None
    w = {'pv': pv, 'variant': variant}
    escaped = []
    old_hook = threading.excepthook
    threading.excepthook = lambda args: escaped.append(args.exc_type.__name__)
    orig_start = C.NetworkingThread.start
    try:
        K = pc.monitored_connection_class()
        conn = K('127.0.0.1', H.server.port, username='vfuser',
                 allowed_versions={pv}, handle_exception=rec.handle_exception,
                 handle_exit=rec.handle_exit)
        conn.vf_log = rec.log
        first_raised = None
        if variant == 'thread-start-fails':
            fail = [1]

            def start(self):
                if fail:
                    fail.pop()
                    raise RuntimeError("can't start new thread")
                return orig_start(self)
            C.NetworkingThread.start = start
            try:
                conn.connect()
            except Exception as e:
                first_raised = e
            C.NetworkingThread.start = orig_start
            w['connect_raised'] = repr(first_raised)
        else:
            exc_type = (SystemExit, KeyboardInterrupt)[idx // 2 % 2]
            w['listener_raises'] = exc_type.__name__
            fired = []

            def bye(packet):
                if not fired:
                    fired.append(1)
                    raise exc_type(0)
            conn.register_packet_listener(bye,
                                          clientbound.play.KeepAlivePacket)
            conn.connect()
            if not pc.wait_for(lambda: H.ios and getattr(
                    H.ios[-1], 'phase', '') == 'play', 10.0):
                return 'never reached play state'
            H.ios[-1].cmds.put(('ka-noecho', 99))
            if not pc.wait_for(lambda: fired, 5.0):
                return 'the exiting listener never ran'
            pc.wait_for(lambda: not any(t.is_alive()
                                        for t in pc.threads_of(conn)), 5.0)
        raised = []
        if variant == 'thread-start-fails' or idx // 4 % 2:
            try:
                conn.disconnect()
            except Exception as e:
                raised.append(repr(e))
        else:
            # (the thread is gone: the object is idle without anybody having
            # to say so)
            w['disconnect_called_before_reconnecting'] = False
        pc.wait_for(lambda: not any(t.is_alive()
                                    for t in pc.threads_of(conn)), 5.0)
        run.count('platform_and_interpreter_cases')
        if raised:
            run.violation('disconnect/raised/%s' % variant, 'disconnect() '
                          'raised', dict(w, raised=raised))
        H.next_mode = 'hold'
        # (the first connect() made a TCP connection even where it then
        # failed to start its thread: wait until the server's accept loop has
        # registered every connection made so far before counting)
        pc.wait_for(lambda: len(H.ios) >= getattr(conn, 'vf_generation', 0),
                    5.0)
        n0 = len(H.ios)
        try:
            conn.connect()
        except Exception as e:
            run.violation('reconnect/refused-on-idle-object/%s' % variant,
                          'connect() on the object whose session had ended '
                          'raised', dict(w, error=repr(e)))
            return None
        ok = pc.wait_for(lambda: len(H.ios) > n0 and getattr(
            H.ios[-1], 'phase', '') == 'play', 10.0) and H.alive(H.ios[-1])
        if not ok:
            run.violation('reconnect/no-session/%s' % variant, 'connect() on '
                          'the idle object was accepted but produced no '
                          'working session', dict(
                              w, exc=repr(rec.exceptions[:2]),
                              escaped=escaped[:3], threads=[
                                  t.name for t in threading.enumerate()][:8]))
            return None
        # ... and is then the registered, active connection
        try:
            conn.connect()
            r2 = None
        except Exception as e:
            r2 = e
        if not isinstance(r2, InvalidState):
            run.violation('active/not-refused/%s' % variant, 'a further '
                          'connect() on the active connection is not refused',
                          dict(w, raised=repr(r2)))
        return None
    finally:
        C.NetworkingThread.start = orig_start
        threading.excepthook = old_hook
        H.stop()
        if conn is not None:
            pc.safe_disconnect(conn)


def failing_flush_case(run, rng, pv, idx):
    """disconnect() with packets still queued, on a connection whose send()
    fails - not with "the peer has closed", but with a time-out, an
    unreachable host, a full buffer.  disconnect() does not raise, the thread
    ends, the object connects again."""
    import errno
    import socket as _socket
    from minecraft.networking.packets import serverbound
    H = Harness(pv)
    rec = pc.Recorder()
    conn = None
    kinds = [lambda: _socket.timeout('timed out'),
             lambda: OSError(errno.ETIMEDOUT, 'Connection timed out'),
             lambda: OSError(errno.EHOSTUNREACH, 'No route to host'),
             lambda: OSError(errno.ENOBUFS, 'No buffer space available'),
             lambda: BrokenPipeError(errno.EPIPE, 'Broken pipe'),
             lambda: OSError(errno.ENETDOWN, 'Network is down')]
    make_error = kinds[idx % len(kinds)]
    armed = []
    w = {'pv': pv, 'send_fails_with': repr(make_error())}
    try:
        K = pc.monitored_connection_class()
        conn = K('127.0.0.1', H.server.port, username='vfuser',
                 allowed_versions={pv}, handle_exception=rec.handle_exception,
                 handle_exit=rec.handle_exit)
        conn.vf_log = rec.log

        def send_hook(kind, proxy, data):
            if kind == 'send' and armed:
                raise make_error()
        conn.vf_send_hook = send_hook
        conn.connect()
        if not pc.wait_for(lambda: H.ios and getattr(H.ios[-1], 'phase', '')
                           == 'play', 10.0):
            return 'never reached play state'
        raised = []
        with conn._write_lock:
            for k in range(3):
                p = serverbound.play.ChatPacket()
                p.message = 'queued %d' % k
                conn.write_packet(p)
            armed.append(1)
            try:
                conn.disconnect()
            except Exception as e:
                raised.append(('flushing disconnect()', repr(e)))
        del armed[:]
        ended = pc.wait_idle(conn, 10.0)
        for k in range(2):
            try:
                conn.disconnect()
            except Exception as e:
                raised.append(('call %d afterwards' % (k + 1), repr(e)))
        run.count('failing_flush_cases')
        if raised:
            run.violation('disconnect/raised-when-flush-fails',
                          'disconnect() raised: a send() of its flush failed',
                          dict(w, raised=raised))
        if not ended:
            run.violation('disconnect/thread-alive', 'the networking thread '
                          'did not terminate after disconnect()',
                          dict(w, threads=pc.dump_threads()[-600:]))
            return None
        H.next_mode = 'hold'
        n0 = len(H.ios)
        try:
            conn.connect()
        except Exception as e:
            run.violation('reconnect/after-failing-flush', 'connect() raised '
                          'on the idle object', dict(w, error=repr(e)))
            return None
        ok = pc.wait_for(lambda: len(H.ios) > n0 and getattr(
            H.ios[-1], 'phase', '') == 'play', 10.0) and H.alive(H.ios[-1])
        if not ok:
            run.violation('reconnect/after-failing-flush', 'the object did '
                          'not produce a working session afterwards',
                          dict(w, exc=repr(rec.exceptions[:2])))
        return None
    finally:
        del armed[:]
        H.stop()
        if conn is not None:
            pc.safe_disconnect(conn)


def stale_error_vs_successor_case(run, rng, pv, idx):
    """Delay injection at one statement: connect() is negotiating the version
    with a server that does not answer the status query; a user thread calls
    disconnect() and, at once, connect() again.  The old networking thread,
    woken by the shutdown with an end-of-stream error, is held at the first
    statement of Connection._handle_exception until the second connect() has
    returned.  Whatever it does then, the session the user asked for last must
    come about: negotiated with the (now answering) server, at the server's
    version."""
    import sys
    import minecraft
    from minecraft.networking import connection as C
    code = C.Connection._handle_exception.__code__
    first_line = code.co_firstlineno + 1
    others = [p for p in minecraft.SUPPORTED_PROTOCOL_VERSIONS
              if minecraft.KNOWN_PROTOCOL_VERSIONS.index(p) >
              minecraft.KNOWN_PROTOCOL_VERSIONS.index(pv)]
    if not others:
        return None
    default = others[-1]           # the latest allowed: the fallback version
    H = Harness(pv)
    rec = pc.Recorder()
    conn = None
    held, release = threading.Event(), threading.Event()
    armed = [False]
    mon = sys.monitoring
    TOOL = 4
    w = {'pv_server': pv, 'fallback_version': default, 'case': idx}

    def on_line(co, lineno):
        if co is code and armed[0]:
            armed[0] = False
            held.set()
            release.wait(6.0)
        return mon.DISABLE if co is not code else None
    try:
        K = pc.monitored_connection_class()
        conn = K('127.0.0.1', H.server.port, username='vfuser',
                 allowed_versions={pv, default},
                 handle_exception=rec.handle_exception,
                 handle_exit=rec.handle_exit)
        conn.vf_log = rec.log
        # (a pause between the socket shutdown and the close of the stream
        # object inside disconnect(): the woken reader then meets the end of
        # the stream, not a closed descriptor)
        conn.vf_close_delay = 0.05
        H.next_mode = 'status-silent'
        conn.connect()
        if not pc.wait_for(lambda: H.ios and getattr(H.ios[0], 'phase', '')
                           == 'status-silent', 8.0):
            return 'the status query never arrived'
        mon.use_tool_id(TOOL, 'vf-stale-exc')
        mon.register_callback(TOOL, mon.events.LINE, on_line)
        mon.set_local_events(TOOL, code, mon.events.LINE)
        armed[0] = True
        conn.disconnect(immediate=idx % 2 == 0)
        reached = held.wait(3.0)
        if reached:
            run.count('stale_error_held_before_routing')
        else:
            # (the old thread saw its interrupt flag first and left quietly)
            run.count('stale_error_thread_left_quietly')
        try:
            conn.connect()
        except Exception as e:
            release.set()
            run.violation('reconnect/user-thread-after-negotiation-disconnect',
                          'connect() after disconnect() raised',
                          dict(w, error=repr(e)))
            return None
        time.sleep(0.02)
        release.set()
        ok = pc.wait_for(lambda: any(getattr(io, 'phase', '') == 'play'
                                     for io in H.ios[1:]), 10.0)
        live = next((io for io in H.ios[1:]
                     if getattr(io, 'phase', '') == 'play'), None)
        hs_versions = [getattr(io, 'handshake', None) for io in H.ios]
        run.count('stale_error_vs_successor_cases')
        if not ok or live is None or not H.alive(live):
            run.violation('stale-thread/error-routing-kills-successor',
                          'disconnect(); connect() from a user thread while '
                          'the old networking thread was about to route its '
                          'end-of-stream error: the new connect() did not '
                          'produce a working session',
                          dict(w, phases=[getattr(io, 'phase', None)
                                          for io in H.ios],
                               exc=repr(rec.exceptions[:3])))
            return None
        ctx_pv = conn.context.protocol_version
        if ctx_pv != pv:
            run.violation('stale-thread/error-routing-replaces-successor',
                          'the session that came about is not the negotiated '
                          'one (the old thread\'s default-version fallback '
                          'took over)', dict(w, session_version=ctx_pv,
                                             connections=len(H.ios)))
        return None
    finally:
        release.set()
        try:
            mon.set_local_events(TOOL, code, 0)
            mon.register_callback(TOOL, mon.events.LINE, None)
            mon.free_tool_id(TOOL)
        except Exception:
            pass
        H.stop()
        if conn is not None:
            pc.safe_disconnect(conn)


def disconnect_during_negotiation_reaction_case(run, rng, pv, idx):
    """Delay injection inside the reaction to the status response during
    connect()'s version negotiation: the networking thread has read the
    response and is held at one statement of StatusReactor.react /
    PlayingStatusReactor.handle_status (chosen by idx) while a user thread
    calls disconnect().  After that call nothing must go on: no login
    connection, no networking thread."""
    import inspect
    import sys
    import minecraft
    from minecraft.networking import connection as C
    sites = []
    fns = [C.StatusReactor.react, C.PlayingStatusReactor.handle_status,
           C.PlayingStatusReactor.handle_proto_version]
    if C.PlayingStatusReactor.react is not C.StatusReactor.react:
        fns.insert(0, C.PlayingStatusReactor.react)
    for fn in fns:
        src, first = inspect.getsourcelines(fn)
        for i, ln in enumerate(src[1:], 1):
            t = ln.strip()
            if t and not t.startswith('#') and not t.startswith(('elif', 'else')):
                sites.append((fn.__code__, first + i, '%s:+%d %s' % (
                    fn.__qualname__, i, t[:50])))
    code, line, label = sites[idx % len(sites)]
    others = [p for p in minecraft.SUPPORTED_PROTOCOL_VERSIONS if p != pv]
    H = Harness(pv)
    rec = pc.Recorder()
    conn = None
    held, release = threading.Event(), threading.Event()
    armed = [True]
    mon = sys.monitoring
    TOOL = 4
    w = {'pv': pv, 'case': idx, 'held_at': label}

    def on_line(co, lineno):
        if co is code and lineno == line and armed[0]:
            armed[0] = False
            held.set()
            release.wait(6.0)
        return None
    try:
        K = pc.monitored_connection_class()
        conn = K('127.0.0.1', H.server.port, username='vfuser',
                 allowed_versions={pv, rng.choice(others)},
                 handle_exception=rec.handle_exception,
                 handle_exit=rec.handle_exit)
        conn.vf_log = rec.log
        # an ordinary listener for the status response: it runs after the
        # built-in reaction, whether or not that reaction still had anything
        # to do (nobody signals 'ignore' in this conversation)
        from minecraft.networking.packets import clientbound as _cbs
        response_seen = []
        conn.register_packet_listener(
            lambda p: response_seen.append(1), _cbs.status.ResponsePacket)
        mon.use_tool_id(TOOL, 'vf-neg-hold')
        mon.register_callback(TOOL, mon.events.LINE, on_line)
        mon.set_local_events(TOOL, code, mon.events.LINE)
        conn.connect()
        if not held.wait(8.0):
            run.count('negotiation_hold.line_never_reached')
            return None
        # (the held statement may lie inside a critical section that
        # disconnect() has to wait for: the call is made by a helper and the
        # thread is released when the call has returned or is blocked; what
        # counts is what happens after the call has *returned*)
        result = {}

        def user():
            try:
                conn.disconnect(immediate=idx % 2 == 1)
            except Exception as e:
                result['raised'] = e
            # client-side count of TCP connections made so far
            result['generation'] = getattr(conn, 'vf_generation', 0)
        t = threading.Thread(target=user, name='user-disconnect', daemon=True)
        t.start()
        t.join(0.3)
        if t.is_alive():
            run.count('disconnects_that_waited_for_the_reaction')
        release.set()
        t.join(10.0)
        if t.is_alive():
            return 'disconnect() did not return'
        # let whatever the released thread does come about
        time.sleep(0.3)
        settled = pc.wait_idle(conn, 3.0)
        run.count('disconnects_during_negotiation_reaction')
        run.seen('negotiation_hold_sites', label)
        later = getattr(conn, 'vf_generation', 0) - result['generation']
        if not rec.exceptions and len(response_seen) != 1:
            run.violation('listeners/skipped-after-racing-disconnect',
                          'the ordinary listener for the status response was '
                          'called %d times (no listener signalled ignore, no '
                          'error was reported)' % len(response_seen), w)
        if 'raised' in result:
            run.violation('disconnect/raised-during-negotiation',
                          'disconnect() raised',
                          dict(w, error=repr(result['raised'])))
        if later or not settled:
            run.violation('disconnect/negotiation-goes-on/after-status-reply',
                          'disconnect() was called while the networking '
                          'thread was reacting to the status reply of the '
                          'version negotiation; after the call had returned '
                          'the negotiation went on and opened the login '
                          'connection',
                          dict(w, connections_after_disconnect=later,
                               networking_thread_alive=not settled))
        return None
    finally:
        release.set()
        try:
            mon.set_local_events(TOOL, code, 0)
            mon.register_callback(TOOL, mon.events.LINE, None)
            mon.free_tool_id(TOOL)
        except Exception:
            pass
        H.stop()
        if conn is not None:
            pc.safe_disconnect(conn)


def two_connection_cases(run, rng, pv, idx):
    """Two Connection objects in one process, each with its own server
    session.  (a) Both are kicked at the same moment and each one's disconnect
    listener also calls disconnect() on the *other* object (a relay tearing
    down both legs): both networking threads must end.  (b) The exit callback
    of one hands the reconnect to a supervisor thread and waits for it: the
    supervisor must be able to use the connection while the callback runs."""
    from minecraft.networking.packets import clientbound
    from ..probes import baton as _baton
    variant = ('cross-disconnect', 'exit-callback-delegates')[idx % 2]
    H = Harness(pv)
    recs = [pc.Recorder(), pc.Recorder()]
    conns = []
    w = {'pv': pv, 'two_connections': variant}
    try:
        K = pc.monitored_connection_class()
        barrier = threading.Barrier(2)
        delegated = []

        def make(i):
            def handle_exit():
                recs[i].handle_exit()
                if variant != 'exit-callback-delegates' or i != 0 or delegated:
                    return
                done_ev = threading.Event()

                def supervisor():
                    try:
                        H.next_mode = 'play-disconnect'
                        conns[0].connect()
                        delegated.append('ok')
                    except Exception as e:
                        delegated.append(repr(e))
                    done_ev.set()
                threading.Thread(target=supervisor, name='supervisor',
                                 daemon=True).start()
                if not done_ev.wait(8.0):
                    owner = getattr(conns[0]._write_lock, 'owner', None)
                    delegated.append('blocked; write lock owned by %s' % (
                        'the networking thread that runs the exit callback'
                        if owner == threading.get_ident() else owner))
            c = K('127.0.0.1', H.server.port, username='vfuser%d' % i,
                  allowed_versions={pv},
                  handle_exception=recs[i].handle_exception,
                  handle_exit=handle_exit)
            c.vf_log = recs[i].log
            c._write_lock = _baton.LockProxy(_baton.NullScheduler())
            return c
        conns.extend([make(0), make(1)])
        if variant == 'cross-disconnect':
            for i in (0, 1):
                def on_kick(_p, i=i):
                    try:
                        barrier.wait(3.0)
                    except threading.BrokenBarrierError:
                        pass
                    conns[1 - i].disconnect()
                conns[i].register_packet_listener(
                    on_kick, clientbound.play.DisconnectPacket)
        H.next_mode = 'hold'
        for c in conns:
            c.connect()
        if not pc.wait_for(lambda: len(H.ios) >= 2 and all(
                getattr(io, 'phase', '') == 'play' for io in H.ios[:2]), 10.0):
            return 'two sessions never reached play'
        if variant == 'cross-disconnect':
            for io in H.ios[:2]:
                io.cmds.put(('kick',))
        else:
            H.ios[0].cmds.put(('kick',))
        ok = all(pc.wait_idle(c, 12.0) for c in conns[:1]) and (
            variant != 'cross-disconnect' or pc.wait_idle(conns[1], 12.0))
        run.count('two_connection_cases')
        run.seen('two_connection_variants', variant)
        if variant == 'cross-disconnect' and not ok:
            run.violation('disconnect/cross-connection-deadlock', 'two '
                          'connections whose listeners disconnect each other '
                          'at the same time never came to rest', dict(
                              w, threads=pc.dump_threads()[-1500:]))
            return None
        if variant == 'exit-callback-delegates':
            if not delegated or delegated[0] != 'ok' or not ok:
                run.violation('reconnect/exit-callback-cannot-delegate', 'an '
                              'exit callback that hands the reconnect to '
                              'another thread and waits for it never sees it '
                              'finish', dict(w, detail=delegated[:2],
                                             idle=ok))
                return None
        return None
    finally:
        H.stop()
        for c in conns:
            pc.safe_disconnect(c)


def stress_case(run, rng, pv, idx):
    """Two user threads issue random calls concurrently."""
    from minecraft.exceptions import InvalidState
    H = Harness(pv)
    rec = pc.Recorder()
    conn = None
    problems = []
    w = {'pv': pv, 'stress': idx}
    try:
        K = pc.monitored_connection_class()
        conn = K('127.0.0.1', H.server.port, username='vfuser',
                 allowed_versions={pv}, handle_exception=rec.handle_exception,
                 handle_exit=rec.handle_exit)
        conn.vf_log = rec.log
        conn.vf_send_hook = lambda kind, proxy, data: rec.log.emit(
            'io.send.path', gen=proxy.gen, path=call_chain())
        plans = [[rng.choice(('connect', 'connect', 'status', 'disconnect',
                              'disconnect-immediate'))
                  for _ in range(rng.randrange(2, 6))] for _ in range(2)]
        w['plans'] = plans
        barrier = threading.Barrier(2)

        def user(plan, name):
            barrier.wait(5.0)
            for a in plan:
                rec.log.emit('api.call', op=a)
                try:
                    if a == 'connect':
                        conn.connect()
                    elif a == 'status':
                        conn.status(handle_status=False, handle_ping=False)
                    else:
                        conn.disconnect(immediate=a.endswith('immediate'))
                    rec.log.emit('api.ret', op=a)
                except InvalidState:
                    rec.log.emit('api.raise', op=a, exc='InvalidState')
                except Exception as e:
                    rec.log.emit('api.raise', op=a, exc=repr(e))
                    problems.append((name, a, repr(e)))
                if rng.random() < 0.5:
                    time.sleep(rng.choice((0, 0.001, 0.004)))
        with LineMonitor(files=['minecraft/networking/connection.py'],
                         yield_prob=0.12, seed=rng.getrandbits(32)) as mon:
            ts = [threading.Thread(target=user, args=(p, 'user-%d' % i),
                                   name='user-%d' % i)
                  for i, p in enumerate(plans)]
            for t in ts:
                t.start()
            for t in ts:
                t.join(30.0)
            if any(t.is_alive() for t in ts):
                return 'user threads stuck: ' + pc.dump_threads()
            errs = []
            try:
                conn.disconnect()
            except Exception as e:
                errs.append(e)
            idle = pc.wait_idle(conn, 20.0)
            run.count('stress.line_events', mon.events)
            run.count('stress.yields', mon.yields)
        run.count('stress_runs')
        for name, a, e in problems:
            kind = 'disconnect' if a.startswith('disconnect') else a
            kind += '-raised/' + e.split('(')[0]
            run.violation('stress/%s' % kind, 'a call raised something '
                          'other than InvalidState under concurrency',
                          dict(w, thread=name, error=e))
        if errs:
            run.violation('stress/final-disconnect-raised', 'disconnect() '
                          'raised', dict(w, error=repr(errs[0])))
        if not idle and not stale_thread_findings(run, rec.log, w):
            run.violation('stress/thread-alive', 'a networking thread '
                          'survived the final disconnect()',
                          dict(w, threads=pc.dump_threads()[-800:]))
        inter = role_interleaving(rec.log)
        if inter:
            run.violation('threads/io-overlap', 'two networking threads '
                          'performed I/O in overlapping intervals',
                          dict(w, detail=inter))
        stale = stale_thread_findings(run, rec.log, w)
        run.count('stress.io_events', len(rec.log.of('io.read', 'io.send')))
        # spurious errors reported to the handler (besides transport ones);
        # when the foreign-transport monitor fired, garbage decoded from the
        # wrong stream is its consequence and is not reported a second time
        for e in rec.exceptions:
            if stale:
                break
            if not isinstance(e, (OSError, EOFError, ValueError)):
                import traceback
                tb = ''.join(traceback.format_tb(e.__traceback__)[-6:])
                run.violation('stress/unexpected-error-report', 'unexpected '
                              'error reported under concurrent calls',
                              dict(w, exc=repr(e), tb=tb[-1500:],
                                   trace=compact_trace(
                                       rec.log, len(rec.log.events), 60)))
        return None
    finally:
        H.stop()
        if conn is not None:
            try:
                conn.disconnect(immediate=True)
            except Exception:
                pass


def run(run):
    thorough = run.tier == 'thorough'
    run.level = 'exploration'
    run.rule = ('call histories of length <= %d over 20 actions (connect '
                'against 5 server behaviours, status, 4 disconnect forms, 3 '
                'reconnect-from-callback forms), all length-1 and length-2 '
                'histories exhaustively plus seeded longer ones, each executed'
                ' with server barriers; plus %d two-thread concurrent runs '
                'under line-level yield injection. Distinct = the history.'
                % (6 if thorough else 4, 1600 if thorough else 32))
    run.assumptions = ['transport errors (OSError/EOFError/ValueError on a '
                       'closed file) reported under concurrent disconnect are '
                       'legitimate outcomes of racing calls']
    rng = run.rng('c16')
    acts = sorted(set(ACTIONS))
    plan = [((a,), False) for a in acts] + \
        [((a, b), False) for a in acts for b in acts]
    # the same pairs after a session that switched on encryption (the
    # transport is then wrapped; the wrappers outlive the session)
    plan += [((a, b), True) for a in acts for b in acts
             if a.startswith(('connect-', 'reconnect-', 'stall'))]
    maxlen = 6 if thorough else 4
    for _ in range(3000 if thorough else 90):
        plan.append((tuple(rng.choice(ACTIONS)
                           for _ in range(rng.randrange(3, maxlen + 1))),
                     rng.random() < 0.3))
    import gc
    import os

    def resources():
        gc.collect()
        return (len(os.listdir('/proc/self/fd')), sum(
            1 for t in threading.enumerate()
            if t.name.startswith('Networking Thread')))
    res0 = resources()
    res_hist = []
    for i, (actions, encrypted) in enumerate(plan):
        if not run.mine(i):
            continue
        pv = rng.choice((757, 757, 404, 340, 47))
        err = None
        for attempt in range(3):
            err = history_case(run, rng, pv, actions, i, encrypted)
            if err is None:
                break
        if encrypted:
            run.count('histories_with_encrypted_sessions')
        # resource accounting: what a history leaves behind once every
        # connection has ended (descriptors, networking threads)
        res_hist.append((resources(), actions))
        run.count('resource_samples')
        run.case(('hist', actions, encrypted))
        if err:
            run.inconclusive_because('history %r: %s' % (actions, err))
        elif len(run.samples) < 3 and len(actions) >= 3:
            run.sample({'history': actions})
    if res_hist:
        time.sleep(0.2)
        fds_end, thr_end = resources()
        grow = fds_end - res0[0]
        run.extra['descriptors_start_end'] = (res0[0], fds_end)
        if grow > 8 or thr_end > res0[1]:
            # find the first history after which the count stayed higher
            first = next((a for (r, a) in res_hist if r[0] > res0[0] + 2 or
                          r[1] > res0[1]), None)
            run.violation('resources/left-behind', 'after %d histories (every '
                          'connection ended) the process holds more '
                          'descriptors or networking threads than before'
                          % len(res_hist), {
                              'descriptors': (res0[0], fds_end),
                              'networking_threads': (res0[1], thr_end),
                              'first_history_after_which': first})
    for i in range(40 if thorough else 8):
        if not run.mine(i):
            continue
        variant = ('flush', 'imm')[i % 2]
        err = None
        for attempt in range(3):
            err = handover_gap_case(run, rng, rng.choice((757, 404, 340)),
                                    variant)
            if err is None:
                break
        run.case(('gap', i, variant))
        if err:
            run.inconclusive_because('hand-over gap %d: %s' % (i, err))
    for i in range(40 if thorough else 8):
        if not run.mine(i):
            continue
        err = None
        for attempt in range(3):
            err = stale_read_case(run, rng, rng.choice((757, 404)), i)
            if err is None:
                break
        run.case(('stale-read', i))
        if err:
            run.inconclusive_because('stale-read %d: %s' % (i, err))
    for i in range(32 if thorough else 8):
        if not run.mine(i):
            continue
        err = None
        for attempt in range(3):
            err = stale_error_vs_successor_case(
                run, rng, rng.choice((340, 404, 578)), i)
            if err is None:
                break
        run.case(('stale-error-vs-successor', i))
        if err:
            run.inconclusive_because('stale error vs successor %d: %s'
                                     % (i, err))
    for i in range(16 if thorough else 4):
        if not run.mine(i):
            continue
        err = None
        for attempt in range(3):
            err = platform_and_interpreter_case(
                run, rng, (757, 404, 340, 47)[i % 4], i)
            if err is None:
                break
        run.case(('platform-and-interpreter', i))
        if err:
            run.inconclusive_because('platform/interpreter case %d: %s'
                                     % (i, err))
    for i in range(24 if thorough else 6):
        if not run.mine(i):
            continue
        err = None
        for attempt in range(3):
            err = failing_flush_case(run, rng, (757, 404, 340)[i % 3], i)
            if err is None:
                break
        run.case(('failing-flush', i))
        if err:
            run.inconclusive_because('failing flush %d: %s' % (i, err))
    n_sites = len(reaction_sites())
    sweep = list(range(n_sites * 2)) if thorough else \
        rng.sample(range(n_sites * 2), 24)
    for j, i in enumerate(sweep):
        if not run.mine(j):
            continue
        err = None
        for attempt in range(3):
            err = hold_sweep_case(run, rng, (757, 404, 340, 47)[i % 4], i)
            if err is None:
                break
        run.case(('hold-sweep', i))
        if err:
            run.inconclusive_because('hold sweep %d: %s' % (i, err))
        # the same position, the user thread reconnecting at once
        for attempt in range(3):
            err = hold_sweep_case(run, rng, (757, 404, 340, 47)[i % 4], i,
                                  reconnect=True)
            if err is None:
                break
        run.case(('hold-sweep-reconnect', i))
        if err:
            run.inconclusive_because('hold sweep (reconnect) %d: %s'
                                     % (i, err))
    for i in range(48 if thorough else 16):
        if not run.mine(i):
            continue
        err = None
        for attempt in range(3):
            err = disconnect_during_negotiation_reaction_case(
                run, rng, rng.choice((340, 404, 578, 757)), i)
            if err is None:
                break
        run.case(('disconnect-during-negotiation-reaction', i))
        if err:
            run.inconclusive_because('disconnect during negotiation reaction '
                                     '%d: %s' % (i, err))
    for i in range(64 if thorough else 16):
        if not run.mine(i):
            continue
        err = None
        for attempt in range(3):
            err = disconnect_during_reaction_case(
                run, rng, rng.choice((757, 404, 340)), i)
            if err is None:
                break
        run.case(('disconnect-during-reaction', i))
        if err:
            run.inconclusive_because('disconnect during reaction %d: %s'
                                     % (i, err))
    for i in range(40 if thorough else 8):
        if not run.mine(i):
            continue
        err = None
        for attempt in range(3):
            err = check_vs_lock_case(run, rng, rng.choice((757, 404)),
                                     ('status', 'connect')[i % 2])
            if err is None:
                break
        run.case(('check-vs-lock', i))
        if err:
            run.inconclusive_because('check-vs-lock %d: %s' % (i, err))
    for i in range(40 if thorough else 8):
        if not run.mine(i):
            continue
        err = None
        for attempt in range(2):
            err = two_connection_cases(run, rng, rng.choice((757, 340)), i)
            if err is None:
                break
        run.case(('two-connections', i))
        if err:
            run.inconclusive_because('two connections %d: %s' % (i, err))
    run.require('two_connection_variants', 2)
    for i in range(1600 if thorough else 32):
        if not run.mine(i):
            continue
        err = None
        for attempt in range(3):
            err = stress_case(run, rng, rng.choice((757, 404)), i)
            if err is None:
                break
        run.case(('stress', i))
        if err:
            run.inconclusive_because('stress %d: %s' % (i, err))
    run.require('histories', 20)
    run.require('calls', 100)
    run.require('refusals_on_active', 3)
    run.require('disconnects_of_idle', 5)
    run.require('stress_runs', 2)
    run.require('gap.reached', 2)
    run.require('check_vs_lock_cases', 2)
    run.require('stale_read_cases', 2)
    run.require('final_reuse_probes', 20)
    run.require('resource_samples', 20)
    run.require('disconnects_of_stalled', 3)
    run.require('histories_with_encrypted_sessions', 10)
