"""C20 - state trackers replay packet histories; helper value types obey their
laws.

Generated histories are applied to the real tracker objects and, in parallel,
to small executable models (dict of players, 128x128 grid, exact rational angle
arithmetic); state is compared after every packet.  Algebraic laws of records,
vectors, aliases and flag names are checked on generated instances.
"""
import itertools
from fractions import Fraction

SHARDS = {'quick': 4, 'thorough': 16}


def run(run):
    thorough = run.tier == 'thorough'
    run.level = 'exploration'
    run.rule = ('player-list histories (<=200 packets, 4 UUIDs, all five '
                'actions incl. updates/removals of unknown players and re-adds);'
                ' map histories (3 ids, patches of every size/offset class that'
                ' fits, pixel-less updates); position updates for all 32 flag '
                'combinations x boundary angles (0, 360, 720, -0.0, tiny '
                'negatives, near-360); all values 0..255 for every BitFieldEnum'
                ' of the library + generated enums (overlapping, zero-valued, '
                'composite members); generated MutableRecord classes; vectors '
                'of ints/floats/Position/subclasses; attribute aliases on the '
                'library packet classes. Distinct = the history / instance.')
    run.assumptions = ['models in this file are the oracle (replay in order)']
    players(run, thorough)
    maps(run, thorough)
    positions(run, thorough)
    enums(run, thorough)
    records(run, thorough)
    vectors(run, thorough)
    aliases(run)
    run.require('player.packets_applied', 100)
    run.require('map.packets_applied', 50)
    run.require('position.updates', 500)
    run.require('enum.names_parsed', 500)
    run.require('enum.order_probes', 4)
    run.require('map.partial_row_patches', 5)
    run.require('record.equal_pairs', 50)
    run.require('record.equal_but_printed_differently', 10)
    run.require('vector.ops', 500)
    if run.shard == 0:
        run.require('alias.roundtrips', 20)
    if run.shard == 0:
        run.require('enum.first_use_preemption_points', 20)


# --------------------------------------------------------------------------
def players(run, thorough):
    from minecraft.networking.packets.clientbound.play import \
        PlayerListItemPacket as P
    from minecraft.networking.connection import ConnectionContext
    from minecraft.networking.packets import PacketBuffer
    rng = run.rng('players')
    uuids = ['00000000-0000-0000-0000-00000000000%d' % i for i in range(4)]
    fields = ('name', 'properties', 'gamemode', 'ping', 'display_name')
    ctx = ConnectionContext(protocol_version=757)
    for h in range(400 if thorough else 16):
        if not run.mine(h):
            continue
        real = P.PlayerList()
        model = {}
        hist = []
        through_wire = h % 2 == 0
        for step in range(rng.choice((5, 40, 200))):
            kind = rng.randrange(5)
            acts, macts = [], []
            for _ in range(rng.randrange(0, 4)):
                u = rng.choice(uuids)
                if kind == 0:
                    props = [P.PlayerProperty(name='textures', value='v%d' %
                                              rng.randrange(9),
                                              signature=rng.choice((None, 's')))
                             for _ in range(rng.randrange(3))]
                    a = P.AddPlayerAction(
                        uuid=u, name='n%d' % rng.randrange(99),
                        properties=props, gamemode=rng.randrange(4),
                        ping=rng.randrange(1000),
                        display_name=rng.choice((None, '{"text":"d"}')))
                    macts.append(('add', u, {f: getattr(a, f) for f in fields}))
                elif kind == 1:
                    a = P.UpdateGameModeAction(uuid=u, gamemode=rng.randrange(4))
                    macts.append(('set', u, {'gamemode': a.gamemode}))
                elif kind == 2:
                    a = P.UpdateLatencyAction(uuid=u, ping=rng.randrange(5000))
                    macts.append(('set', u, {'ping': a.ping}))
                elif kind == 3:
                    a = P.UpdateDisplayNameAction(
                        uuid=u, display_name=rng.choice((None, 'x', 'y')))
                    macts.append(('set', u, {'display_name': a.display_name}))
                else:
                    a = P.RemovePlayerAction(uuid=u)
                    macts.append(('del', u, None))
                acts.append(a)
            pkt = P(context=ctx)
            pkt.action_type = [P.AddPlayerAction, P.UpdateGameModeAction,
                               P.UpdateLatencyAction, P.UpdateDisplayNameAction,
                               P.RemovePlayerAction][kind]
            pkt.actions = acts
            if through_wire:
                try:
                    buf = PacketBuffer()
                    pkt.write_fields(buf)
                    buf.reset_cursor()
                    pkt2 = P(context=ctx)
                    pkt2.read(buf)
                    if pkt2.action_type is pkt.action_type and \
                            pkt2.actions == pkt.actions:
                        pkt = pkt2
                        run.count('player.through_wire')
                    else:
                        run.count('player.wire_altered')   # C05's business
                except Exception:
                    run.count('player.wire_altered')
            try:
                pkt.apply(real)
            except Exception as e:
                run.violation('players/apply-raised', 'apply raised',
                              {'history': hist[-5:], 'error': repr(e)})
                break
            for op, u, d in macts:
                if op == 'add':
                    model[u] = dict(d)
                elif op == 'set':
                    if u in model:
                        model[u].update(d)
                else:
                    model.pop(u, None)
            hist.append([(op, u[-1]) for op, u, _d in macts])
            run.count('player.packets_applied')
            got = {u: {f: getattr(p, f) for f in fields}
                   for u, p in real.players_by_uuid.items()}
            if got != model or any(p.uuid != u for u, p in
                                   real.players_by_uuid.items()):
                run.violation('players/state', 'player list differs from the '
                              'replayed model', {
                                  'step': step, 'last_ops': hist[-4:],
                                  'got': sorted(got), 'model': sorted(model),
                                  'through_wire': through_wire})
                break
        run.case(('players', tuple(map(tuple, hist))))
        if h == 0:
            run.sample({'player_history_ops': hist[:6]})


def maps(run, thorough):
    from minecraft.networking.packets.clientbound.play import MapPacket as M
    from minecraft.networking.connection import ConnectionContext
    from minecraft.networking.packets import PacketBuffer
    nonsquare_maps(run, M, ConnectionContext, thorough)
    rng = run.rng('maps')
    for h in range(240 if thorough else 12):
        if not run.mine(h):
            continue
        pv = rng.choice((47, 107, 340, 404, 498, 578, 754, 757))
        ctx = ConnectionContext(protocol_version=pv)
        real = M.MapSet()
        model = {}
        hist = []
        through_wire = h % 2 == 1
        last_icons = None
        for step in range(rng.choice((3, 20, 60))):
            mid = rng.randrange(3)
            pkt = M(context=ctx)
            pkt.map_id = mid
            pkt.scale = rng.randrange(5)
            pkt.is_tracking_position = rng.random() < 0.5 if pv >= 107 else True
            pkt.is_locked = rng.random() < 0.5 if ctx.protocol_later_eq(452) \
                else False
            pkt.icons = [M.MapIcon(type=rng.randrange(10),
                                   direction=rng.randrange(16),
                                   location=(rng.randrange(-128, 128),
                                             rng.randrange(-128, 128)))
                         for _ in range(rng.randrange(3))]
            if last_icons is not None and rng.random() < 0.3:
                # the program building the packets keeps one icon list and
                # edits it in place between packets: maps patched earlier
                # keep the icons they were given then
                new_icons = pkt.icons
                pkt.icons = last_icons
                del pkt.icons[:]
                pkt.icons.extend(new_icons)
                run.count('map.icon_list_reused_in_place')
            if mid in real.maps_by_id and rng.random() < 0.15:
                # a relay re-sends the map's current icons with a new patch:
                # the packet's icon list *is* the tracked map's list, or a
                # generator over it
                cur = real.maps_by_id[mid].icons
                model_now = list(cur)
                pkt.icons = cur if rng.random() < 0.5 else (i for i in cur)
                run.count('map.packet_built_from_tracked_icons')
                last_icons = None
            else:
                model_now = None
                last_icons = pkt.icons
            cls = rng.randrange(6)
            if cls == 0:
                w = hgt = 0
            elif cls == 1:
                w, hgt = 128, 128
            elif cls == 2:
                w, hgt = 1, 1
            elif cls == 3:
                w, hgt = rng.randrange(1, 129), 1
            elif cls == 4:
                w, hgt = 1, rng.randrange(1, 129)
            else:
                w, hgt = rng.randrange(1, 129), rng.randrange(1, 129)
            pkt.width, pkt.height = w, hgt
            if w:
                ox = rng.choice((0, 128 - w, rng.randrange(0, 128 - w + 1)))
                oz = rng.choice((0, 128 - hgt, rng.randrange(0, 128 - hgt + 1)))
                pkt.offset = (ox, oz)
                npix = w * hgt
                if w > 1 and rng.random() < 0.25:
                    # a patch whose last row is incomplete: pixel i still
                    # lands at offset + (i mod width, i div width)
                    npix -= rng.randrange(1, w)
                    run.count('map.partial_row_patches')
                pkt.pixels = bytes(rng.getrandbits(8) for _ in range(npix))
            else:
                pkt.offset, pkt.pixels = None, None
            want = {'scale': pkt.scale, 'track': pkt.is_tracking_position,
                    'locked': pkt.is_locked, 'w': w, 'h': hgt,
                    'offset': pkt.offset, 'pixels': pkt.pixels,
                    'icons': list(pkt.icons) if model_now is None
                    else model_now}
            if model_now is not None and not isinstance(pkt.icons, list):
                through_wire_now = False
            else:
                through_wire_now = through_wire
            if through_wire_now and model_now is None:
                buf = PacketBuffer()
                try:
                    pkt.write_fields(buf)
                    buf.reset_cursor()
                    pkt = M(context=ctx)
                    pkt.read(buf)
                    intact = (pkt.map_id, pkt.scale, bool(
                        pkt.is_tracking_position), bool(pkt.is_locked),
                        pkt.icons, pkt.width, pkt.height, pkt.offset,
                        pkt.pixels) == (mid, want['scale'], bool(want['track']),
                                        bool(want['locked']), want['icons'], w,
                                        hgt, want['offset'], want['pixels'])
                except Exception as e:
                    intact = False
                if intact:
                    run.count('map.through_wire')
                else:
                    # codec problems belong to C05; apply the packet directly
                    run.count('map.wire_altered')
                    through_wire = False
                    pkt = M(context=ctx)
                    pkt.map_id, pkt.scale = mid, want['scale']
                    pkt.is_tracking_position = want['track']
                    pkt.is_locked = want['locked']
                    pkt.icons = want['icons']
                    pkt.width, pkt.height = w, hgt
                    pkt.offset, pkt.pixels = want['offset'], want['pixels']
            try:
                pkt.apply_to_map_set(real)
            except Exception as e:
                run.violation('maps/apply-raised', 'apply_to_map_set raised',
                              {'pv': pv, 'w': w, 'h': hgt,
                               'offset': want['offset'], 'error': repr(e)})
                break
            m = model.setdefault(mid, {'pixels': bytearray(128 * 128)})
            m['scale'], m['track'], m['locked'] = want['scale'], \
                want['track'], want['locked']
            m['icons'] = want['icons']
            if w:
                for i, px in enumerate(want['pixels']):
                    x = want['offset'][0] + i % w
                    z = want['offset'][1] + i // w
                    m['pixels'][x + 128 * z] = px
            hist.append((mid, w, hgt, want['offset']))
            run.count('map.packets_applied')
            ok = set(real.maps_by_id) == set(model) and all(
                len(r.pixels) == r.width * r.height
                for r in real.maps_by_id.values())
            if ok:
                for k, mm in model.items():
                    r = real.maps_by_id[k]
                    if (r.id, r.scale, bool(r.is_tracking_position),
                        bool(r.is_locked), bytes(r.pixels), list(r.icons)) != \
                       (k, mm['scale'], bool(mm['track']), bool(mm['locked']),
                        bytes(mm['pixels']), mm['icons']):
                        ok = False
                        bad = [j for j in range(128 * 128)
                               if r.pixels[j] != mm['pixels'][j]][:3]
            if not ok:
                run.violation('maps/state', 'map set differs from the '
                              'replayed model', {
                                  'pv': pv, 'step': step, 'last': hist[-3:],
                                  'first_bad_pixels': locals().get('bad')})
                break
        run.case(('maps', pv, tuple(hist)))
        if h == 1:
            run.sample({'map_history(id,w,h,offset)': hist[:5]})


def positions(run, thorough):
    from minecraft.networking.packets.clientbound.play import \
        PlayerPositionAndLookPacket as P
    from minecraft.networking.types import PositionAndLook
    rng = run.rng('positions')
    f32 = __import__('struct')

    def to32(v):
        return f32.unpack('>f', f32.pack('>f', v))[0]
    angles = [0.0, 360.0, 720.0, -0.0, -360.0, 359.99997, 180.0, -180.0, 90.5,
              to32(-1e-30), to32(-1e-7), to32(1e-30), -1e-30, 1e-30, -1e-300,
              to32(359.99999), 1079.5, -1079.5, 3.4028234e38, -3.4028234e38,
              1e16 + 2, -45.0]
    coords = [0.0, 1.5, -1.5, 1e7, -3e7, 0.1, 2.0 ** -40, 6.5e15]
    n = 0
    for flags in range(32):
        combos = list(itertools.product(angles, angles)) if thorough else \
            [(rng.choice(angles), rng.choice(angles)) for _ in range(60)]
        for t_yaw, p_yaw in combos:
            n += 1
            if not run.mine(n):
                continue
            t_pitch, p_pitch = rng.choice(angles), rng.choice(angles)
            tx, ty, tz = (rng.choice(coords) for _ in range(3))
            px, py, pz = (rng.choice(coords) for _ in range(3))
            target = PositionAndLook(x=tx, y=ty, z=tz, yaw=t_yaw,
                                     pitch=t_pitch)
            pkt = P(x=px, y=py, z=pz, yaw=p_yaw, pitch=p_pitch, flags=flags)
            w = {'flags': flags, 'target': (tx, ty, tz, t_yaw, t_pitch),
                 'packet': (px, py, pz, p_yaw, p_pitch)}
            try:
                pkt.apply(target)
            except Exception as e:
                run.violation('position/apply-raised', 'apply raised',
                              dict(w, error=repr(e)))
                continue
            run.count('position.updates')
            run.case(('pos', flags, t_yaw, p_yaw, t_pitch, p_pitch, tx, px))
            for name, bit, tv, pv_ in (('x', 1, tx, px), ('y', 2, ty, py),
                                       ('z', 4, tz, pz)):
                exp = tv + pv_ if flags & bit else pv_
                if getattr(target, name) != exp:
                    run.violation('position/coord', 'relative/absolute '
                                  'coordinate update wrong',
                                  dict(w, axis=name,
                                       got=getattr(target, name)))
            for name, bit, tv, pv_ in (('yaw', 8, t_yaw, p_yaw),
                                       ('pitch', 16, t_pitch, p_pitch)):
                got = getattr(target, name)
                s = tv + pv_ if flags & bit else pv_   # float sum, as stored
                exact = Fraction(s) % 360
                if not (0 <= got < 360):
                    tiny = s < 0 and s > -1e-9
                    run.violation(
                        'position/angle-range/%s' % (
                            'tiny-negative-wraps-to-360' if tiny else 'other'),
                        'angle after update is outside [0, 360)',
                        dict(w, field=name, got=got, raw=s))
                    continue
                d = abs(Fraction(got) - exact)
                d = min(d, 360 - d)
                if d > Fraction(1, 10 ** 6) * max(1, abs(Fraction(s)) / 10 ** 9):
                    run.violation('position/angle-value', 'wrapped angle '
                                  'differs from (sum mod 360)',
                                  dict(w, field=name, got=got,
                                       expected=float(exact)))
    run.sample({'flags': 0x18, 'target_yaw': 350.0, 'packet_yaw': 20.0,
                'expected_yaw': 10.0})


def enums(run, thorough):
    from minecraft.networking import types as T
    from minecraft.networking.packets.clientbound.play import \
        PlayerPositionAndLookPacket
    from minecraft.networking.packets.serverbound.play import \
        ClientSettingsPacket
    rng = run.rng('enums')
    lib = [T.GameMode, ClientSettingsPacket.SkinParts,
           PlayerPositionAndLookPacket]
    # any other BitFieldEnum subclass in the loaded library
    seen = set(lib)
    stack = list(T.BitFieldEnum.__subclasses__())
    while stack:
        k = stack.pop()
        if k not in seen:
            seen.add(k)
            lib.append(k)
        stack.extend(k.__subclasses__())
    gen = []
    for g in range(200 if thorough else 40):
        members = {}
        for j in range(rng.randrange(2, 9)):
            style = rng.choice((0, 0, 0, 1, 2, 3))
            v = 1 << rng.randrange(8) if style == 0 else \
                rng.randrange(256) if style == 1 else 0 if style == 2 else \
                (1 << rng.randrange(8)) | (1 << rng.randrange(8))
            members['F%d_%s' % (j, 'ABCDEFG'[rng.randrange(7)])] = v
        members['lower'] = 5                      # not a flag name
        gen.append(type('GenEnum%d' % g, (T.BitFieldEnum,), members))
    idx = 0
    for cls in lib + gen:
        idx += 1
        if not run.mine(idx):
            continue
        flags = {n: v for n, v in cls.__dict__.items()
                 if n.isupper() and isinstance(v, int)}
        for value in list(range(256)) + [256, 511, -1, 1 << 20]:
            try:
                name = cls.name_from_value(value)
            except Exception as e:
                run.violation('enum/raised', 'name_from_value raised',
                              {'enum': cls.__name__, 'members': flags,
                               'value': value, 'error': repr(e)})
                continue
            run.case(('enum', cls.__name__, tuple(sorted(flags.items())),
                      value), nontrivial=name is not None)
            if name is None:
                run.count('enum.no_name')
                continue
            parsed = 0
            ok = True
            for part in name.split('|'):
                if part == '0':
                    continue
                if part not in flags:
                    ok = False
                    break
                parsed |= flags[part]
            run.count('enum.names_parsed')
            if not ok or parsed != value:
                run.violation('enum/roundtrip', 'printed flag name does not '
                              'parse back to the value', {
                                  'enum': cls.__name__, 'members': flags,
                                  'value': value, 'name': name})
    # the answer for a flag value must not depend on what was asked before:
    # twin classes with the same members are queried in different orders
    # (ints first / other value types first); their answers must agree
    def members_of(cls):
        return {n: v for n, v in cls.__dict__.items()
                if n.isupper() and isinstance(v, int)}
    odd = [4.0, 1.0, 0.0, 64.0, 255.0, True, False, None, '4', 2.5, (4,),
           3 + 0j]
    for g, cls in enumerate(gen[:60 if thorough else 12]):
        if not run.mine(g):
            continue
        flags = members_of(cls)
        twin_a = type('TwinA%d' % g, (T.BitFieldEnum,), dict(flags))
        twin_b = type('TwinB%d' % g, (T.BitFieldEnum,), dict(flags))
        ints = list(range(256))

        def ask(c, vals):
            out = []
            for v in vals:
                try:
                    out.append(c.name_from_value(v))
                except Exception as e:
                    out.append('raised:' + type(e).__name__)
            return out
        a_int = ask(twin_a, ints)
        a_odd = ask(twin_a, odd)
        b_odd = ask(twin_b, odd)
        b_int = ask(twin_b, ints)
        a_int2 = ask(twin_a, ints)
        run.case(('enum-order', g, tuple(sorted(flags.items()))))
        run.count('enum.order_probes')
        if a_int != b_int or a_int != a_int2 or a_odd != b_odd:
            j = next((i for i, (x, y) in enumerate(zip(a_int, b_int))
                      if x != y), None)
            run.violation('enum/history-dependent', 'the printed name of a '
                          'flag value depends on which values were asked for '
                          'before', {'members': flags, 'first_int_difference':
                                     j, 'ints_first': a_int[j] if j is not None
                                     else None, 'others_first': b_int[j]
                                     if j is not None else None,
                                     'odd_a': a_odd[:4], 'odd_b': b_odd[:4]})
    # the very first question to a class, pre-empted at every statement
    # (whatever is prepared per class on first use must never be seen half
    # ready): thread A asks a fresh class its first question and is stopped at
    # its k-th statement inside the enum module, for every k in turn; while it
    # stands there thread B asks the same class a series of questions; then A
    # goes on.  All answers must be the sequential ones.
    if run.shard == 0:
        import os as _os
        import sys
        import threading
        from .. import core as _core
        mon = sys.monitoring
        TOOL = 4
        enum_file = _os.path.join(_core.REPO, 'minecraft', 'networking',
                                  'types', 'enum.py')
        wrong = []
        state = {'a': None, 'n': 0, 'stop_at': 0, 'stopped': None,
                 'go': None}

        def on_line(code, lineno):
            if code.co_filename != enum_file:
                return mon.DISABLE
            if threading.get_ident() == state['a']:
                state['n'] += 1
                if state['n'] == state['stop_at']:
                    state['stopped'].set()
                    state['go'].wait(10.0)
            return None
        mon.use_tool_id(TOOL, 'vf-enum-first-use')
        mon.register_callback(TOOL, mon.events.LINE, on_line)
        mon.set_events(TOOL, mon.events.LINE)
        try:
            for g, cls in enumerate(gen[:30 if thorough else 6]):
                flags = members_of(cls)
                model = type('Model%d' % g, (T.BitFieldEnum,), dict(flags))
                vals = [v for v in range(1, 256, 11)] + [0, 255]
                want = {v: model.name_from_value(v) for v in vals}
                k = 0
                while k < 400:
                    k += 1
                    fresh = type('Fresh%d_%d' % (g, k), (T.BitFieldEnum,),
                                 dict(flags))
                    state.update(n=0, stop_at=k, stopped=threading.Event(),
                                 go=threading.Event())
                    got_a = []

                    def thread_a():
                        state['a'] = threading.get_ident()
                        try:
                            got_a.append(fresh.name_from_value(vals[0]))
                        except Exception as e:
                            got_a.append('raised:' + repr(e))
                        state['a'] = None
                    ta = threading.Thread(target=thread_a)
                    ta.start()
                    reached = False
                    for _ in range(2000):
                        reached = state['stopped'].wait(0.005)
                        if reached or not ta.is_alive():
                            break
                    reached = reached or state['stopped'].is_set()
                    got_b = {}
                    if reached:
                        for v in vals:
                            try:
                                got_b[v] = fresh.name_from_value(v)
                            except Exception as e:
                                got_b[v] = 'raised:' + repr(e)
                    state['go'].set()
                    ta.join(10.0)
                    run.count('enum.first_use_preemption_points')
                    bad = [v for v in got_b if got_b[v] != want[v]]
                    if bad or got_a != [want[vals[0]]]:
                        wrong.append({'members': flags, 'stopped_after_'
                                      'statements': k, 'value': bad[0] if bad
                                      else vals[0], 'got': got_b.get(bad[0])
                                      if bad else got_a, 'expected':
                                      want[bad[0]] if bad else
                                      want[vals[0]]})
                        break
                    if not reached:
                        break          # A's call has fewer than k statements
                if wrong:
                    break
        finally:
            mon.set_events(TOOL, 0)
            mon.register_callback(TOOL, mon.events.LINE, None)
            mon.free_tool_id(TOOL)
        if wrong:
            run.violation('enum/concurrent-first-use', 'flag names asked of a '
                          'class by a second thread while a first thread was '
                          'in the middle of the class\'s very first question '
                          'are wrong', wrong[0])
    # plain enums: name -> attribute -> value
    if run.shard == 0:
        for cls in (T.AbsoluteHand, T.RelativeHand, T.BlockFace, T.Difficulty,
                    T.Dimension, T.OriginPoint):
            for value in range(-2, 10):
                name = cls.name_from_value(value)
                if name is not None and getattr(cls, name) != value:
                    run.violation('enum/plain', 'enum name does not map back',
                                  {'enum': cls.__name__, 'value': value})
        run.sample({'enum': 'GameMode', 'value': 9,
                    'name': T.GameMode.name_from_value(9)})


def records(run, thorough):
    from minecraft.networking.types import MutableRecord
    rng = run.rng('records')

    import math as _math
    the_nan = _math.nan

    def value(depth=0):
        if depth == 0 and rng.random() < 0.08:
            # a field that is not equal to itself: field-wise comparison says
            # "unequal", also for one and the same object in both records
            return the_nan
        k = rng.randrange(7 if depth < 2 else 5)
        return (rng.randrange(3), rng.choice(('a', 'b')), None,
                rng.choice((1.0, 1, True)), (1, 2))[k] if k < 5 else \
            (value(depth + 1), value(depth + 1)) if k == 5 else \
            Rec1(a=value(depth + 1), b=rng.randrange(2))

    class Rec1(MutableRecord):
        __slots__ = 'a', 'b'

    class Rec2(Rec1):
        __slots__ = 'c',

    class Rec3(MutableRecord):
        __slots__ = 'a', 'b'

    class RecS(MutableRecord):
        __slots__ = 'only'              # a bare string, one slot
    n = 0
    for i in range(6000 if thorough else 800):
        if not run.mine(i):
            continue
        cls = rng.choice((Rec1, Rec2, Rec3, RecS))
        slots = list(cls._all_slots())
        v1 = {s: value() for s in slots}
        r1 = cls(**v1)
        mode = rng.randrange(6)
        if mode == 5:
            # equal field by field although the fields print differently
            # (1 == 1.0 == True, 0 == 0.0 == False, equal nested records)
            def alias(v):
                if isinstance(v, tuple):
                    return tuple(alias(x) for x in v)
                if isinstance(v, bool):
                    return int(v)
                if isinstance(v, int):
                    return float(v)
                if isinstance(v, float) and v == v and v in (0.0, 1.0):
                    return bool(v)
                if isinstance(v, Rec1):
                    return Rec1(a=alias(v.a), b=alias(v.b))
                return v
            v2 = {s_: alias(v1[s_]) for s_ in slots}
            r2 = cls(**v2)
            expect_eq = all(v1[s_] == v2[s_] for s_ in slots)
            run.count('record.equal_but_printed_differently',
                      int(expect_eq and repr(v1) != repr(v2)))
        elif mode == 4:
            # another way of coming by an equal record: a copy
            import copy as _copy
            try:
                r2 = (_copy.copy, _copy.deepcopy)[i % 2](r1)
            except Exception as e:
                run.violation('record/copy-raised', 'copying a completely '
                              'filled record raised', {'error': repr(e),
                                                       'record': repr(r1)})
                continue
            expect_eq = all(v1[s] == v1[s] for s in slots)
            run.count('record.copies')
            if type(r2) is not cls:
                run.violation('record/copy-type', 'the copy of a record is of '
                              'another type', {'type': type(r2).__name__})
        elif mode == 0:
            r2 = cls(**v1) if i % 5 else r1      # (or the very same record)
            expect_eq = all(v1[s] == v1[s] for s in slots)
            if not expect_eq:
                run.count('record.pairs_with_a_nan_field')
        elif mode == 1:
            v2 = dict(v1)
            s = rng.choice(slots)
            v2[s] = ('different', i)
            r2 = cls(**v2)
            expect_eq = False
        elif mode == 2:
            other = Rec3 if cls is Rec1 else Rec1
            oslots = list(other._all_slots())
            r2 = other(**{s: v1.get(s, 0) for s in oslots})
            expect_eq = False
        else:
            v2 = {s: value() for s in slots}
            r2 = cls(**v2)
            expect_eq = all(v1[s] == v2[s] for s in slots)
        run.case(('rec', cls.__name__, repr(v1), mode, i))
        try:
            eq, ne = (r1 == r2), (r1 != r2)
        except Exception as e:
            run.violation('record/eq-raised', '== raised', {'error': repr(e)})
            continue
        w = {'r1': repr(r1), 'r2': repr(r2)}
        if eq != expect_eq or ne == eq:
            run.violation('record/eq', 'equality is not (same type and '
                          'field-wise equal)', dict(w, eq=eq, ne=ne,
                                                    expected=expect_eq))
        if eq:
            run.count('record.equal_pairs')
            try:
                if hash(r1) != hash(r2):
                    run.violation('record/hash', 'equal records hash '
                                  'differently', w)
            except TypeError:
                run.count('record.unhashable')
        if list(iter(r1)) != [v1[s] for s in slots]:
            run.violation('record/iter', 'iteration is not field order', w)
        if mode == 4:
            # ... and the copy is a record of its own
            setattr(r2, slots[0], ('changed in the copy', i))
            if (getattr(r1, slots[0]) != v1[slots[0]]
                    and v1[slots[0]] == v1[slots[0]]) or r1 == r2:
                run.violation('record/copy-shares-state', 'changing a field of '
                              'a copied record changed the original (or left '
                              'the two equal)', w)
    # library records and vectors through copy / deepcopy / pickle
    if run.shard == 0:
        import copy as _copy
        import pickle as _pickle
        from minecraft.networking.types import (Vector, Direction, Position,
                                                PositionAndLook)
        from minecraft.networking.packets.clientbound.play import (
            MultiBlockChangePacket as _M, ExplosionPacket as _E)
        originals = [Vector(1, -2, 3), Vector(1.5, 0.0, -0.0),
                     Direction(45.0, -10.5), Position(7, -3, 2 ** 20),
                     PositionAndLook(x=1.0, y=2.0, z=3.0, yaw=4.0, pitch=5.0),
                     _M.Record(x=1, y=2, z=3, block_state_id=77),
                     _E.Record(-1, 0, 1)]
        ways = (('copy', _copy.copy), ('deepcopy', _copy.deepcopy)) + tuple(
            ('pickle protocol %d' % pr, lambda o, pr=pr: _pickle.loads(
                _pickle.dumps(o, pr))) for pr in (2, _pickle.HIGHEST_PROTOCOL))
        for o in originals:
            for label, fn in ways:
                run.count('record.library_copies')
                try:
                    c = fn(o)
                    ok = c == o and type(c) is type(o) and (
                        o.__hash__ is None or hash(c) == hash(o)) and \
                        list(c) == list(o)
                except Exception as e:
                    ok, c = False, repr(e)
                if not ok:
                    run.violation('record/library-copy', 'a copied / pickled '
                                  'record or vector is not equal to its '
                                  'original (type, fields, hash)',
                                  {'original': repr(o), 'how': label,
                                   'copy': repr(c)})
    # mutation changes equality/hash consistently
    a, b = Rec1(a=1, b=2), Rec1(a=1, b=2)
    a.b = 3
    if a == b:
        run.violation('record/eq-after-mutation', 'records equal after a field'
                      ' was changed', {})


def vectors(run, thorough):
    from minecraft.networking.types import Vector, Position
    rng = run.rng('vectors')

    class Sub(Vector):
        __slots__ = ()

    class SubSub(Sub):
        __slots__ = ()
    types = (Vector, Position, Sub, SubSub)
    ivals = [0, 1, -1, 7, -13, 2 ** 40, -2 ** 25]
    fvals = [0.0, 0.5, -1.25, 1e10, 3.75, -2.5e-3]
    for i in range(8000 if thorough else 1000):
        if not run.mine(i):
            continue
        ta, tb = rng.choice(types), rng.choice(types)
        pool = ivals if i % 2 else fvals + ivals
        a = ta(*(rng.choice(pool) for _ in range(3)))
        b = tb(*(rng.choice(pool) for _ in range(3)))
        k = rng.choice([v for v in pool if v != 0])
        run.case(('vec', ta.__name__, tuple(a), tb.__name__, tuple(b), k))
        import operator as _op
        ops = []
        for name, f, args, exp in (
                ('add', _op.add, (a, b), tuple(x + y for x, y in zip(a, b))),
                ('sub', _op.sub, (a, b), tuple(x - y for x, y in zip(a, b))),
                ('neg', _op.neg, (a,), tuple(-x for x in a)),
                ('mul', _op.mul, (a, k), tuple(x * k for x in a)),
                ('rmul', _op.mul, (k, a), tuple(k * x for x in a)),
                ('truediv', _op.truediv, (a, k), tuple(x / k for x in a)),
                ('floordiv', _op.floordiv, (a, k),
                 tuple(x // k for x in a))):
            try:
                ops.append((name, f(*args), exp))
            except Exception as e:
                # (k is never zero: nothing here may raise)
                run.violation('vector/%s' % name, 'vector operation raised',
                              {'a': repr(a), 'b': repr(b), 'k': k,
                               'error': repr(e)})
        for name, got, exp in ops:
            run.count('vector.ops')
            if tuple(got) != exp or type(got) is not ta:
                run.violation('vector/%s' % name, 'vector operation is not '
                              'component-wise or does not preserve the '
                              'operand type', {
                                  'a': repr(a), 'b': repr(b), 'k': k,
                                  'got': repr(got), 'type': type(got).__name__,
                                  'expected': exp})
        try:
            a + (1, 2, 3)
            run.violation('vector/add-tuple', 'Vector + plain tuple did not '
                          'fall back to tuple concatenation/TypeError', {})
        except TypeError:
            pass


def aliases(run):
    if run.shard != 0:
        return
    from minecraft.networking.packets import clientbound, serverbound
    from minecraft.networking.types import (Vector, Direction, PositionAndLook,
                                            Position)
    from minecraft.networking.connection import ConnectionContext
    cb, sb = clientbound.play, serverbound.play

    def rt(label, obj, alias, value, underlying):
        try:
            setattr(obj, alias, value)
            back = getattr(obj, alias)
            und = tuple(getattr(obj, u) for u in underlying)
        except Exception as e:
            run.violation('alias/%s.%s/raised' % (label, alias),
                          'alias access raised', {'error': repr(e)})
            return
        run.count('alias.roundtrips')
        run.case(('alias', label, alias))
        flat = tuple(value) if isinstance(value, (tuple, list)) or \
            hasattr(value, '__iter__') and not isinstance(value, str) \
            else (value,)
        try:
            if isinstance(value, PositionAndLook):
                flat = (value.x, value.y, value.z, value.yaw, value.pitch)
                same = back == value
            else:
                same = tuple(back) == flat if len(flat) > 1 or isinstance(
                    back, tuple) else back == value
        except Exception as e:
            # e.g. a record handed back without its fields
            run.violation('alias/%s.%s' % (label, alias), 'the value read '
                          'back through the alias cannot be compared with '
                          'what was set', {'set': repr(value),
                                           'error': repr(e)})
            return
        if not same or und != flat:
            run.violation('alias/%s.%s' % (label, alias), 'alias does not read'
                          ' back what was set / underlying fields differ',
                          {'set': repr(value), 'back': repr(back),
                           'underlying': und})
    v, d = Vector(1.5, -2.0, 3.25), Direction(45.0, -10.0)
    pal = PositionAndLook(x=1.0, y=2.0, z=3.0, yaw=4.0, pitch=5.0)
    # the same record given by position, completely and in part
    try:
        p1 = PositionAndLook(1.0, 2.0, 3.0, 4.0, 5.0)
        p2 = PositionAndLook(1.0, 2.0, z=3.0, yaw=4.0, pitch=5.0)
        ok = p1 == pal and p2 == pal and hash(p1) == hash(pal) and \
            tuple(p1) == (1.0, 2.0, 3.0, 4.0, 5.0)
    except Exception as e:
        ok = repr(e)
    run.count('alias.positional_records')
    if ok is not True:
        run.violation('record/positional-construction', 'PositionAndLook '
                      'built from positional fields differs from the one '
                      'built from keywords', {'detail': ok})
    # records with only some fields set, given to the aliases: whether or not
    # the assignment is accepted, no value may land under another field's name
    import itertools
    rec_fields = ('x', 'y', 'z', 'yaw', 'pitch')
    for K, label, names in (
            (cb.PlayerPositionAndLookPacket, 'PPAL', rec_fields),
            (cb.SpawnPlayerPacket, 'SpawnPlayer', rec_fields),
            (cb.SpawnObjectPacket, 'SpawnObject', rec_fields),
            (sb.PositionAndLookPacket, 'sbPositionAndLook',
             ('x', 'feet_y', 'z', 'yaw', 'pitch'))):
        for r in range(5):
            for present in itertools.combinations(range(5), r):
                rec = PositionAndLook(**{rec_fields[i]: 100.0 + i
                                         for i in present})
                pkt = K()
                for i, nme in enumerate(names):
                    setattr(pkt, nme, float(i))
                try:
                    pkt.position_and_look = rec
                    outcome = 'accepted'
                except Exception as e:
                    outcome = type(e).__name__
                run.count('alias.partial_records')
                run.seen('alias.partial_record_outcomes', outcome)
                got = [getattr(pkt, nme, '<<unset>>') for nme in names]
                allowed = [(float(i), 100.0 + i) if i in present else
                           (float(i),) for i in range(5)]
                if any(g not in a for g, a in zip(got, allowed)):
                    run.violation(
                        'alias/partial-record-misassigned', 'a record with '
                        'only some fields set, given to position_and_look, '
                        'left a value under another field\'s name',
                        {'class': label, 'fields_set': [rec_fields[i]
                                                        for i in present],
                         'outcome': outcome, 'packet_fields': got})
                try:
                    vals = list(rec)
                except Exception:
                    vals = None
                if vals is not None and vals != [100.0 + i for i in present] \
                        or vals is not None and len(vals) != 5:
                    run.violation(
                        'record/iteration-skips-fields', 'iterating a record '
                        'with unset fields yields fewer values than fields '
                        '(positions no longer correspond to fields)',
                        {'fields_set': [rec_fields[i] for i in present],
                         'iterated': repr(vals)})
    for K, label in ((cb.PlayerPositionAndLookPacket, 'PPAL'),
                     (cb.SpawnPlayerPacket, 'SpawnPlayer')):
        rt(label, K(), 'position', v, ('x', 'y', 'z'))
        rt(label, K(), 'look', d, ('yaw', 'pitch'))
        rt(label, K(), 'position_and_look', pal, ('x', 'y', 'z', 'yaw',
                                                  'pitch'))
    rt('SpawnObject', cb.SpawnObjectPacket(), 'position', v, ('x', 'y', 'z'))
    rt('SpawnObject', cb.SpawnObjectPacket(), 'look', d, ('yaw', 'pitch'))
    rt('SpawnObject', cb.SpawnObjectPacket(), 'position_and_look', pal,
       ('x', 'y', 'z', 'yaw', 'pitch'))
    rt('SpawnObject', cb.SpawnObjectPacket(), 'velocity', Vector(1, 2, 3),
       ('velocity_x', 'velocity_y', 'velocity_z'))
    rt('SpawnObject', cb.SpawnObjectPacket(), 'objectUUID', 'u',
       ('object_uuid',))
    rt('sbPositionAndLook', sb.PositionAndLookPacket(), 'position', v,
       ('x', 'feet_y', 'z'))
    rt('sbPositionAndLook', sb.PositionAndLookPacket(), 'look', d,
       ('yaw', 'pitch'))
    rt('sbPositionAndLook', sb.PositionAndLookPacket(), 'position_and_look',
       pal, ('x', 'feet_y', 'z', 'yaw', 'pitch'))
    rt('Explosion', cb.ExplosionPacket(), 'position', v, ('x', 'y', 'z'))
    rt('Explosion', cb.ExplosionPacket(), 'player_motion', v,
       ('player_motion_x', 'player_motion_y', 'player_motion_z'))
    rt('FacePlayer', cb.FacePlayerPacket(), 'target', v, ('x', 'y', 'z'))
    rt('BlockChange', cb.BlockChangePacket(), 'blockStateId', 77,
       ('block_state_id',))
    rt('MultiBlockChange', cb.MultiBlockChangePacket(), 'chunk_pos', (3, -4),
       ('chunk_x', 'chunk_z'))
    rt('Record', cb.MultiBlockChangePacket.Record(), 'position',
       Vector(1, 2, 3), ('x', 'y', 'z'))
    rt('Record', cb.MultiBlockChangePacket.Record(), 'blockStateId', 9,
       ('block_state_id',))
    rt('PositionAndLook', PositionAndLook(), 'position', v, ('x', 'y', 'z'))
    rt('PositionAndLook', PositionAndLook(), 'look', d, ('yaw', 'pitch'))
    # the value given to an alias may be any iterable of the right length,
    # also one that can be walked only once
    for make, how in ((lambda t: iter(t), 'iterator'),
                      (lambda t: (c for c in t), 'generator'),
                      (lambda t: map(float, t), 'map object'),
                      (lambda t: list(t), 'list')):
        for K, label, alias, under, vals in (
                (cb.PlayerPositionAndLookPacket, 'PPAL', 'position',
                 ('x', 'y', 'z'), (1.5, -2.0, 3.25)),
                (cb.SpawnObjectPacket, 'SpawnObject', 'velocity',
                 ('velocity_x', 'velocity_y', 'velocity_z'), (4.0, 5.0, 6.0)),
                (sb.PositionAndLookPacket, 'sbPositionAndLook', 'look',
                 ('yaw', 'pitch'), (30.0, 60.0))):
            pkt = K()
            for u in under:
                setattr(pkt, u, -1.0)
            try:
                setattr(pkt, alias, make(vals))
                got = tuple(getattr(pkt, u) for u in under)
            except Exception as e:
                got = repr(e)
            run.count('alias.one_shot_iterables')
            if got != tuple(vals):
                run.violation('alias/one-shot-iterable', 'a %s of the right '
                              'length given to an attribute alias was not '
                              'stored field by field' % how,
                              {'class': label, 'alias': alias, 'given':
                               list(vals), 'fields_afterwards': got})
    # block id / meta accessors
    for K in (cb.BlockChangePacket, cb.MultiBlockChangePacket.Record):
        o = K()
        o.blockId, o.blockMeta = 291, 7
        run.count('alias.roundtrips')
        if (o.blockId, o.blockMeta, o.block_state_id) != (291, 7,
                                                          291 * 16 + 7):
            run.violation('alias/blockId', 'blockId/blockMeta accessors '
                          'inconsistent', {'class': K.__name__})
        # each accessor changes only its own part of an existing value
        for start in (0xABC, 0xFFFF, 0x10, 0x0F):
            o = K()
            o.block_state_id = start
            o.blockId = 5
            a_ = o.block_state_id
            o.blockMeta = 3
            b_ = o.block_state_id
            o.blockMeta = 0x1F          # only four bits belong to the meta
            c_ = o.block_state_id
            run.count('alias.roundtrips')
            if (a_, b_, c_) != (5 << 4 | start & 0xF, 5 << 4 | 3,
                                5 << 4 | 0xF):
                run.violation('alias/blockId', 'blockId/blockMeta setters '
                              'disturb the other part of block_state_id',
                              {'class': K.__name__, 'start': start,
                               'got': (a_, b_, c_)})
    # transforms
    p = cb.EntityPositionDeltaPacket()
    for val in (0, 5, -5, 4096, -32768, 32767):
        p.delta_x = val
        run.count('alias.roundtrips')
        if p.delta_x != val or p.delta_x_float != val / 4096:
            run.violation('alias/delta_x', 'fixed-point transform does not '
                          'read back', {'set': val, 'back': p.delta_x})
    s = sb.ClientSettingsPacket()
    for val in (True, False):
        s.disable_text_filtering = val
        run.count('alias.roundtrips')
        if s.disable_text_filtering is not val or \
                s.enable_text_filtering is val:
            run.violation('alias/text_filtering', 'negated alias wrong', {})
    for pv in (47, 736, 738, 757):
        for gm in (0, 1, 2, 3):
            for hc in (False, True):
                j = cb.JoinGamePacket(
                    context=ConnectionContext(protocol_version=pv))
                j.pure_game_mode = gm
                j.is_hardcore = hc
                run.count('alias.roundtrips')
                run.case(('alias', 'JoinGame', pv, gm, hc))
                # ... and in the other order, after a toggle
                j2 = cb.JoinGamePacket(
                    context=ConnectionContext(protocol_version=pv))
                j2.is_hardcore = not hc
                j2.is_hardcore = hc
                j2.pure_game_mode = gm
                j3 = cb.JoinGamePacket(
                    context=ConnectionContext(protocol_version=pv))
                j3.is_hardcore = hc
                if (j2.pure_game_mode, bool(j2.is_hardcore)) != (gm, hc) or \
                        bool(j3.is_hardcore) != hc:
                    run.violation('alias/joingame', 'game mode / hardcore '
                                  'aliases depend on the order they are set '
                                  'in', {'pv': pv, 'gm': gm, 'hc': hc})
                if j.pure_game_mode != gm or bool(j.is_hardcore) != hc:
                    run.violation('alias/joingame', 'game mode / hardcore '
                                  'aliases do not read back', {
                                      'pv': pv, 'gm': gm, 'hc': hc,
                                      'back': (j.pure_game_mode,
                                               j.is_hardcore)})


def nonsquare_maps(run, M, ConnectionContext, thorough):
    """Map objects need not be 128 x 128: a patch pixel i lands at
    offset + (i mod patch width, i div patch width) of a map whose rows are
    `map.width` long, whatever its height."""
    if run.shard != 0:
        return
    rng = run.rng('maps-nonsquare')
    ctx = ConnectionContext(protocol_version=757)
    for (W, H) in ((128, 64), (64, 128), (48, 20), (10, 4), (4, 10), (16, 16),
                   (1, 7), (7, 1), (128, 128)):
        real = M.Map(5, 0, width=W, height=H)
        model = bytearray(W * H)
        for step in range(60 if thorough else 25):
            w = rng.randrange(1, W + 1)
            h = rng.randrange(1, H + 1)
            ox, oz = rng.randrange(0, W - w + 1), rng.randrange(0, H - h + 1)
            pkt = M(context=ctx)
            pkt.map_id, pkt.scale = 5, step % 5
            pkt.is_tracking_position, pkt.is_locked = True, False
            pkt.icons = []
            pkt.width, pkt.height, pkt.offset = w, h, (ox, oz)
            pkt.pixels = bytes(rng.getrandbits(8) for _ in range(w * h))
            try:
                pkt.apply_to_map(real)
            except Exception as e:
                run.violation('maps/apply-raised', 'apply_to_map raised on an '
                              'in-bounds patch', {
                                  'map': (W, H), 'patch': (w, h),
                                  'offset': (ox, oz), 'error': repr(e)})
                break
            for i, px in enumerate(pkt.pixels):
                model[(ox + i % w) + W * (oz + i // w)] = px
            run.count('map.nonsquare_patches')
            if bytes(real.pixels) != bytes(model) or \
                    len(real.pixels) != W * H:
                bad = next((j for j in range(min(len(model),
                                                 len(real.pixels)))
                            if real.pixels[j] != model[j]), None)
                run.violation('maps/state', 'pixels of a %d x %d map differ '
                              'from the replayed patches' % (W, H), {
                                  'map': (W, H), 'patch': (w, h),
                                  'offset': (ox, oz), 'step': step,
                                  'first_wrong_index': bad})
                break
        run.case(('nonsquare', W, H))
