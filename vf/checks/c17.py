"""C17 - session server hash equals Java's signed-hex SHA-1 for all inputs.

The real generate_verification_hash is run on published vectors, on inputs
searched until the digest has each interesting shape (set top bit, leading zero
nibble(s)/byte, negative with leading zero nibbles in the magnitude), on
permuted arguments and on seeded random triples; oracle: vf.ref.javahash.
"""
import hashlib

from ..ref import javahash

SHARDS = {'quick': 4, 'thorough': 16}


def shape(digest):
    neg = digest[0] >= 0x80
    mag = javahash.java_hex(digest).lstrip('-')
    lead = 40 - len(mag)
    return ('neg' if neg else 'pos') + ',lead%d' % min(lead, 3)


def run(run):
    from minecraft.networking import encryption
    thorough = run.tier == 'thorough'
    run.level = 'exploration'
    run.rule = ('published vectors (Notch, jeb_, simon); inputs found by search'
                ' whose digest is positive/negative x {0,1,2,3+} leading zero '
                'nibbles of the magnitude; argument-order permutations; '
                'non-ASCII server ids; seeded random (id, secret, key) triples.'
                ' Distinct = the triple; non-trivial always.')
    run.assumptions = ['hashlib.sha1 is trusted; the signed-hex formatting is '
                       'recomputed independently (own negate + nibble loop)']
    rng = run.rng('c17')

    calls = [0]

    def check(sid, secret, key, why):
        exp = javahash.server_hash(sid, secret, key)
        # calling styles: positional (what the library itself does), by
        # parameter name (the documented names), and with the byte arguments
        # held in other buffer types hashlib accepts
        calls[0] += 1
        style = ('positional', 'keywords', 'positional', 'bytearray',
                 'positional', 'memoryview', 'keywords-shuffled')[calls[0] % 7]
        try:
            if style == 'keywords':
                got = encryption.generate_verification_hash(
                    server_id=sid, shared_secret=secret, public_key=key)
            elif style == 'keywords-shuffled':
                got = encryption.generate_verification_hash(
                    public_key=key, server_id=sid, shared_secret=secret)
            elif style == 'bytearray':
                got = encryption.generate_verification_hash(
                    sid, bytearray(secret), bytearray(key))
            elif style == 'memoryview':
                got = encryption.generate_verification_hash(
                    sid, memoryview(secret), memoryview(key))
            else:
                got = encryption.generate_verification_hash(sid, secret, key)
        except Exception as e:
            got = repr(e)
        run.seen('calling_styles', style)
        run.case((sid, secret, key))
        d = hashlib.sha1(sid.encode('utf-8') + secret + key).digest()
        run.seen('digest_shapes', shape(d))
        if got != exp:
            run.violation('hash/' + shape(d), 'server hash differs from Java '
                          'BigInteger.toString(16) of the SHA-1',
                          {'server_id': sid, 'secret': secret, 'key': key,
                           'got': got, 'expected': exp, 'why': why,
                           'calling_style': style})
        return exp

    if run.shard == 0:
        for name, exp in (('Notch', '4ed1f46bbe04bc756bcb17c0c7ce3e4632f06a48'),
                          ('jeb_', '-7c9d5b0044c130109a5d7b5fb5c317c02b4e28c1'),
                          ('simon', '88e16a1019277b15d58faf0541e11910eb756f6')):
            got = check(name, b'', b'', 'published')
            assert got == exp
            # the same digest through the helper the library exposes
            h = hashlib.sha1(name.encode())
            if encryption.minecraft_sha1_hash_digest(h) != exp:
                run.violation('hash/published', 'published vector fails',
                              {'name': name})
            # and split across the three arguments
            for cut in range(len(name) + 1):
                b = name.encode()
                check(name[:cut], b[cut:cut + 1], b[cut + 1:], 'split')
        run.sample({'server_id': 'jeb_', 'hash':
                    '-7c9d5b0044c130109a5d7b5fb5c317c02b4e28c1'})

    # search for digest shapes
    wanted = {'%s,lead%d' % (s, n) for s in ('pos', 'neg') for n in range(4)}
    found = {}
    i = 0
    budget = 3000000 if thorough else 600000
    while len(found) < len(wanted) and i < budget:
        i += 1
        secret = (i * 2654435761 % 2 ** 64).to_bytes(16, 'big')
        key = bytes([run.shard, 0x30])
        d = hashlib.sha1(b'srv' + secret + key).digest()
        s = shape(d)
        if s in wanted and s not in found:
            found[s] = ('srv', secret, key)
            check('srv', secret, key, 'searched shape ' + s)
            # order sensitivity: permuting the byte arguments must follow
            check('srv', key, secret, 'permuted')
    run.count('searched_shapes_found', len(found))
    # ... and digests that end in zero bytes (a hand-written negation carries
    # through them): the last one, two and three bytes zero, either sign
    tails = {}
    want_tails = {'%s,tail%d' % (s_, n_) for s_ in ('pos', 'neg')
                  for n_ in (1, 2)}
    i = 0
    while len(tails) < len(want_tails) and i < 4000000:
        i += 1
        secret = (i * 0x9E3779B97F4A7C15 % 2 ** 128).to_bytes(16, 'big')
        d = hashlib.sha1(b'tl' + secret + b'k').digest()
        if d[-1]:
            continue
        n_ = 2 if d[-2] == 0 else 1
        key = '%s,tail%d' % ('neg' if d[0] & 0x80 else 'pos', n_)
        if key not in tails:
            tails[key] = 1
            check('tl', secret, b'k', 'searched ' + key)
            run.seen('digest_tails', key)
    run.count('searched_tails_found', len(tails))

    ids = ['', '-', 'a', 'é€', '\U0001F600', 'x' * 20, '0123456789abcdef',
           ' leading', 'trailing ']
    n = 250000 if thorough else 25000
    for k in range(n):
        sid = rng.choice(ids) if k % 3 else ''.join(
            chr(rng.choice((rng.randrange(32, 127), rng.randrange(0xA0, 0x800),
                            rng.randrange(0x4E00, 0x9FFF))))
            for _ in range(rng.randrange(0, 12)))
        secret = bytes(rng.getrandbits(8) for _ in range(
            16 if k % 5 else rng.randrange(0, 40)))
        key = bytes(rng.getrandbits(8) for _ in range(rng.choice(
            (0, 1, 94, 162, 294))))
        check(sid, secret, key, 'random')
    # ---- the application's logging set-up ------------------------------------
    # (a program may run with the root logger at DEBUG; what the library logs
    # on the way must not change what it computes)
    import logging
    if run.shard == 0:
        root = logging.getLogger()
        old_level, old_handlers = root.level, list(root.handlers)
        sink_handler = logging.NullHandler()
        root.addHandler(sink_handler)
        root.setLevel(logging.DEBUG)
        old_disable = logging.root.manager.disable
        logging.disable(logging.NOTSET)
        try:
            for k in range(300):
                check(rng.choice(ids), bytes(rng.getrandbits(8) for _ in
                                             range(16)),
                      bytes(rng.getrandbits(8) for _ in range(rng.choice(
                          (1, 94, 162)))), 'root logger at DEBUG')
                run.count('hashes_with_debug_logging')
        finally:
            root.setLevel(old_level)
            root.removeHandler(sink_handler)
            logging.disable(old_disable)
    # ---- several threads hashing at once --------------------------------------
    # (two connections of one process may log in at the same moment; with a
    # pre-emption injected between any two statements of the module)
    if run.shard == 0:
        import sys
        import threading
        from ..probes.linemon import LineMonitor
        problems = []

        def hasher(seed, n):
            import random
            r = random.Random(seed)
            for _ in range(n):
                sid = r.choice(ids)
                secret = bytes(r.getrandbits(8) for _ in range(16))
                key = bytes(r.getrandbits(8) for _ in range(r.choice(
                    (1, 94, 162))))
                exp = javahash.server_hash(sid, secret, key)
                try:
                    got = encryption.generate_verification_hash(sid, secret,
                                                                key)
                except Exception as e:
                    got = repr(e)
                if got != exp:
                    problems.append({'server_id': sid, 'secret': secret,
                                     'key': key, 'got': got, 'expected': exp})
                    return
        old_si = sys.getswitchinterval()
        sys.setswitchinterval(1e-6)
        try:
            with LineMonitor(files=['minecraft/networking/encryption.py'],
                             yield_prob=0.3, seed=run.seed) as mon:
                n_t = 3000 if thorough else 600
                ts = [threading.Thread(target=hasher, args=(run.seed + k, n_t))
                      for k in range(4)]
                for t in ts:
                    t.start()
                for t in ts:
                    t.join(300.0)
                run.count('concurrent_hashes', 4 * n_t)
                run.count('concurrent_hash_yields', mon.yields)
        finally:
            sys.setswitchinterval(old_si)
        if not problems:
            from ..probes.linemon import PreemptEverywhere
            pe = PreemptEverywhere(['minecraft/networking/encryption.py'],
                                   max_k=60)
            a_in = ('srvA', bytes(range(16)), bytes(range(50, 144)))
            b_in = ('', bytes(range(16, 32)), b'k' * 162)
            ea, eb = javahash.server_hash(*a_in), javahash.server_hash(*b_in)

            def judge(k, ra, rb):
                if ra != ('ok', ea) or rb != ('ok', eb):
                    return {'stopped_after_statements': k, 'thread_a':
                            repr(ra), 'thread_b': repr(rb),
                            'expected': (ea, eb)}
            wit = pe.run(
                lambda: encryption.generate_verification_hash(*a_in),
                lambda: encryption.generate_verification_hash(*b_in), judge)
            run.count('hash_preemption_points', pe.points)
            if wit:
                problems.append(wit)
        if problems:
            run.violation('hash/concurrent', 'a hash computed while other '
                          'threads were computing hashes is wrong (shared '
                          'state inside the function)', problems[0])
    # ---- the process environment ------------------------------------------------
    # (locale, UTF-8 mode: the server id is hashed as UTF-8 whatever the
    # process's preferred encoding is)
    if run.shard == 0:
        import json as _json
        import os as _os
        import subprocess
        import sys as _sys
        from .. import core as _core
        from . import c17_env
        envs = {'inherited': {},
                'plain C locale, UTF-8 mode off': {
                    'LC_ALL': 'C', 'LANG': 'C', 'PYTHONUTF8': '0',
                    'PYTHONCOERCECLOCALE': '0', 'PYTHONIOENCODING': 'utf-8'},
                'Latin-1 style locale': {
                    'LC_ALL': 'POSIX', 'PYTHONUTF8': '0',
                    'PYTHONCOERCECLOCALE': '0', 'PYTHONIOENCODING': 'utf-8'}}
        for label, extra in envs.items():
            env = dict(_os.environ)
            env.update(extra)
            pr = subprocess.run([_sys.executable, '-m', 'vf.checks.c17_env'],
                                cwd=_core.VERIF_DIR, env=env, timeout=120,
                                stdout=subprocess.PIPE, stderr=subprocess.PIPE)
            if pr.returncode:
                run.inconclusive_because('environment probe (%s) failed: %s'
                                         % (label, pr.stderr.decode()[-200:]))
                continue
            got = _json.loads(pr.stdout.decode('utf-8'))
            enc = got.pop('__encoding__')
            run.seen('process_encodings', enc)
            for sid in c17_env.IDS:
                run.count('hashes_in_other_environments')
                exp = javahash.server_hash(sid, bytes(range(16)), b'key' * 30)
                if got.get(sid) != exp:
                    run.violation('hash/depends-on-process-environment',
                                  'the hash of a server id differs in a '
                                  'process with another locale / encoding '
                                  'set-up', {'environment': label,
                                             'preferred_encoding': enc,
                                             'server_id': sid,
                                             'got': got.get(sid),
                                             'expected': exp})
                    break
    # ---- the hash as the login reactor sends it ---------------------------------
    # The real LoginReactor.react is given encryption requests (several in a
    # row on one reactor - a re-keying proxy - each with its own server id
    # and key); the session service (a stub token) must be told, every time,
    # the hash of *that* request's id, the secret the client generated for it
    # (recovered from its response with the private key) and that key.
    if run.shard == 0:
        import threading
        from cryptography.hazmat.primitives import serialization as _ser
        from cryptography.hazmat.primitives.asymmetric import rsa as _rsa
        from cryptography.hazmat.primitives.asymmetric.padding import PKCS1v15
        from minecraft.networking import connection as C
        from minecraft.networking.packets import clientbound as _cb

        class TokenStub(object):
            def __init__(self):
                self.joined = []

            def join(self, server_hash):
                self.joined.append(server_hash)
                return True

        class DummyTransport(object):
            def send(self, data):
                pass

            def read(self, n=-1):
                return b''

            def fileno(self):
                return -1

        class ConnStub(object):
            def __init__(self, pv):
                self.context = C.ConnectionContext(protocol_version=pv)
                self.auth_token = TokenStub()
                self.socket, self.file_object = DummyTransport(), \
                    DummyTransport()
                self._write_lock = threading.RLock()
                self.written = []
                self.connected = True

            def write_packet(self, packet, force=False):
                self.written.append(packet)
        keys = [_rsa.generate_private_key(public_exponent=65537,
                                          key_size=1024) for _ in range(2)]
        ders = [k.public_key().public_bytes(
            _ser.Encoding.DER, _ser.PublicFormat.SubjectPublicKeyInfo)
            for k in keys]
        for pv in (757, 340, 47):
            conn_ = ConnStub(pv)
            reactor = C.LoginReactor(conn_)
            for step, (sid, ki) in enumerate((('first', 0), ('zweite-é', 1),
                                              ('', 0), ('first', 1))):
                req = _cb.login.EncryptionRequestPacket(conn_.context)
                req.server_id, req.public_key = sid, ders[ki]
                req.verify_token = b'tok%d' % step
                n_j, n_w = len(conn_.auth_token.joined), len(conn_.written)
                try:
                    reactor.react(req)
                    resp = conn_.written[n_w]
                    secret = keys[ki].decrypt(resp.shared_secret, PKCS1v15())
                    exp = javahash.server_hash(sid, secret, ders[ki])
                    got = conn_.auth_token.joined[n_j:]
                except Exception as e:
                    exp, got = None, repr(e)
                run.count('reactor_joins_checked')
                run.case(('reactor-join', pv, step))
                if got != [exp]:
                    run.violation('hash/as-sent-by-the-login-reactor',
                                  'the hash handed to the session service for '
                                  'an encryption request is not the hash of '
                                  'that request\'s server id, secret and key',
                                  {'pv': pv, 'request_no': step + 1,
                                   'server_id': sid, 'got': got,
                                   'expected': exp})
                    break
    # ---- keys as a server may encode them ------------------------------------
    # The hash is over the key bytes *as received*.  Real and well-formed keys
    # in the canonical SubjectPublicKeyInfo form, and loadable variants of the
    # same key (AlgorithmIdentifier without the NULL parameters, a bare PKCS#1
    # RSAPublicKey): each hashes to the SHA-1 of its own bytes.
    if run.shard == 0:
        from cryptography.hazmat.primitives import serialization
        from cryptography.hazmat.primitives.asymmetric import rsa

        def der_len(n):
            if n < 0x80:
                return bytes([n])
            b = n.to_bytes((n.bit_length() + 7) // 8, 'big')
            return bytes([0x80 | len(b)]) + b

        def tlv(tag, body):
            return bytes([tag]) + der_len(len(body)) + body
        for bits in (1024, 2048):
            k_ = rsa.generate_private_key(public_exponent=65537,
                                          key_size=bits).public_key()
            spki = k_.public_bytes(
                serialization.Encoding.DER,
                serialization.PublicFormat.SubjectPublicKeyInfo)
            pkcs1 = k_.public_bytes(serialization.Encoding.DER,
                                    serialization.PublicFormat.PKCS1)
            oid = bytes.fromhex('06092a864886f70d010101')
            no_null = tlv(0x30, tlv(0x30, oid) + tlv(0x03, b'\x00' + pkcs1))
            with_null = tlv(0x30, tlv(0x30, oid + b'\x05\x00') +
                            tlv(0x03, b'\x00' + pkcs1))
            assert with_null == spki
            for label, kb in (('canonical', spki), ('no-null', no_null),
                              ('pkcs1', pkcs1), ('trailing-byte', spki + b'\0'),
                              ('pem', k_.public_bytes(
                                  serialization.Encoding.PEM, serialization.
                                  PublicFormat.SubjectPublicKeyInfo))):
                for sid in ('', 'srv', '-'):
                    check(sid, bytes(range(16)), kb, 'key form ' + label)
                    run.count('key_encodings_checked')
    if run.shard == 0 and found:
        s, (sid, secret, key) = sorted(found.items())[0]
        run.sample({'shape': s, 'server_id': sid, 'secret': secret, 'key': key,
                    'hash': javahash.server_hash(sid, secret, key)})
    run.require('digest_shapes', 6)
    run.require('calling_styles', 5)
    run.require('searched_tails_found', 4)
    if run.shard == 0:
        run.require('hashes_with_debug_logging', 100)
        run.require('reactor_joins_checked', 6)
        run.require('concurrent_hashes', 1000)
    run.require('key_encodings_checked', 10)
