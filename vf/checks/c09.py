"""C09 - status queries and version negotiation pick the right version or error.

Real Connections negotiate against the independent server under generated
(allowed set, default version, server behaviour) configurations; a small
decision function predicts TCP connections, handshakes, login names, error
class/message facts and callbacks, which are compared with what the server and
the client-side recorder observed.
"""
import contextlib
import io as _io
import json
import time

from ..probes import client as pc
from ..ref import core_packets as ref
from ..server import mcserver, scripts
from ..server.codec import codec_for

SHARDS = {'quick': 8, 'thorough': 16}


def login_then_bye(io, state):
    hs = scripts.read_handshake(io)
    if hs is None:
        return
    state['handshakes'].append((io.index, hs))
    if hs['next_state'] != 2:
        return
    pv = hs['protocol']
    try:
        codec = codec_for(pv)
        name = scripts.login_offline(io, pv, None, codec)
        state['login_names'].append(name)
        did, dp = codec.encode('play_disconnect', {'reason': '{"text":"x"}'})
        io.send_frame(did, dp)
    except Exception as e:
        state['login_errors'].append(repr(e))
    io.half_close()
    try:
        io.wait_eof(5.0)
    except mcserver.ScriptTimeout:
        state['never_closed'] = True


Decoy = pc.Decoy


def login_then_bye_compressed(io, pv):
    hs = scripts.read_handshake(io)
    if hs is None or hs['next_state'] != 2:
        return
    codec = codec_for(pv)
    scripts.login_offline(io, pv, 16, codec)
    did, dp = codec.encode('play_disconnect', {'reason': '"first"'})
    io.send_frame(did, dp)
    io.half_close()
    try:
        io.wait_eof(5.0)
    except mcserver.ScriptTimeout:
        pass


def negotiate(run, rng, sup, order, cfg, sup_all):
    """One connect() conversation.  cfg: allowed (list or None), as_names,
    default, behaviour (kind, value), auth, host."""
    import minecraft
    from minecraft.exceptions import VersionMismatch
    id_of = {}
    for vid, p in minecraft.SUPPORTED_MINECRAFT_VERSIONS.items():
        id_of.setdefault(p, vid)
    state = {'handshakes': [], 'login_names': [], 'login_errors': [],
             'status_requests': 0}
    kind, val = cfg['behaviour']

    import threading
    closed_on_accept = threading.Event()
    delay = cfg.get('reply_delay', 0)

    def handler(io):
        if io.index == 0 and cfg['multi'] and kind == 'close-on-accept':
            # the server hangs up at once; the client (held back for a moment
            # by a listener of its own) then fails to *write* its query
            io.close()
            closed_on_accept.set()
            return
        if io.index == 0 and cfg['multi']:
            hs = scripts.read_handshake(io)
            if hs is None:
                return
            state['handshakes'].append((0, hs))
            if kind == 'close-after-handshake':
                return
            f = io.recv_frame()
            if f is None:
                return
            state['status_requests'] += 1
            if kind == 'close-before-reply':
                return
            if delay:
                # a slow server: the reply is complete and well-formed, late
                time.sleep(delay)
            reply = val
            if isinstance(val, dict) and val and rng.random() < 0.5:
                reply = dict(val, description={'text': 'x' * rng.choice(
                    (10, 300, 5000))})
            io.send_frame(0x00, ref.encode_field('string', json.dumps(reply)),
                          fragments=rng.choice((None, [1], [2, 50], [700])))
            io.half_close()
            try:
                io.wait_eof(5.0)
            except mcserver.ScriptTimeout:
                state['never_closed'] = True
        else:
            login_then_bye(io, state)

    server = mcserver.Server(handler)
    rec = pc.Recorder()
    conn = None
    decoy = None
    w = {k: cfg[k] for k in ('allowed', 'default', 'behaviour', 'as_names',
                              'auth')}
    try:
        allowed = cfg['allowed']
        if allowed is not None:
            allowed_arg = [id_of[p] if (cfg['as_names'] == 'names' or (
                cfg['as_names'] == 'mixed' and i % 2)) else p
                for i, p in enumerate(allowed)]
            if rng.random() < 0.5:
                allowed_arg = set(allowed_arg)
        else:
            allowed_arg = None
        default = cfg['default']
        default_arg = None if default is None else (
            id_of[default] if cfg['as_names'] == 'names' else default)
        kw = {}
        if cfg['auth']:
            from minecraft import authentication
            tok = authentication.AuthenticationToken('u@x', 'acc', 'cli')
            tok.profile = authentication.Profile('abcd', 'authname')
            kw['auth_token'] = tok
        try:
            conn = pc.make_connection(server.port, rec,
                                      allowed_versions=allowed_arg,
                                      initial_version=default_arg, **kw)
        except Exception as e:
            run.violation('construct/raised-for-supported-versions',
                          'constructing a Connection for supported versions '
                          '(names, numbers or both mixed) raised',
                          dict(w, allowed=repr(allowed_arg)[:120],
                               initial=repr(default_arg), error=repr(e)))
            return None
        conn.options.address = cfg['host']
        conn.vf_rng = rng
        conn.vf_short_reads = rng.random() < 0.5   # replies arrive in pieces
        decoy = Decoy()
        if kind == 'close-on-accept' and cfg['multi']:
            from minecraft.networking.packets import serverbound as _sb
            held = []

            def hold(_packet):
                if not held:
                    held.append(1)
                    closed_on_accept.wait(5.0)
                    time.sleep(0.03)
            conn.register_packet_listener(hold, _sb.handshake.HandShakePacket,
                                          early=True, outgoing=True)
        try:
            conn.connect()
        except Exception as e:
            run.violation('negotiation/connect-raised:%s' % type(e).__name__,
                          'connect() raised to its caller', dict(
                              w, error=repr(e)))
            decoy.port.close()
            return None
        if not pc.wait_idle(conn, 20.0 + delay):
            return 'threads alive: ' + pc.dump_threads()
        if delay:
            run.count('negotiations.with_slow_reply')
            w['reply_delay_s'] = delay
        decoy.verdict(run, w)
        server.join(10.0)
        if [e for e in server.errors if e[1] == 'frame']:
            run.violation('negotiation/malformed-client-bytes', 'the client sent '
                          'bytes the independent server cannot parse as the '
                          'expected frame', dict(w, error=[e for e in
                                                 server.errors if e[1] ==
                                                 'frame'][0][2]))
            return None
        if [e for e in server.errors if e[1] == 'script']:
            return 'server script error %r' % (server.errors[:1],)
        run.count('negotiations')
        A = list(sup_all) if allowed is None else list(allowed)
        latest = max(A, key=order.index)
        D = default if default is not None else latest
        hs = [h for _i, h in state['handshakes']]
        n_conn = len(server.connections)

        def bad(key, what, **extra):
            run.violation(key, what, dict(w, connections=n_conn,
                                          handshakes=hs, **extra))
        # every handshake: host, port, next state
        for h in hs:
            if h['host'] != cfg['host'] or h['port'] != server.port:
                bad('handshake/address', 'handshake carries the wrong host or '
                    'port')
        if not cfg['multi']:
            run.count('single_version_shortcuts')
            if n_conn != 1 or state['status_requests'] or not hs or \
                    hs[0]['next_state'] != 2 or hs[0]['protocol'] != A[0]:
                bad('single/status-query-or-wrong-handshake', 'with a single '
                    'allowed version the client must log in directly with it')
            expect_login = A[0]
        else:
            if kind == 'close-on-accept':
                run.count('fallback.closed_on_accept_write_failed')
            elif not hs or hs[0]['next_state'] != 1 or \
                    hs[0]['protocol'] != latest:
                bad('status/handshake', 'status handshake must carry the '
                    'latest allowed version and next state 1',
                    expected_protocol=latest)
            # decision function
            if kind in ('close-after-handshake', 'close-before-reply',
                        'close-on-accept'):
                expect_login, expect_err = D, None
                run.count('fallback.closed')
            elif val == {}:
                expect_login, expect_err = None, 'invalid'
            elif not isinstance(val, dict) or 'version' not in val or \
                    not isinstance(val['version'], dict) or \
                    'protocol' not in val['version']:
                expect_login, expect_err = D, None
                run.count('fallback.no_version')
            else:
                p = val['version']['protocol']
                if p in A:
                    expect_login, expect_err = p, None
                    run.count('negotiated.server_version')
                else:
                    expect_login, expect_err = None, ('mismatch', p)
            # (only a reset met while *reading*: a failed write is followed by
            # the end of the stream, which is the "closed without replying"
            # case; BrokenPipeError can only come from a write)
            reset = kind in ('close-after-handshake', 'close-before-reply') \
                and rec.exceptions and isinstance(rec.exceptions[0],
                                                  ConnectionResetError) \
                and n_conn == 1
            if reset:
                # the peer's close arrived as a TCP reset (it had not read the
                # request yet): a transport error, not "closed without reply"
                run.count('fallback.closed_seen_as_reset')
                return None
            if expect_err is None:
                if rec.exceptions:
                    bad('negotiation/unexpected-error', 'an error was reported'
                        ' although negotiation should proceed to login',
                        exc=repr(rec.exceptions[0]), expected_login=expect_login)
            elif expect_err == 'invalid':
                run.count('rejected.empty_status')
                if n_conn != 1 or not rec.exceptions:
                    bad('status/empty-object-not-rejected', 'an empty status '
                        'object must be rejected as invalid (no login)',
                        exc=repr(rec.exceptions[:1]))
            else:
                p = expect_err[1]
                run.count('rejected.mismatch')
                exc = rec.exceptions[0] if rec.exceptions else None
                if n_conn != 1:
                    bad('mismatch/still-connected', 'a login was attempted '
                        'although the server version is not allowed')
                if not isinstance(exc, VersionMismatch):
                    bad('mismatch/wrong-error', 'expected VersionMismatch',
                        exc=repr(exc))
                else:
                    msg = str(exc)
                    clause_sup = 'supported, but not allowed' in msg
                    clause_not = 'not supported' in msg
                    is_sup = p in sup_all
                    if str(p) not in msg or \
                            getattr(exc, 'server_protocol', None) != p:
                        bad('mismatch/version-not-named', 'error does not name'
                            ' the server\'s version', msg=msg)
                    if clause_sup != is_sup or clause_not == is_sup:
                        bad('mismatch/wrong-clause', 'error states the wrong '
                            'supported/not-allowed clause', msg=msg,
                            supported=is_sup)
        if expect_login is not None:
            login_hs = [h for h in hs if h['next_state'] == 2]
            want_n = 2 if cfg['multi'] else 1
            if len(login_hs) != 1 or n_conn != want_n or \
                    login_hs[0]['protocol'] != expect_login:
                bad('login/wrong-version', 'login handshake must carry exactly'
                    ' the expected protocol version', expected=expect_login)
            want_name = 'authname' if cfg['auth'] else 'vfuser'
            if state['login_names'] != [want_name]:
                bad('login/name', 'login start must name the configured user /'
                    ' authenticated profile', names=state['login_names'],
                    errors=state['login_errors'])
        return None
    finally:
        if decoy is not None:
            decoy.port.close()
        server.stop()
        if conn is not None:
            try:
                conn.disconnect(immediate=True)
            except Exception:
                pass


def plain_status(run, rng, cfg):
    """Connection.status() with the handler modes of cfg."""
    state = {'handshakes': [], 'request': 0, 'ping': None}
    obj = cfg['status']

    # a third of the status queries are made on an object whose earlier
    # session (a login with compression, ended by the server) left state behind
    prior = cfg.get('prior', False)
    prior_pv = max(cfg['A'], key=__import__('minecraft')
                   .KNOWN_PROTOCOL_VERSIONS.index)

    def handler(io):
        if prior and io.index == 0:
            login_then_bye_compressed(io, prior_pv)
            return
        hs = scripts.read_handshake(io)
        if hs is None:
            return
        state['handshakes'].append(hs)
        try:
            seen = scripts.status_exchange(
                io, obj, before_pong=lambda: clock.step(
                    cfg.get('clock_step', 0)))
            state['request'] = seen['request']
            state['ping'] = seen['ping']
        except mcserver.ScriptTimeout:
            state['timeout'] = True
            return
        try:
            io.wait_eof(5.0)
        except mcserver.ScriptTimeout:
            state['never_closed'] = True

    clock = pc.SteppingClock()
    server = mcserver.Server(handler)
    rec = pc.Recorder()
    conn = None
    decoy = None
    w = dict(cfg)
    out = _io.StringIO()
    try:
        conn = pc.make_connection(server.port, rec, allowed_versions=cfg['A'])
        args = {}
        hs_mode, hp_mode = cfg['handle_status'], cfg['handle_ping']
        def on_status(obj_):
            rec.statuses.append(obj_)
            rec.log.emit('cb.status')
            if cfg.get('status_handler_ignores'):
                # a handler may hide the response from the ordinary listeners;
                # the query itself goes on (ping, close, exit callback)
                from minecraft.exceptions import IgnorePacket
                raise IgnorePacket

        def on_ping(ms):
            rec.pings.append(ms)
            rec.log.emit('cb.ping')
        kind = cfg.get('handler_kind', 'function')

        def as_kind(fn):
            # the handlers are documented as "a function"; any callable will
            # do, whatever its truth value and whoever else refers to it
            if kind == 'falsy-callable':
                class Collector(list):
                    def __call__(self, value):
                        return fn(value)
                assert not Collector()
                return Collector()
            if kind == 'bound-method':
                class Holder(object):
                    def method(self, value):
                        return fn(value)
                return Holder().method
            if kind == 'partial':
                import functools
                return functools.partial(fn)
            return fn
        if hs_mode == 'custom' or hp_mode == 'custom':
            run.seen('handler_kinds', kind)
        if hs_mode == 'custom':
            args['handle_status'] = as_kind(on_status)
        elif hs_mode == 'disabled':
            args['handle_status'] = False
        if hp_mode == 'custom':
            args['handle_ping'] = as_kind(on_ping)
        elif hp_mode == 'default':
            args['handle_ping'] = None        # documented: print the latency
        elif rng.random() < 0.5:
            args['handle_ping'] = False       # else: leave the default, False
        if prior:
            conn.allowed_proto_versions = {prior_pv}
            conn.connect()
            if not pc.wait_idle(conn, 20.0):
                return 'prior session: threads alive'
            if rec.exceptions or rec.exits != 1:
                return 'prior session did not end cleanly %r' % (
                    rec.exceptions[:1],)
            del rec.exceptions[:]
            rec.exits = 0
            conn.allowed_proto_versions = set(cfg['A'])
            run.count('status_queries.after_compressed_session')
        conn.vf_rng = rng
        conn.vf_short_reads = rng.random() < 0.5
        decoy = Decoy()
        log_mark = len(rec.log.events)
        import time as _time
        t_begin = _time.monotonic()
        with contextlib.redirect_stdout(out), clock:
            try:
                conn.status(**args)
            except Exception as e:
                run.violation('plain-status/raised:%s' % type(e).__name__,
                              'status() raised to its caller',
                              dict(w, error=repr(e)))
                decoy.port.close()
                return None
            idle = pc.wait_idle(conn, 20.0)
        elapsed_ms = int(1000 * (_time.monotonic() - t_begin)) + 1
        if clock.steps and clock.steps[0]:
            run.count('status_queries.wall_clock_stepped')
        decoy.verdict(run, w)
        if not idle:
            return 'threads alive: ' + pc.dump_threads()
        server.join(8.0)
        run.count('status_queries')
        printed = out.getvalue()

        def bad(key, what, **extra):
            run.violation(key, what, dict(w, printed=printed[:200],
                                          state={k: v for k, v in state.items()
                                                 if k != 'handshakes'},
                                          **extra))
        hs = state['handshakes']
        import minecraft
        latest = max(cfg['A'], key=minecraft.KNOWN_PROTOCOL_VERSIONS.index)
        if len(hs) != 1 or hs[0]['next_state'] != 1 or \
                hs[0]['protocol'] != latest or hs[0]['port'] != server.port:
            bad('plain-status/handshake', 'wrong status handshake',
                handshakes=hs)
        do_ping = hp_mode != 'disabled'
        if bool(state['ping']) != do_ping:
            bad('plain-status/ping', 'ping sent iff latency was requested',
                expected_ping=do_ping)
        if hs_mode == 'custom' and rec.statuses != [obj]:
            bad('plain-status/handler-calls', 'status handler must be called '
                'exactly once with the parsed status', got=rec.statuses)
        if hs_mode == 'default' and printed.count(repr(obj)) != 1:
            bad('plain-status/default-handler', 'default handler must print '
                'the status once')
        if hs_mode == 'disabled' and repr(obj) in printed:
            bad('plain-status/disabled-handler', 'disabled status handler '
                'still printed')
        if hp_mode == 'custom':
            if len(rec.pings) != 1 or not isinstance(rec.pings[0], int) or \
                    rec.pings[0] < 0:
                bad('plain-status/latency', 'latency must be reported once and'
                    ' be non-negative', pings=rec.pings)
            elif rec.pings[0] > elapsed_ms:
                bad('plain-status/latency-exceeds-duration', 'the reported '
                    'latency is longer than the whole query took (monotonic '
                    'clock)', pings=rec.pings, query_ms=elapsed_ms)
        if hp_mode == 'default' and do_ping and printed.count('Ping:') != 1:
            bad('plain-status/default-ping', 'default ping handler must print '
                'once')
        if hp_mode == 'disabled' and (rec.pings or 'Ping:' in printed):
            bad('plain-status/ping-disabled', 'latency reported although '
                'disabled')
        order = [k for _s, _r, k, _p in rec.log.events[log_mark:]
                 if k in ('cb.status', 'cb.ping', 'cb.exit')]
        if order != sorted(order, key=('cb.status', 'cb.ping',
                                       'cb.exit').index):
            bad('plain-status/callback-order', 'callbacks must come in the '
                'order status, latency, exit', order=order)
        if rec.exits != 1 or rec.exceptions:
            bad('plain-status/exit', 'status query must end with the exit '
                'callback (once) and no error', exits=rec.exits,
                exc=repr(rec.exceptions[:1]))
        if state.get('never_closed') or not server.connections[-1].eof:
            bad('plain-status/not-closed', 'connection not closed after the '
                'status query')
        return None
    finally:
        if decoy is not None:
            decoy.port.close()
        server.stop()
        if conn is not None:
            try:
                conn.disconnect(immediate=True)
            except Exception:
                pass


def run(run):
    import minecraft
    from minecraft.networking.connection import Connection
    thorough = run.tier == 'thorough'
    run.level = 'exploration'
    sup_all = list(minecraft.SUPPORTED_PROTOCOL_VERSIONS)
    sup = [p for p in sup_all if p >= 47]
    order = list(minecraft.KNOWN_PROTOCOL_VERSIONS)
    known_unsup = [p for p in order if p not in
                   minecraft.SUPPORTED_PROTOCOL_VERSIONS]
    run.rule = ('allowed sets (singletons, pairs, chronological prefixes, all; '
                'as names / numbers / mixed; list or set) x default versions x '
                'server behaviours (supported protocols sampled + boundaries, '
                'known-unsupported and unknown numbers incl. negative and 2^31,'
                ' missing version, missing protocol, {}, close before reply, '
                'close after handshake) x user/auth-profile x host spelling; '
                'plain status() in all 9 handler-mode combinations; refused '
                'constructions. Distinct = the configuration.')
    run.assumptions = ['chronological order from the tree\'s version list '
                       '(checked by C08)', 'versions below 47 are not driven '
                       '(outside the README\'s supported range)']
    rng = run.rng('c09')
    n = 8000 if thorough else 400
    slow_replies = [6, 12, 31] if thorough else [6]
    # ---- directed: boundary protocol numbers in the reply, always driven ----
    # (falsy 0, 1, the oldest/newest known-but-unsupported numbers; every one
    # with several allowed versions, where heeding the reply and ignoring it
    # lead to different outcomes)
    directed = []
    for proto in [0, 1] + known_unsup[:1] + known_unsup[-1:]:
        if proto in sup_all:
            continue
        for allowed in (None, [sup[0], sup[-1]], sup[:5]):
            for named in (True, False):
                v = {'protocol': proto}
                if named:
                    v['name'] = 'old'
                directed.append({
                    'allowed': allowed, 'default': None,
                    'behaviour': ('reply', {'version': v}),
                    'as_names': 'numbers', 'auth': False,
                    'host': '127.0.0.1', 'multi': True})
    for k, cfg in enumerate(directed):
        if not run.mine(k):
            continue
        err = None
        for attempt in range(3):
            err = negotiate(run, rng, sup, order, cfg, sup_all)
            if err is None:
                break
        run.case(('neg-directed', repr(cfg)))
        run.count('directed_boundary_replies')
        if err:
            run.inconclusive_because('directed negotiation %d: %s' % (k, err))
    for i in range(n):
        if not run.mine(i):
            continue
        shape = rng.choice(('single', 'pair', 'pair', 'prefix', 'all',
                            'triple', 'with-prerelease'))
        if shape == 'single':
            allowed = [rng.choice(sup)]
        elif shape == 'pair':
            allowed = rng.sample(sup, 2)
            if rng.random() < 0.4:
                allowed[0] = rng.choice((385, 386, 387, 388, 389, 390, 384,
                                         391, 706, 707))
                if allowed[0] == allowed[1]:
                    allowed[1] = 757
        elif shape == 'triple':
            allowed = rng.sample(sup, 3)
        elif shape == 'with-prerelease':
            # pre-release numbers carry bit 30: numerically the largest, in
            # publication order in the middle of the list
            pres = [p for p in sup if p & (1 << 30)]
            later = [p for p in sup if not p & (1 << 30) and
                     order.index(p) > order.index(pres[0])]
            allowed = [rng.choice(pres), rng.choice(later)] + \
                ([rng.choice(sup)] if rng.random() < 0.5 else [])
            run.count('allowed_sets_with_a_prerelease')
        elif shape == 'prefix':
            allowed = sup[:rng.randrange(2, len(sup))]
        else:
            allowed = None
        A = sup_all if allowed is None else allowed
        default = rng.choice((None, None, rng.choice(A), rng.choice(sup)))
        bk = rng.choice(('version', 'version', 'version', 'mismatch-supported',
                         'mismatch-known', 'mismatch-unknown', 'no-version',
                         'no-protocol', 'empty', 'close-before-reply',
                         'close-after-handshake', 'close-on-accept'))
        if bk == 'version':
            band = [p for p in A if p in (384, 385, 386, 387, 388, 389, 390,
                                          391, 706, 707, 338, 340, 47, 107)]
            pool = band if band and rng.random() < 0.5 else \
                [p for p in A if p >= 47]
            beh = ('reply', {'version': {'name': 'x', 'protocol':
                                         rng.choice(pool)},
                             'description': 'd'})
        elif bk == 'mismatch-supported':
            others = [p for p in minecraft.SUPPORTED_PROTOCOL_VERSIONS
                      if p not in A] or [99999]
            v = {'protocol': rng.choice(others)}
            if rng.random() < 0.7:
                # the name is free text: unknown, or the id of some *other*
                # known version (proxies report such things); the error must
                # still name the protocol number the server reported
                v['name'] = rng.choice(('srv', '1.12.2', '14w04a', '1.8.9',
                                        '1.18.1', 'BungeeCord 1.8.x-1.18.x',
                                        'Paper 1.8.8 (100% vanilla)',
                                        'Via %s {0} {name} %(x)d'))
            beh = ('reply', {'version': v})
        elif bk == 'mismatch-known':
            # (protocol 0 is a known version like any other: 13w41a)
            beh = ('reply', {'version': {'name': 'old', 'protocol':
                                         rng.choice(known_unsup + [0, 0, 1]
                                                    if 0 in known_unsup
                                                    else known_unsup)}})
            if rng.random() < 0.3:
                del beh[1]['version']['name']
        elif bk == 'mismatch-unknown':
            v = {'protocol': rng.choice(
                (-1, 99999, 2 ** 31, 2 ** 31 - 1, 758, 46, 1 << 30))}
            if rng.random() < 0.5:
                v['name'] = rng.choice(('1.12.2', '1.18.1', '21w44a',
                                        '50% {} %d'))
            beh = ('reply', {'version': v})
        elif bk == 'no-version':
            beh = ('reply', rng.choice(({'description': 'x'},
                                        {'players': {}, 'x': 1})))
        elif bk == 'no-protocol':
            beh = ('reply', {'version': {'name': 'nameless'}})
        elif bk == 'empty':
            beh = ('reply', {})
        else:
            beh = (bk, None)
        cfg = {'allowed': allowed, 'default': default, 'behaviour': beh,
               'as_names': rng.choice(('numbers', 'names', 'mixed')),
               'auth': rng.random() < 0.3,
               'host': rng.choice(('127.0.0.1', 'localhost')),
               'multi': len(set(A)) > 1}
        # a few replies come late (longer than any sensible I/O time-out a
        # client might be tempted to apply: the reply still decides)
        if run.shard == 0 and slow_replies and cfg['multi'] and \
                beh[0] == 'reply' and isinstance(beh[1], dict):
            # (only where heeding the reply and ignoring it lead to different
            # outcomes)
            p_ = (beh[1].get('version') or {}).get('protocol')
            d_ = default if default is not None else max(A, key=order.index)
            if p_ is not None and p_ != d_:
                cfg['reply_delay'] = slow_replies.pop(0)
        err = None
        for attempt in range(3):
            err = negotiate(run, rng, sup, order, cfg, sup_all)
            if err is None:
                break
        run.case(('neg', repr(cfg)))
        run.seen('behaviours', bk)
        if err:
            run.inconclusive_because('negotiation %d: %s' % (i, err))
        elif len(run.samples) < 3:
            run.sample({k: cfg[k] for k in ('allowed', 'default',
                                            'behaviour')})
    # ---- plain status in all handler modes -----------------------------------
    j = 0
    for hs_mode in ('default', 'custom', 'disabled'):
        for hp_mode in ('default', 'custom', 'disabled'):
            for rep in range(9 if thorough else 3):
                j += 1
                if not run.mine(j):
                    continue
                cfg = {'prior': rep % 3 == 1,
                       'status_handler_ignores': hs_mode == 'custom' and
                       rep % 2 == 1,
                       'handle_status': hs_mode, 'handle_ping': hp_mode,
                       # what kind of callable a custom handler is, and
                       # whether the wall clock is stepped while the ping is
                       # in flight (seconds)
                       'handler_kind': ('function', 'falsy-callable',
                                        'bound-method', 'partial')[j % 4],
                       'clock_step': (-30, 0, 3600)[j % 3],
                       'A': rng.sample(sup, rng.choice((1, 2, 5))),
                       'status': {'version': {'name': 'v%d' % j,
                                              'protocol': rng.choice(sup)},
                                  'description': {'text': 'é' * rep},
                                  'n': j}}
                err = None
                for attempt in range(3):
                    err = plain_status(run, rng, cfg)
                    if err is None:
                        break
                run.case(('status', hs_mode, hp_mode, rep))
                if err:
                    run.inconclusive_because('status %s/%s: %s'
                                             % (hs_mode, hp_mode, err))
    # ---- refused constructions --------------------------------------------------
    if run.shard == 0:
        bad_versions = ['not-a-version', '13w41a', 99999, 3, 3.5, None, b'1.8',
                        -1, 1 << 31, known_unsup[-1]]
        unsup_names = [vid for vid, p in
                       minecraft.KNOWN_MINECRAFT_VERSIONS.items()
                       if vid not in minecraft.SUPPORTED_MINECRAFT_VERSIONS]
        # every known-but-unsupported name - also those whose protocol number
        # is shared with a supported release (support is per name)
        bad_versions += unsup_names
        for bv in bad_versions:
            for how in ('allowed', 'allowed+good', 'initial'):
                run.case(('construct', repr(bv), how))
                run.count('constructions_refused_expected')
                try:
                    if how == 'allowed':
                        Connection('127.0.0.1', 1, allowed_versions=[bv])
                    elif how == 'allowed+good':
                        Connection('127.0.0.1', 1, allowed_versions=[757, bv])
                    else:
                        Connection('127.0.0.1', 1, initial_version=bv) \
                            if bv is not None else (_ for _ in ()).throw(
                                ValueError('n/a'))
                except ValueError:
                    continue
                except Exception as e:
                    run.violation('construct/wrong-error', 'construction with '
                                  'an unknown/unsupported version raised '
                                  'something other than ValueError',
                                  {'version': repr(bv), 'how': how,
                                   'error': repr(e)})
                    continue
                run.violation('construct/accepted', 'construction accepted an '
                              'unknown or unsupported version',
                              {'version': repr(bv), 'how': how})
        # accepted forms
        for good in [757, 47] + list(minecraft.SUPPORTED_MINECRAFT_VERSIONS):
            try:
                Connection('127.0.0.1', 1, allowed_versions=[good],
                           initial_version=good)
            except Exception as e:
                run.violation('construct/refused-supported', 'a supported '
                              'version was refused', {'version': good,
                                                      'error': repr(e)})
    run.require('negotiations', 15)
    run.require('status_queries', 2)
    run.require('behaviours', 8)
    run.require('negotiations.with_slow_reply', 1)
    run.require('fallback.closed_on_accept_write_failed', 2)
