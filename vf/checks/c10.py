"""C10 - login completes correctly for every order of optional server steps.

The independent server (own RSA key, own CFB8, own framing) plays every
permutation of {encrypt?, compress(th)?, plugin-request*} followed by success
or a disconnect, on protocol versions either side of each login layout
boundary.  Monitors at the server boundary: client bytes parsed as the script
dictates (plaintext response, then ciphertext; compressed format after
set-compression with the threshold honoured), secret/token recovered with the
private key, plugin responses counted per message id, a play keep-alive echo
as behavioural proof of the play state, the serverId posted to a Yggdrasil
stand-in vs. vf.ref.javahash; client-side: errors delivered to the handlers.
"""
import itertools
import os
import threading
import time

from ..probes import client as pc
from ..ref import javahash
from ..server import mcserver, scripts, yggdrasil
from ..server.codec import codec_for

SHARDS = {'quick': 8, 'thorough': 16}
PRE = 1 << 30
VERSIONS = [340, 384, 385, 390, 391, 404, 706, 707, 757, PRE | 7]

DISCONNECTS = [
    ('text-json', '{"text":"You are banned: reason 42"}',
     'LoginDisconnect', 'You are banned: reason 42'),
    ('plain', 'Kicked by an operator.', 'LoginDisconnect',
     'Kicked by an operator.'),
    ('translate', '{"translate":"multiplayer.disconnect.not_whitelisted"}',
     'LoginDisconnect', 'multiplayer.disconnect.not_whitelisted'),
    ('json-string', '"plain json string"', 'LoginDisconnect',
     'plain json string'),
    ('json-list', '[{"text":"in a list"}]', 'LoginDisconnect', 'in a list'),
    ('outdated-client', '{"text":"Outdated client! Please use 1.12.2"}',
     'VersionMismatch', '1.12.2'),
    ('outdated-server', '{"text":"Outdated server! I\'m still on 1.8.9"}',
     'VersionMismatch', '1.8.9'),
    # ... also when the version named is not one the library knows
    ('outdated-client-unknown', '{"text":"Outdated client! Please use 1.19.4"}',
     'VersionMismatch', '1.19.4'),
    ('outdated-server-unknown',
     '{"text":"Outdated server! I\'m still on 1.6.4"}',
     'VersionMismatch', '1.6.4'),
    ('unicode', '{"text":"Verbindung abgelehnt: é€"}', 'LoginDisconnect',
     'Verbindung abgelehnt: é€'),
    ('text-not-string', '{"text":5}', 'LoginDisconnect', '5'),
    ('text-null', '{"text":null,"extra":[{"text":"x"}]}', 'LoginDisconnect',
     'extra'),
    # chat components whose siblings are bare strings / other JSON values
    # (what Spigot- and BungeeCord-style serialisers emit)
    ('extra-bare', '{"extra":["Server is full"],"text":""}',
     'LoginDisconnect', ''),
    ('extra-mixed', '{"text":"Full: ","extra":["a",{"text":"b"},5,null,[]]}',
     'LoginDisconnect', 'Full: '),
    ('text-nested', '{"text":"outer","extra":[{"extra":["deep"],"text":""}],'
     '"bold":true}', 'LoginDisconnect', 'outer'),
]


def scripts_for(pv, thorough, rng):
    """All admissible step orders: permutations of the chosen optional steps."""
    plugins_ok = pv >= 385 and (pv & PRE or pv >= 385)
    out = []
    for enc in (False, True):
        for comp in (False, True):
            for nplug in ((0, 1, 2) if plugins_ok else (0,)):
                steps = (['E'] if enc else []) + (['C'] if comp else []) + \
                    ['P%d' % i for i in range(nplug)]
                perms = set(itertools.permutations(steps))
                out.extend(sorted(perms))
    return out


def run_login(run, rng, pv, order, threshold, terminal, server_id, auth,
              user_handler, ygg):
    from minecraft.exceptions import IgnorePacket
    # 15% of the disconnect cases: the server refuses at once (see handler);
    # none of the optional steps then takes place
    early_reset = terminal[0] != 'success' and rng.random() < 0.15
    if early_reset:
        order = ()
    codec = codec_for(pv)
    state = {'plugin_responses': [], 'errors': [], 'chat': [], 'obs': None}
    token = bytes(rng.getrandbits(8) for _ in range(rng.choice((4, 16))))
    # (message ids are signed VarInts on the wire: ids with bit 31 set - a
    # server drawing them from a random int - must be echoed all the same)
    plugin_ids = {s: rng.choice((1, 7, 128, 300, 2 ** 21, 2 ** 31,
                                 2 ** 32 - 9, 2 ** 31 + 12345)) + i
                  for i, s in enumerate(x for x in order if x[0] == 'P')}
    if len(plugin_ids) > 1 and rng.random() < 0.35:
        # nothing obliges a server to number its requests distinctly: every
        # request is answered, also one that reuses an id (0 included)
        shared = rng.choice((0, 0, 5, 2 ** 31))
        plugin_ids = {s: shared for s in plugin_ids}
        run.count('logins.plugin_requests_sharing_an_id')
    chat_sizes = []
    chat_gate = []
    own_modes = ('explicit', 'implicit', 'implicit')
    deferred, encryption_answered = [], []
    # (answers may be deferred only if the server does not wait for them
    # before the encryption step: no set-compression after a plugin request
    # and before 'E', where the script collects outstanding answers)
    before_e = list(order[:order.index('E')]) if 'E' in order else []
    first_p = next((i for i, x in enumerate(before_e) if x[0] == 'P'), None)
    defer_answers = user_handler and first_p is not None and \
        'C' not in before_e[first_p:] and rng.random() < 0.7
    judged_session = []
    batch_with_encryption = rng.random() < 0.6
    glue = rng.random() < 0.5
    slow_encryption_listener = 'E' in order and rng.random() < 0.35

    def user_data(mid):
        return (b'handled', b'', b'h' * 300, b'\x00')[mid % 4]
    w = {'pv': pv, 'order': list(order), 'threshold': threshold,
         'terminal': terminal[0], 'server_id': server_id, 'auth': auth,
         'user_handler': user_handler, 'codec': type(codec).__name__}
    w['second_connection_of_object'] = False

    def note_frame(io, pid, payload, info):
        name, vals = codec.decode('login', pid, payload)
        return name, vals

    # A quarter of the logins are the *second* connection of the object; the
    # first one used encryption and compression, so that transport state
    # surviving into the next connection would break the judged login.
    prior = rng.random() < 0.25

    # ... and half of those first connections *fail* while an answer is still
    # queued (plugin request and login disconnect arrive in one segment): a
    # queue outliving its connection would put that answer in front of the
    # next connection's handshake
    prior_fails = prior and pv >= 385 and rng.random() < 0.5

    def prior_handler(io):
        scripts.read_handshake(io)
        if prior_fails:
            io.recv_frame()                              # login start
            qid, qp = codec.encode('plugin_request', {
                'message_id': 7, 'channel': 'vf:old', 'data': b''})
            did, dp = codec.encode('login_disconnect',
                                   {'reason': '{"text":"first fails"}'})
            io.send_raw(io.encode_frame(qid, qp) + io.encode_frame(did, dp))
            io.half_close()
            io.drain(5.0)
            return
        scripts.login_offline(io, pv, 5, codec, encrypted=True)
        did, dp = codec.encode('play_disconnect', {'reason': '"first"'})
        io.send_frame(did, dp)
        io.half_close()
        io.drain(5.0)

    # A third of the judged logins are reached through version negotiation
    # (two allowed versions, a status query answered with `pv`), so that the
    # login state machine is also exercised with whatever the status phase
    # left behind in the connection object.
    server_closed = threading.Event()
    negotiated = rng.random() < 0.33 and not early_reset
    other_pv = 757 if pv != 757 else 340
    stages = (['prior'] if prior else []) + \
        (['status'] if negotiated else []) + ['judged']

    def status_handler(io):
        import json
        from ..ref import core_packets as refp
        hs = scripts.read_handshake(io)
        io.recv_frame()
        io.send_frame(0x00, refp.encode_field('string', json.dumps(
            {'version': {'name': 'vf', 'protocol': pv}})))
        io.half_close()
        try:
            io.wait_eof(5.0)
        except mcserver.ScriptTimeout:
            pass

    def handler(io):
        stage = stages[io.index] if io.index < len(stages) else 'extra'
        if stage == 'prior':
            return prior_handler(io)
        if stage == 'status':
            return status_handler(io)
        if stage == 'extra':
            state['errors'].append('unexpected extra connection')
            return
        if early_reset:
            # the server refuses at once: disconnect packet, then a reset,
            # before it has read a single byte from the client (whose own
            # first write is held back until then and so fails)
            did, dp = codec.encode('login_disconnect', {'reason': terminal[1]})
            io.send_frame(did, dp)
            time.sleep(0.01)
            io.close(abrupt=True)
            server_closed.set()
            return
        hs = scripts.read_handshake(io)
        state['handshake'] = hs
        f = io.recv_frame()
        name, vals = codec.decode('login', f[0], f[1])
        if name != 'login_start':
            state['errors'].append('expected login start, got %s' % name)
            return
        state['login_name'] = vals.get('name')
        pending = 0
        carry = []
        tail = []
        for i, step in enumerate(order):
            nxt = order[i + 1] if i + 1 < len(order) else 'T'
            if step == 'E':
                # plugin responses may legitimately arrive before or after
                # the (forced) encryption response
                key, der = scripts.server_key()
                rid, rp = codec.encode('encryption_request', {
                    'server_id': server_id, 'public_key': der,
                    'verify_token': token})
                if carry:
                    # plugin request(s) and encryption request in one segment:
                    # the client reads them in one batch
                    io.send_raw(b''.join(carry) + io.encode_frame(rid, rp))
                    del carry[:]
                    state['same_batch'] = True
                else:
                    io.send_frame(rid, rp)
                while True:
                    fr = io.recv_frame()
                    if fr is None:
                        state['errors'].append('closed instead of encryption '
                                               'response')
                        return
                    n2, v2 = codec.decode('login', fr[0], fr[1])
                    if n2 == 'plugin_response':
                        state['plugin_responses'].append((v2, fr[2], 'plain'))
                        pending -= 1
                        continue
                    if n2 != 'encryption_response':
                        state['errors'].append('expected encryption response, '
                                               'got %s id %d' % (n2, fr[0]))
                        return
                    # a real server asks the session service "has this user
                    # joined?" the moment the response is in: how many join
                    # requests has the service seen by now?
                    state['session_requests_at_response'] = len(ygg.requests)
                    break
                from cryptography.hazmat.primitives.asymmetric.padding import \
                    PKCS1v15
                try:
                    secret = key.decrypt(v2['shared_secret'], PKCS1v15())
                    tok = key.decrypt(v2['verify_token'], PKCS1v15())
                except Exception as e:
                    state['errors'].append('secret/token not decryptable: %r'
                                           % e)
                    return
                state['obs'] = {'secret': secret, 'token_ok': tok == token,
                                'response_compressed_format':
                                io.threshold is not None}
                io.enable_encryption(secret)
            elif step == 'C':
                # the framing of any outstanding plugin answer must be
                # unambiguous: collect them before switching
                while pending > 0:
                    fr = io.recv_frame()
                    if fr is None:
                        state['errors'].append('closed awaiting plugin '
                                               'response')
                        return
                    n2, v2 = codec.decode('login', fr[0], fr[1])
                    if n2 != 'plugin_response':
                        state['errors'].append('expected plugin response, '
                                               'got %s' % n2)
                        return
                    state['plugin_responses'].append((v2, fr[2], 'sync'))
                    pending -= 1
                cid, cp = codec.encode('set_compression',
                                       {'threshold': threshold})
                if nxt == 'T' and terminal[0] == 'success' and glue:
                    # the packets of the next framing state travel in the
                    # same segment as the packet that announces it
                    head = io.encode_frame(cid, cp)
                    io.enable_compression(threshold)
                    tail.append(head)
                    state['glued'] = state.get('glued', 0) + 1
                else:
                    io.send_frame(cid, cp)
                    io.enable_compression(threshold)
            else:
                data = b'\x01\x02' * rng.randrange(0, 40)
                if io.threshold is not None and 8 < io.threshold <= 4096:
                    # a frame whose payload is exactly `threshold` bytes: a
                    # vanilla peer compresses it (size >= threshold)
                    qid, base = codec.encode('plugin_request', {
                        'message_id': plugin_ids[step], 'channel': 'vf:test',
                        'data': b''})
                    pad = io.threshold - len(base) - 1
                    if pad >= 0:
                        data = bytes(rng.getrandbits(8) for _ in range(pad))
                        state['exact_threshold_frames'] = state.get(
                            'exact_threshold_frames', 0) + 1
                qid, qp = codec.encode('plugin_request', {
                    'message_id': plugin_ids[step], 'channel': 'vf:test',
                    'data': data})
                if nxt == 'E' and batch_with_encryption:
                    carry.append(io.encode_frame(qid, qp))
                else:
                    io.send_frame(qid, qp)
                pending += 1
        if terminal[0] == 'success':
            kid, kp = codec.encode('cb_keep_alive', {'id': 4242})
            if glue:
                # login success and the first play packet in one segment (the
                # client changes its packet table between two packets of one
                # read batch)
                sid_, sp_ = codec.encode('login_success', {
                    'uuid': '11111111-2222-3333-4444-555555555555',
                    'username': 'vfuser'})
                io.send_raw(b''.join(tail) + io.encode_frame(sid_, sp_) +
                            io.encode_frame(kid, kp))
                state['glued'] = state.get('glued', 0) + 1
            else:
                scripts.send_login_success(io, pv, codec)
                io.send_frame(kid, kp)
            # collect outstanding plugin responses, the echo and the chats
            want_chat = 3
            got_echo = False
            while not (got_echo and len(state['chat']) >= want_chat
                       and pending <= 0):
                fr = io.recv_frame(6.0)
                if fr is None:
                    break
                # plugin responses queued during login may be flushed after
                # the client has already switched to the play state
                n2, v2 = codec.decode('login', fr[0], fr[1]) if pending > 0 \
                    else ('unknown', None)
                if n2 == 'plugin_response' and pending > 0 and \
                        v2.get('message_id') in plugin_ids.values():
                    state['plugin_responses'].append((v2, fr[2], 'late'))
                    pending -= 1
                    continue
                n3, v3 = codec.decode('play', fr[0], fr[1])
                if n3 == 'sb_keep_alive':
                    got_echo = v3['id'] == 4242
                    state['echo'] = v3['id']
                elif n3 == 'sb_chat':
                    state['chat'].append((len(v3['message']), fr[2]))
                else:
                    state['errors'].append('unexpected play frame %s id %d'
                                           % (n3, fr[0]))
            did, dp = codec.encode('play_disconnect', {'reason': '"bye"'})
            io.send_frame(did, dp)
        else:
            did, dp = codec.encode('login_disconnect', {'reason': terminal[1]})
            io.send_frame(did, dp)
        io.half_close()
        rest = io.drain(5.0)
        for fr in rest:
            n2, v2 = codec.decode('login', fr[0], fr[1])
            if n2 == 'plugin_response':
                state['plugin_responses'].append((v2, fr[2], 'after-end'))
            else:
                state.setdefault('trailing', []).append(fr[0])

    server = mcserver.Server(handler)
    rec = pc.Recorder()
    conn = None
    n_req0 = len(ygg.requests)
    try:
        kw = {}
        if auth:
            from minecraft import authentication
            tok = authentication.AuthenticationToken('user@example', 'ACCESS',
                                                     'CLIENT')
            tok.profile = authentication.Profile('0123abcd', 'authname')
            kw['auth_token'] = tok
        # the configured user name travels as it is (any length, any script)
        user = rng.choice(('vfuser', 'vfuser', '\u00e9\u4e2d', 'N' * 16,
                           'x' * 40, 'a b', 'Z'))
        if not auth:
            kw['username'] = user
        w['username'] = user if not auth else 'authname'
        conn = pc.make_connection(server.port, rec, allowed_versions={pv},
                                  decoy=rng.random() < 0.3, **kw)
        w['negotiated'] = negotiated
        conn.vf_rng = rng
        conn.vf_short_reads = rng.random() < 0.5   # frames arrive in pieces
        w['short_reads'] = conn.vf_short_reads
        if user_handler:
            from minecraft.networking.packets import clientbound, serverbound

            def own(packet):
                mode = own_modes[packet.message_id % len(own_modes)]
                data = user_data(packet.message_id)
                if mode == 'explicit':
                    ans = serverbound.login.PluginResponsePacket(
                        message_id=packet.message_id, successful=True,
                        data=data)
                else:
                    # 'successful' left to the packet: any bytes object, also
                    # an empty one, is a successful answer
                    ans = serverbound.login.PluginResponsePacket(
                        message_id=packet.message_id, data=data)
                if defer_answers and judged_session and \
                        not encryption_answered:
                    deferred.append(ans)
                else:
                    conn.write_packet(ans)
                raise IgnorePacket
            conn.register_packet_listener(
                own, clientbound.login.PluginRequestPacket, early=True)

            def flush_deferred(_packet):
                # an answer computed elsewhere arrives (is queued) just while
                # the encryption response is being written
                if not judged_session:
                    return
                encryption_answered.append(1)
                while deferred:
                    conn.write_packet(deferred.pop(0))
                    run.count('plugin_answers_queued_during_encryption_reply')
            conn.register_packet_listener(
                flush_deferred, serverbound.login.EncryptionResponsePacket,
                outgoing=True, early=rng.random() < 0.5)
        # the session service must have seen the join by the time the client
        # starts writing its encryption response (a server verifies the user
        # the moment the response is in); observed in the client's own thread,
        # before the write: no race with the server side of the harness
        from minecraft.networking.packets import serverbound as _sbl

        def before_response(_p):
            state['session_requests_when_response_written'] = \
                len(ygg.requests)
        conn.register_packet_listener(
            before_response, _sbl.login.EncryptionResponsePacket,
            outgoing=True, early=True)
        if slow_encryption_listener:
            from minecraft.networking.packets import clientbound as _cbl

            def dawdle(_p):
                # what the server sends next (already encrypted) is waiting
                # when the client goes on reading its current batch
                time.sleep(0.05)
            conn.register_packet_listener(
                dawdle, _cbl.login.EncryptionRequestPacket)
            run.count('logins.slow_encryption_request_listener')
        if terminal[0] == 'success':
            from minecraft.networking.packets import clientbound, serverbound

            def on_success(_p):
                if chat_gate:
                    return
                th = threshold if 'C' in order else 30
                for size in (max(1, th - 1), max(1, th), th + 1):
                    # message length chosen so that id+len prefix+text == size
                    n = min(200, max(1, size - 2 - (1 if size < 130 else 2)))
                    chat_sizes.append(n)
                    conn.write_packet(serverbound.play.ChatPacket(
                        message='c' * n))
            conn.register_packet_listener(
                on_success, clientbound.login.LoginSuccessPacket)
        if prior:
            w['second_connection_of_object'] = True
            if terminal[0] == 'success':
                # the chat burst belongs to the judged session only
                chat_gate.append(False)
            conn.connect()
            if not pc.wait_idle(conn, 25.0):
                return 'first session: threads alive'
            if prior_fails:
                if len(rec.exceptions) != 1:
                    return 'first (failing) session: %r' % (rec.exceptions,)
                run.count('logins.after_failed_connection')
            elif rec.exceptions or rec.exits != 1:
                return 'first session did not end cleanly: %r' % (
                    rec.exceptions[:1],)
            del rec.exceptions[:]
            rec.exits = 0
            del chat_gate[:]
            run.count('logins.second_connection_of_object')
        n_req0 = len(ygg.requests)
        if early_reset:
            from minecraft.networking.packets import serverbound as _sb
            held = []

            def hold(packet):
                if not held:
                    held.append(1)
                    server_closed.wait(5.0)
            conn.register_packet_listener(
                hold, _sb.handshake.HandShakePacket, early=True,
                outgoing=True)
            w['early_reset'] = True
            run.count('logins.refused_with_reset_before_reading')
        if negotiated:
            conn.allowed_proto_versions = {pv, other_pv}
            run.count('logins.negotiated')
        judged_session.append(1)
        conn.connect()
        if not pc.wait_idle(conn, 25.0):
            return 'threads alive: ' + pc.dump_threads()
        server.join(12.0)
        if [e for e in server.errors if e[1] in ('script', 'timeout')]:
            errs = [e for e in server.errors if e[1] in ('script', 'timeout')]
            if errs[0][1] == 'timeout' and not rec.exceptions:
                run.violation('login/client-silent', 'the client stopped '
                              'answering during login without reporting an '
                              'error', dict(w, server=errs[0][2]))
                return None
            if errs[0][1] == 'script':
                return 'server script error: %r' % (errs[:1],)
        run.count('logins')
        if getattr(rec, 'decoy', None) is not None:
            rec.decoy.verdict(run, w)
            run.count('logins.with_decoy_object')
        run.count('frames_of_exactly_threshold_bytes',
                  state.get('exact_threshold_frames', 0))
        run.count('logins.state_transitions_in_one_segment',
                  state.get('glued', 0))
        run.count('logins.plugin_and_encryption_request_in_one_segment',
                  int(bool(state.get('same_batch'))))

        def bad(key, what, **extra):
            run.violation(key, what, dict(w, **extra))
        frame_errs = [e for e in server.errors if e[1] == 'frame']
        if frame_errs:
            bad('login/malformed-client-bytes', 'client bytes do not parse '
                'under the framing/cipher state the script dictates',
                error=frame_errs[0][2])
            return None
        if state['errors']:
            bad('login/unexpected-frame', 'client sent something the script '
                'does not admit', errors=state['errors'][:3],
                client_exc=repr(rec.exceptions[:1]))
            return None
        if not early_reset and state.get('login_name') != w['username']:
            bad('login/name', 'login start does not name the configured user '
                '/ the authenticated profile', got=state.get('login_name'))
        obs = state['obs']
        if 'E' in order:
            run.count('encryptions')
            if obs is None:
                bad('login/no-encryption-response', 'no encryption response')
            else:
                if len(obs['secret']) != 16:
                    bad('login/secret-length', 'shared secret is not 16 bytes',
                        n=len(obs['secret']))
                if not obs['token_ok']:
                    bad('login/verify-token', 'verify token not returned '
                        'intact')
            reqs = ygg.requests[n_req0:]
            should_join = auth and server_id != '-'
            if should_join:
                run.count('joins_expected')
                key, der = scripts.server_key()
                exp = javahash.server_hash(server_id, obs['secret'], der) \
                    if obs else None
                if len(reqs) != 1 or not reqs[0]['path'].endswith('/join') or \
                        (reqs[0]['json'] or {}).get('serverId') != exp:
                    bad('login/session-join', 'session join request missing '
                        'or carrying the wrong server hash', expected=exp,
                        got=[(r['path'], r['json']) for r in reqs][:2])
                elif state.get('session_requests_when_response_written',
                               n_req0 + 1) <= n_req0:
                    bad('login/session-join-after-response', 'the client '
                        'began to write its encryption response before the '
                        'session service had seen the join request (a server '
                        'that verifies the user on receipt refuses the login)')
                else:
                    run.count('joins_seen_before_the_response')
            elif reqs:
                bad('login/unexpected-join', 'session service contacted '
                    'although offline / unauthenticated',
                    got=[r['path'] for r in reqs])
        # plugin requests answered exactly once each
        answers = {}
        for vals, info, when in state['plugin_responses']:
            answers.setdefault(vals['message_id'], []).append(vals)
        import collections
        asked = collections.Counter(plugin_ids.values())
        for mid, times in sorted(asked.items()):
            got = answers.get(mid, [])
            run.count('plugin_requests', times)
            if terminal[0] != 'success' and len(got) < times:
                # a disconnect may legitimately pre-empt a queued answer
                run.count('plugin_answers_preempted_by_disconnect')
                if not got:
                    continue
            elif len(got) != times:
                bad('login/plugin-answer-count', 'plugin request made %d '
                    'time(s) with this id, answered %d times' % (
                        times, len(got)), message_id=mid)
                continue
            v = got[0]
            if any(g != v for g in got[1:]):
                bad('login/plugin-answer-count', 'answers to requests sharing '
                    'an id differ', message_id=mid, answers=got)
            if user_handler:
                run.seen('user_answer_payloads', len(user_data(mid)))
                if not v['successful'] or v['data'] != user_data(mid):
                    bad('login/plugin-user-answer', 'the user handler\'s answer'
                        ' was not what reached the wire', answer=v)
            elif v['successful'] or v.get('data') or \
                    v.get('trailing_when_unsuccessful'):
                bad('login/plugin-default-answer', 'default answer must be '
                    'unsuccessful and empty', answer=v)
        for mid in answers:
            if mid not in plugin_ids.values():
                bad('login/plugin-unknown-answer', 'answer to a request never '
                    'made', message_id=mid)
        # terminal
        if terminal[0] == 'success':
            run.count('successes')
            if state.get('echo') != 4242:
                bad('login/not-in-play-state', 'after login success a play '
                    'keep-alive was not echoed', echo=state.get('echo'),
                    exc=repr(rec.exceptions[:1]))
            if rec.exceptions:
                bad('login/error-after-success', 'error reported on a '
                    'successful login', exc=repr(rec.exceptions[0]))
            if 'C' in order:
                for n, info in state['chat']:
                    size = n + 1 + (1 if n < 128 else 2)
                    run.count('chat_frames_checked')
                    if size < threshold and info['compressed']:
                        bad('login/compressed-below-threshold', 'payload below'
                            ' the threshold was compressed', size=size)
                    if size > threshold and not info['compressed']:
                        bad('login/uncompressed-above-threshold', 'payload '
                            'above the threshold was not compressed',
                            size=size)
        else:
            run.count('disconnects')
            name, text, want_cls, fragment = terminal
            exc = rec.exceptions[0] if rec.exceptions else None
            cls = type(exc).__name__ if exc is not None else None
            if exc is None:
                bad('login/silent-disconnect', 'login disconnect produced no '
                    'error (silent exit)', exits=rec.exits)
            elif cls != want_cls:
                bad('login/disconnect-error-class/%s' % name, 'login '
                    'disconnect surfaced as %s, expected %s' % (cls, want_cls),
                    exc=repr(exc))
            elif fragment not in str(exc) and name not in ('text-null',):
                bad('login/disconnect-message/%s' % name, 'error does not '
                    'carry the server\'s message', exc=str(exc))
            elif want_cls == 'VersionMismatch' and \
                    getattr(exc, 'server_version', None) != fragment:
                bad('login/outdated-version', 'version-mismatch error does '
                    'not name the server\'s version', exc=str(exc))
        return None
    finally:
        if getattr(rec, 'decoy', None) is not None:
            rec.decoy.port.close()
        server.stop()
        if conn is not None:
            try:
                conn.disconnect(immediate=True)
            except Exception:
                pass


def run(run):
    for k in ('http_proxy', 'https_proxy', 'HTTP_PROXY', 'HTTPS_PROXY',
              'all_proxy', 'ALL_PROXY'):
        os.environ.pop(k, None)
    os.environ['NO_PROXY'] = '127.0.0.1,localhost'
    thorough = run.tier == 'thorough'
    run.level = 'exploration'
    run.rule = ('server login scripts: every permutation of {encrypt?, '
                'compress(th in {0,1,64,256,2^31-1})?, 0-2 plugin requests} '
                'x terminal {success, 10 disconnect message forms} x protocol '
                'versions {340,384,385,390,391,404,706,707,757,PRE|7} x server'
                ' id {"-", "", random} x auth token {none, authenticated} x '
                'user plugin handler {no, yes}; quick samples the product, '
                'thorough covers every permutation at every version. Distinct '
                '= the script.')
    run.assumptions = ['the server waits for a plugin answer before sending '
                       'set-compression (otherwise the framing of that answer '
                       'is inherently ambiguous); it accepts the encryption '
                       'response and queued plugin answers in either order',
                       'non-release versions use the tree\'s ids/layouts']
    rng = run.rng('c10')
    ygg = yggdrasil.Stub()
    ygg.install()
    try:
        plan = []
        for pv in VERSIONS:
            for order in scripts_for(pv, thorough, rng):
                plan.append((pv, order))
        if not thorough:
            rng.shuffle(plan)
            # keep every version and every distinct order at least once
            seen_orders, keep = set(), []
            for pv, order in plan:
                if order not in seen_orders or rng.random() < 0.25:
                    seen_orders.add(order)
                    keep.append((pv, order))
            plan = keep
        i = 0
        for pv, order in plan:
            terminals = [('success',)] + ([DISCONNECTS[(i + j) % len(
                DISCONNECTS)] for j in range(5 if thorough else 1)])
            # ... and one whose text names the very version the client is
            # using (a server that keeps a patch release apart: "Outdated
            # client! Please use 1.16.5" to a 1.16.4 client with the same
            # protocol number): reported like any other
            import minecraft as _mc
            own_names = [n_ for n_, p_ in
                         _mc.RELEASE_MINECRAFT_VERSIONS.items() if p_ == pv]
            if own_names and (i // max(1, len(terminals))) % 2 == 0:
                who = ('client! Please use', 'server! I\'m still on')[i % 2]
                nm_ = own_names[i % len(own_names)]
                terminals.append((
                    'outdated-own-version',
                    '{"text":"Outdated %s %s"}' % (who, nm_),
                    'VersionMismatch', nm_))
                run.count('logins.outdated_naming_own_version')
            for terminal in terminals:
                i += 1
                if not run.mine(i):
                    continue
                threshold = rng.choice((0, 1, 64, 256, 2 ** 31 - 1))
                server_id = rng.choice(('-', '', 'srv%04x' %
                                        rng.getrandbits(16), 'é',
                                        # ids are hashed exactly as sent, also
                                        # with blanks at either end; only the
                                        # one-character id '-' means offline
                                        ' lead', 'trail ', '\t-', '- ',
                                        '\xa0x\n', '--', '-x'))
                auth = rng.random() < 0.5
                user_handler = any(s[0] == 'P' for s in order) and \
                    rng.random() < 0.3
                err = None
                for attempt in range(3):
                    err = run_login(run, rng, pv, order, threshold, terminal,
                                    server_id, auth, user_handler, ygg)
                    if err is None:
                        break
                run.case((pv, order, threshold, terminal[0], server_id, auth,
                          user_handler))
                run.seen('orders', repr(order))
                run.seen('versions', pv)
                if err:
                    run.inconclusive_because('login %r@%d: %s'
                                             % (order, pv, err))
                elif len(run.samples) < 3:
                    run.sample({'pv': pv, 'order': order,
                                'terminal': terminal[0],
                                'threshold': threshold})
    finally:
        ygg.uninstall()
        ygg.stop()
    run.require('logins', 30)
    run.require('successes', 10)
    run.require('disconnects', 10)
    run.require('encryptions', 10)
    run.require('plugin_requests', 10)
    run.require('logins.plugin_and_encryption_request_in_one_segment', 3)
    run.require('logins.slow_encryption_request_listener', 3)
    run.require('logins.state_transitions_in_one_segment', 10)
    run.require('plugin_answers_queued_during_encryption_reply', 3)
    run.require('orders', 20)
