"""C13 - listeners fire in documented order, once each; ignore stops later stages.

Generated listener configurations (0-5 listeners in each of the four lists,
type filters from a class hierarchy, a random subset raising IgnorePacket,
registered by method or decorator) on a real Connection driven by the
independent server through login (plugin requests, compression) and play
(keep-alives, chat, unknown ids) while the client sends queued and forced
packets.  One event log records listener calls, the built-in reaction (class-
level wrapper that calls the original) and every socket send attributed to the
packet being written; a reference dispatcher predicts the per-packet call
sequence; the server's view of the wire decides suppression.
"""
import sys

from ..probes import client as pc
from ..server import mcserver, scripts
from ..server.codec import codec_for

SHARDS = {'quick': 8, 'thorough': 16}


def current_outgoing_packet():
    f = sys._getframe(2)
    while f is not None:
        if f.f_code.co_name == '_write_packet' and 'packet' in f.f_locals:
            return f.f_locals['packet']
        f = f.f_back
    return None


def scenario(run, rng, pv, idx):
    from minecraft.exceptions import IgnorePacket
    from minecraft.networking import connection as C
    from minecraft.networking.packets import (Packet, AbstractKeepAlivePacket,
                                              clientbound, serverbound)
    codec = codec_for(pv)
    cb, sb = clientbound, serverbound
    in_types = [Packet, AbstractKeepAlivePacket, cb.play.KeepAlivePacket,
                cb.play.ChatMessagePacket, cb.login.PluginRequestPacket,
                cb.login.SetCompressionPacket, cb.login.LoginSuccessPacket,
                cb.play.TimeUpdatePacket, cb.play.DisconnectPacket,
                sb.play.ChatPacket]          # the last never matches incoming

    class MyChat(sb.play.ChatPacket):       # user subclass, matched via base
        pass
    out_types = [Packet, AbstractKeepAlivePacket, sb.play.KeepAlivePacket,
                 sb.play.ChatPacket, MyChat, sb.login.PluginResponsePacket,
                 sb.handshake.HandShakePacket, sb.login.LoginStartPacket,
                 cb.play.ChatMessagePacket]  # the last never matches outgoing
    safe_in_ignore = ('KeepAlivePacket', 'ChatMessagePacket', 'Packet',
                      'PluginRequestPacket', 'TimeUpdatePacket')
    log = pc.EventLog()
    rec = pc.Recorder(log)
    packets_alive = []             # keep objects alive so ids stay unique

    def note(kind, packet, direction, **kw):
        packets_alive.append(packet)
        log.emit(kind, pkt=id(packet), cls=type(packet).__name__,
                 dir=direction, **kw)

    # ---- configuration -----------------------------------------------------
    config = {'early_in': [], 'in': [], 'early_out': [], 'out': []}
    plugins = pv >= 385

    def make_listener(lid, lst_name, types, ignore_for):
        direction = 'out' if lst_name in ('early_out', 'out') else 'in'

        def callback(packet):
            note('cb.listener', packet, direction, lid=lid)
            if type(packet).__name__ in ignore_for:
                raise IgnorePacket
        return callback

    conn = None
    state = {'frames': []}
    n_ka = rng.randrange(1, 6)
    n_chat_in = rng.randrange(0, 3)
    n_unknown = rng.randrange(0, 3)
    n_plugin = rng.randrange(0, 3) if plugins else 0
    use_compression = rng.random() < 0.4
    ctx = C.ConnectionContext(protocol_version=pv)
    known = {k.get_id(ctx) for k in cb.play.get_packets(ctx)}
    unknown_id = next(i for i in (0x7E, 0x7D, 0x6B, 0x69) if i not in known)
    play_hist = ['ka'] * n_ka + ['chat'] * n_chat_in + ['unknown'] * n_unknown
    rng.shuffle(play_hist)
    incoming_expected = []       # (class name, key) in arrival order

    def handler(io):
        hs = scripts.read_handshake(io)
        io.recv_frame()                                   # login start
        for i in range(n_plugin):
            qid, qp = codec.encode('plugin_request', {
                'message_id': 100 + i, 'channel': 'vf:x', 'data': b''})
            io.send_frame(qid, qp)
        # collect the plugin answers while still in the login state (ids of
        # login and play packets overlap, so they must not be mixed)
        got = 0
        while got < state.get('plugin_answers_expected', 0):
            fr = io.recv_frame()
            if fr is None:
                return
            state['frames'].append(('login', fr))
            got += 1
        if use_compression:
            cid, cp = codec.encode('set_compression', {'threshold': 10 ** 6})
            io.send_frame(cid, cp)
            io.enable_compression(10 ** 6)
        scripts.send_login_success(io, pv, codec)
        k = 0
        for kind in play_hist:
            if kind == 'ka':
                k += 1
                cid, cp = codec.encode('cb_keep_alive', {'id': 1000 + k})
            elif kind == 'chat':
                cid, cp = codec.encode('cb_chat', {
                    'json': '{"text":"in"}', 'position': 0,
                    'sender': '00000000-0000-0000-0000-000000000001'})
            else:
                cid, cp = unknown_id, b'\x01\x02\x03'
            io.send_frame(cid, cp)
        # let the client talk, then end the conversation
        state['go'].wait(10.0)
        did, dp = codec.encode('play_disconnect', {'reason': '"end"'})
        io.send_frame(did, dp)
        io.half_close()
        for fr in io.drain(6.0):
            state['frames'].append(('any', fr))

    import threading
    state['go'] = threading.Event()
    server = mcserver.Server(handler)
    orig_login_react = C.LoginReactor.react
    orig_play_react = C.PlayingReactor.react

    def wrap(orig):
        def react(self, packet):
            note('cb.reaction', packet, 'in')
            return orig(self, packet)
        return react
    C.LoginReactor.react = wrap(orig_login_react)
    C.PlayingReactor.react = wrap(orig_play_react)
    w = {'pv': pv, 'scenario': idx}
    try:
        conn = pc.make_connection(server.port, rec, early_listener=False,
                                  allowed_versions={pv})
        def send_hook(kind, proxy, data):
            if kind != 'send':
                return
            p = current_outgoing_packet()
            if p is None:
                state['unattributed'] = state.get('unattributed', 0) + 1
                return
            packets_alive.append(p)
            log.emit('io.send.pkt', pkt=id(p), cls=type(p).__name__,
                     dir='out', n=len(data))
        conn.vf_send_hook = send_hook
        lid = 0
        for lst_name, early, outgoing, pool in (
                ('early_in', True, False, in_types),
                ('in', False, False, in_types),
                ('early_out', True, True, out_types),
                ('out', False, True, out_types)):
            for _ in range(rng.randrange(0, 6)):
                lid += 1
                types = tuple(rng.sample(pool, rng.choice((1, 1, 2, 3))))
                if rng.random() < 0.1:
                    types = ()
                ig_pool = safe_in_ignore if not outgoing else \
                    ('ChatPacket', 'MyChat', 'KeepAlivePacket')
                ignore_for = tuple(n for n in ig_pool if rng.random() < 0.25)
                if lst_name == 'early_in' or outgoing:
                    pass
                cbk = make_listener(lid, lst_name, types, ignore_for)
                kw = {}
                if early:
                    kw['early'] = True
                if outgoing:
                    kw['outgoing'] = True
                if rng.random() < 0.5:
                    conn.register_packet_listener(cbk, *types, **kw)
                else:
                    conn.listener(*types, **kw)(cbk)
                config[lst_name].append((lid, types, ignore_for))
        w['config'] = {k: [(l, [t.__name__ for t in ts], list(ig))
                           for l, ts, ig in v] for k, v in config.items()}

        def matches(types, cls):
            return any(issubclass(cls, t) for t in types)

        def predict_in(cls):
            name = cls.__name__
            seq = []
            for l, ts, ig in config['early_in']:
                if matches(ts, cls):
                    seq.append(l)
                    if name in ig:
                        return seq, False
            seq.append('react')
            for l, ts, ig in config['in']:
                if matches(ts, cls):
                    seq.append(l)
                    if name in ig:
                        break
            return seq, True

        def predict_out(cls):
            name = cls.__name__
            seq = []
            for l, ts, ig in config['early_out']:
                if matches(ts, cls):
                    seq.append(l)
                    if name in ig:
                        return seq, False
            seq.append('send')
            for l, ts, ig in config['out']:
                if matches(ts, cls):
                    seq.append(l)
                    if name in ig:
                        break
            return seq, True
        # how many plugin answers will actually be written
        answered = predict_in(cb.login.PluginRequestPacket)[1]
        answer_written = predict_out(sb.login.PluginResponsePacket)[1]
        state['plugin_answers_expected'] = n_plugin if (
            answered and answer_written) else 0
        conn.connect()
        if not pc.wait_for(lambda: isinstance(conn.reactor, C.PlayingReactor)
                           or rec.exceptions, 10.0):
            return 'never reached play state'
        # outgoing traffic from the user thread
        sent_out = []
        for j in range(rng.randrange(1, 5)):
            K = rng.choice((sb.play.ChatPacket, MyChat))
            p = K(message='out-%d-%d' % (idx, j))
            force = rng.random() < 0.5
            sent_out.append((p, force))
            packets_alive.append(p)
            try:
                conn.write_packet(p, force=force)
            except BaseException as e:
                run.violation('listeners/write_packet-raised:%s'
                              % type(e).__name__, 'write_packet() raised to '
                              'its caller (an outgoing listener\'s ignore must'
                              ' only suppress that packet)',
                              dict(w, force=force, error=repr(e)))
                return None
        # wait until everything queued has been processed
        pc.wait_for(lambda: not conn._outgoing_packet_queue, 5.0)
        n_in_total = n_plugin + (1 if use_compression else 0) + 1 + \
            len(play_hist)
        import time
        time.sleep(0.03)
        state['go'].set()
        if not pc.wait_idle(conn, 20.0):
            return 'threads alive: ' + pc.dump_threads()
        server.join(10.0)
        if [e for e in server.errors if e[1] == 'frame']:
            run.violation('listeners/malformed-client-bytes', 'the client sent '
                          'bytes the independent server cannot parse as the '
                          'expected frame', dict(w, error=[e for e in
                                                 server.errors if e[1] ==
                                                 'frame'][0][2]))
            return None
        if [e for e in server.errors if e[1] == 'script']:
            return 'server script error %r' % (server.errors[:1],)
        if rec.exceptions:
            run.violation('listeners/error', 'an error was reported in a '
                          'scenario without faults', dict(
                              w, exc=repr(rec.exceptions[0])))
            return None
        run.count('scenarios')
        # ---- per-packet call sequences ------------------------------------
        per_pkt, order = {}, []
        for seq, role, kind, pl in log.events:
            if kind not in ('cb.listener', 'cb.reaction', 'io.send.pkt'):
                continue
            key = pl['pkt']
            if key not in per_pkt:
                per_pkt[key] = {'cls': pl['cls'], 'calls': [],
                                'dir': pl['dir']}
                order.append(key)
            tag = pl['lid'] if kind == 'cb.listener' else \
                'react' if kind == 'cb.reaction' else 'send'
            calls = per_pkt[key]['calls']
            if tag == 'send' and calls and calls[-1] == 'send':
                continue                       # a frame = 2 sends
            calls.append(tag)
        if state.get('unattributed'):
            return '%d socket sends could not be attributed to a packet' \
                % state['unattributed']
        in_cls = {c.__name__: c for c in (
            Packet, cb.play.KeepAlivePacket, cb.play.ChatMessagePacket,
            cb.login.PluginRequestPacket, cb.login.SetCompressionPacket,
            cb.login.LoginSuccessPacket, cb.play.TimeUpdatePacket,
            cb.play.DisconnectPacket)}
        out_cls = {c.__name__: c for c in (
            sb.play.KeepAlivePacket, sb.play.ChatPacket, MyChat,
            sb.login.PluginResponsePacket, sb.handshake.HandShakePacket,
            sb.login.LoginStartPacket)}
        n_checked = 0
        for key in order:
            entry = per_pkt[key]
            name, calls = entry['cls'], entry['calls']
            outgoing = entry['dir'] == 'out'
            K = (out_cls if outgoing else in_cls).get(name)
            if K is None:
                run.count('packets_of_unmodelled_class')
                continue
            exp, _full = (predict_out if outgoing else predict_in)(K)
            n_checked += 1
            run.count('packets_dispatched')
            run.count('dispatched.' + ('out' if outgoing else 'in'))
            if calls != exp:
                run.violation(
                    'listeners/%s-sequence' % ('outgoing' if outgoing
                                               else 'incoming'),
                    'call sequence for a packet differs from the documented '
                    'order (early, reaction/write, ordinary; registration '
                    'order; once each; ignore cuts off later stages)',
                    dict(w, packet=name, got=calls, expected=exp))
                return None
        # every incoming packet must have been dispatched at all (reaction or
        # a listener) unless nothing was predicted for it
        # ---- wire: suppression ------------------------------------------------
        ka_echo = predict_in(cb.play.KeepAlivePacket)[1] and \
            predict_out(sb.play.KeepAlivePacket)[1]
        want_ka = [1000 + i + 1 for i in range(n_ka)] if ka_echo else []
        got_ka, got_chat, got_plugin = [], [], []
        stray = []
        for st, fr in state['frames']:
            try:
                nm, vals = codec.decode('login' if st == 'login' else 'play',
                                        fr[0], fr[1])
            except Exception as e:
                nm, vals = 'undecodable', {'id': fr[0], 'error': repr(e)}
            if nm == 'sb_keep_alive':
                got_ka.append(vals['id'])
            elif nm == 'sb_chat':
                got_chat.append(vals['message'])
            elif nm == 'plugin_response':
                got_plugin.append(vals['message_id'])
            else:
                stray.append((nm, fr[0]))
        if stray:
            run.violation('listeners/stray-frame', 'a frame reached the wire '
                          'that the configuration does not predict',
                          dict(w, stray=stray[:3]))
        if got_ka != want_ka:
            run.violation('listeners/keepalive-wire', 'keep-alive echoes on '
                          'the wire disagree with the listener configuration '
                          '(early ignore suppresses the reaction / the write)',
                          dict(w, got=got_ka, expected=want_ka))
        want_chat = [p.message for p, _f in sent_out
                     if predict_out(type(p))[1]]
        if sorted(got_chat) != sorted(want_chat):
            run.violation('listeners/outgoing-suppression', 'an early outgoing'
                          ' ignore must keep the packet off the wire (and only'
                          ' that)', dict(w, got=got_chat, expected=want_chat))
        want_plugin = [100 + i for i in range(n_plugin)] \
            if state['plugin_answers_expected'] else []
        if sorted(got_plugin) != want_plugin:
            run.violation('listeners/plugin-wire', 'plugin answers on the wire'
                          ' disagree with the listener configuration',
                          dict(w, got=got_plugin, expected=want_plugin))
        run.count('listener_calls', len(log.of('cb.listener')))
        run.count('reactions', len(log.of('cb.reaction')))
        if n_checked == 0:
            return 'no packet was attributed'
        return None
    finally:
        C.LoginReactor.react = orig_login_react
        C.PlayingReactor.react = orig_play_react
        state['go'].set()
        server.stop()
        if conn is not None:
            try:
                conn.disconnect(immediate=True)
            except Exception:
                pass


def run(run):
    thorough = run.tier == 'thorough'
    run.level = 'exploration'
    run.rule = ('listener configurations: 0-5 listeners in each of the four '
                'lists, 0-3 type filters each drawn from a hierarchy (Packet, '
                'abstract keep-alive, concrete classes, a user subclass, '
                'never-matching types, no types), each raising IgnorePacket for'
                ' a random subset of packet kinds, registered by method or '
                'decorator; histories: 0-2 login plugin requests, optional '
                'set-compression, login success, shuffled keep-alives/chat/'
                'unknown ids, 1-4 outgoing chat packets queued or forced. '
                'Distinct = (configuration, history).')
    run.assumptions = ['the built-in reaction is located by a class-level '
                       'wrapper around LoginReactor/PlayingReactor.react that '
                       'calls the original', 'socket sends are attributed to a'
                       ' packet by finding _write_packet\'s frame on the '
                       'stack; zero attributions = inconclusive',
                       'early ignores are generated only for packets whose '
                       'reaction may be skipped without breaking the session']
    rng = run.rng('c13')
    n = 5000 if thorough else 320
    for i in range(n):
        if not run.mine(i):
            continue
        pv = rng.choice((757, 757, 404, 340, 578, 47, 736))
        err = None
        for attempt in range(3):
            err = scenario(run, rng, pv, i)
            if err is None:
                break
        run.case(('cfg', i, pv))
        if err:
            run.inconclusive_because('scenario %d: %s' % (i, err))
    run.require('scenarios', 10)
    run.require('packets_dispatched', 100)
    run.require('listener_calls', 50)
    run.require('reactions', 50)
    run.require('dispatched.out', 30)
    run.require('dispatched.in', 30)
