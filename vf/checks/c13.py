"""C13 - listeners fire in documented order, once each; ignore stops later stages.

Generated listener configurations (0-5 listeners in each of the four lists,
type filters from a class hierarchy, a random subset raising IgnorePacket,
registered by method or decorator) on a real Connection driven by the
independent server through login (plugin requests, compression) and play
(keep-alives, chat, unknown ids) while the client sends queued and forced
packets.  One event log records listener calls, the built-in reaction (class-
level wrapper that calls the original) and every socket send attributed to the
packet being written; a reference dispatcher predicts the per-packet call
sequence; the server's view of the wire decides suppression.
"""
import sys

from ..probes import client as pc
from ..server import mcserver, scripts
from ..server.codec import codec_for

SHARDS = {'quick': 8, 'thorough': 16}


def current_outgoing_packet():
    f = sys._getframe(2)
    while f is not None:
        if f.f_code.co_name == '_write_packet' and 'packet' in f.f_locals:
            return f.f_locals['packet']
        f = f.f_back
    return None


def scenario(run, rng, pv, idx):
    from minecraft.exceptions import IgnorePacket
    from minecraft.networking import connection as C
    from minecraft.networking.packets import (Packet, AbstractKeepAlivePacket,
                                              clientbound, serverbound)
    codec = codec_for(pv)
    cb, sb = clientbound, serverbound
    in_types = [Packet, AbstractKeepAlivePacket, cb.play.KeepAlivePacket,
                cb.play.ChatMessagePacket, cb.login.PluginRequestPacket,
                cb.login.SetCompressionPacket, cb.login.LoginSuccessPacket,
                cb.play.TimeUpdatePacket, cb.play.DisconnectPacket,
                sb.play.ChatPacket]          # the last never matches incoming
    in_types += [cb.play.PlayerListItemPacket, cb.play.ExplosionPacket]
    combat = pv >= 755
    if combat:
        # from 21w07a on the combat event is three packets, each a subclass
        # of the (still listenable) CombatEventPacket
        in_types += [cb.play.CombatEventPacket, cb.play.EndCombatEventPacket,
                     cb.play.EnterCombatEventPacket]

    late_defined = {}

    class MyChat(sb.play.ChatPacket):       # user subclass, matched via base
        pass
    out_types = [Packet, AbstractKeepAlivePacket, sb.play.KeepAlivePacket,
                 sb.play.ChatPacket, MyChat, sb.login.PluginResponsePacket,
                 sb.handshake.HandShakePacket, sb.login.LoginStartPacket,
                 cb.play.ChatMessagePacket]  # the last never matches outgoing
    safe_in_ignore = ('KeepAlivePacket', 'ChatMessagePacket', 'Packet',
                      'PluginRequestPacket', 'TimeUpdatePacket')
    log = pc.EventLog()
    rec = pc.Recorder(log)
    packets_alive = []             # keep objects alive so ids stay unique

    def note(kind, packet, direction, **kw):
        packets_alive.append(packet)
        log.emit(kind, pkt=id(packet), cls=type(packet).__name__,
                 dir=direction, pid=getattr(packet, 'id', None), **kw)

    # ---- configuration -----------------------------------------------------
    config = {'early_in': [], 'in': [], 'early_out': [], 'out': []}
    plugins = pv >= 385

    relayed = []        # packets written from inside an outgoing listener
    callbacks = {}      # lid -> the callable registered under it

    def make_listener(lid, lst_name, types, ignore_for, relay=False):
        direction = 'out' if lst_name in ('early_out', 'out') else 'in'

        def callback(packet):
            note('cb.listener', packet, direction, lid=lid)
            if relay and isinstance(packet, sb.play.ChatPacket) and \
                    packet.message.startswith(('out-', 'late-')):
                # a listener that itself writes: the nested packet goes
                # through the whole listener chain like any other
                p2 = sb.play.ChatPacket(message='relay%d:%s' % (
                    lid, packet.message))
                relayed.append(p2)
                packets_alive.append(p2)
                conn.write_packet(p2, force=True)
            if type(packet).__name__ in ignore_for:
                raise IgnorePacket
        if not relay:
            callbacks[lid] = callback
        # what kind of callable the user registers: a function, a method of
        # an object nobody else refers to, a partial, an instance with
        # __call__ (one of them falsy).  All are called alike.
        kind = rng.choice(('function', 'function', 'bound-method', 'partial',
                           'callable-instance', 'falsy-callable-instance'))
        run.seen('listener_kinds', kind)
        if kind == 'bound-method':
            class Holder(object):
                def on_packet(self, packet):
                    return callback(packet)
            return Holder().on_packet
        if kind == 'partial':
            import functools
            return functools.partial(callback)
        if kind == 'callable-instance':
            class Handler(object):
                def __call__(self, packet):
                    return callback(packet)
            return Handler()
        if kind == 'falsy-callable-instance':
            class Collector(list):
                def __call__(self, packet):
                    return callback(packet)
            return Collector()
        return callback

    conn = None
    state = {'frames': []}
    n_ka = rng.randrange(1, 6)
    n_chat_in = rng.randrange(0, 3)
    n_unknown = rng.randrange(0, 3)
    n_plugin = rng.randrange(0, 3) if plugins else 0
    use_compression = rng.random() < 0.4
    ctx = C.ConnectionContext(protocol_version=pv)
    known = {k.get_id(ctx) for k in cb.play.get_packets(ctx)}
    unknown_id = next(i for i in (0x7E, 0x7D, 0x6B, 0x69) if i not in known)
    play_hist = ['ka'] * n_ka + ['chat'] * n_chat_in + ['unknown'] * n_unknown
    # known packets whose collections are empty (a player list update with no
    # actions, an explosion that destroys no blocks)
    play_hist += ['plist-empty'] * rng.randrange(0, 2) + \
        ['explosion-empty'] * rng.randrange(0, 2)
    if combat:
        play_hist += ['combat-end'] * rng.randrange(0, 3) + \
            ['combat-enter'] * rng.randrange(0, 2)
    rng.shuffle(play_hist)
    # phase 2: more listeners are registered *while the session is running*
    # (after packets of the same classes have already been dispatched), then a
    # second history follows; sentinel frames (an unknown id of their own) mark
    # the end of each phase so that the phase of every packet is unambiguous
    late = rng.random() < 0.6
    leaver = rng.random() < 0.3
    repeat_object = rng.random() < 0.3
    kicked = not leaver and not late and rng.random() < 0.4
    sentinel_id = next(i for i in (0x7B, 0x7A, 0x6A, 0x68)
                       if i not in known and i != unknown_id)
    n_ka2 = rng.randrange(1, 4)
    play_hist2 = ['ka'] * n_ka2 + ['chat'] * rng.randrange(0, 2) + \
        ['unknown'] * rng.randrange(0, 2)
    rng.shuffle(play_hist2)
    incoming_expected = []       # (class name, key) in arrival order

    def lib_frame(K, **fields):
        # (id, payload) as written by the library's own class: what is judged
        # is the dispatch of the packet, not its layout
        from minecraft.networking.packets import PacketBuffer
        from ..ref import framing as rframing
        buf = PacketBuffer()
        K(context=ctx, **fields).write(buf)
        fr = rframing.parse_stream(buf.get_writable(), compressed=False,
                                   threshold=None)[0][0]
        return fr[0], bytes(fr[1])

    def handler(io):
        hs = scripts.read_handshake(io)
        io.recv_frame()                                   # login start
        for i in range(n_plugin):
            qid, qp = codec.encode('plugin_request', {
                'message_id': 100 + i, 'channel': 'vf:x', 'data': b''})
            io.send_frame(qid, qp)
        # collect the plugin answers while still in the login state (ids of
        # login and play packets overlap, so they must not be mixed)
        got = 0
        while got < state.get('plugin_answers_expected', 0):
            fr = io.recv_frame()
            if fr is None:
                return
            state['frames'].append(('login', fr))
            got += 1
        if use_compression:
            cid, cp = codec.encode('set_compression', {'threshold': 10 ** 6})
            io.send_frame(cid, cp)
            io.enable_compression(10 ** 6)
        scripts.send_login_success(io, pv, codec)
        def play(hist, base):
            k = 0
            for kind in hist:
                if kind == 'ka':
                    k += 1
                    cid, cp = codec.encode('cb_keep_alive', {'id': base + k})
                elif kind == 'plist-empty':
                    cid, cp = lib_frame(cb.play.PlayerListItemPacket,
                                        action_type=cb.play.
                                        PlayerListItemPacket.AddPlayerAction,
                                        actions=[])
                elif kind == 'explosion-empty':
                    cid, cp = lib_frame(
                        cb.play.ExplosionPacket, x=1.0, y=2.0, z=3.0,
                        radius=4.0, records=[], player_motion_x=0.0,
                        player_motion_y=0.0, player_motion_z=0.0)
                elif kind == 'combat-end':
                    from ..ref import wiretypes as wt, varint as vi
                    cid, cp = 0x33, vi.encode(5) + wt.int_be(7, 4, True)
                elif kind == 'combat-enter':
                    cid, cp = 0x34, b''
                elif kind == 'chat':
                    cid, cp = codec.encode('cb_chat', {
                        'json': '{"text":"in"}', 'position': 0,
                        'sender': '00000000-0000-0000-0000-000000000001'})
                else:
                    cid, cp = unknown_id, b'\x01\x02\x03'
                io.send_frame(cid, cp)
        play(play_hist, 1000)
        io.send_frame(sentinel_id, b'S1')
        if late:
            state['phase2'].wait(10.0)
            play(play_hist2, 2000)
            io.send_frame(sentinel_id, b'S2')
        # let the client talk, then end the conversation
        state['go'].wait(10.0)
        if state.get('kick_active'):
            # the server kicks the client while the client is in the middle
            # of a write: a few more packets, the disconnect packet, close.
            # Whatever was received must still go through the listener chain.
            buf = bytearray()
            for v in (3001, 3002):
                buf += io.encode_frame(*codec.encode('cb_keep_alive',
                                                     {'id': v}))
            buf += io.encode_frame(unknown_id, b'last words')
            buf += io.encode_frame(*codec.encode('play_disconnect',
                                                 {'reason': '"kick"'}))
            state['held'].wait(5.0)
            # (what the client has written so far is collected first)
            try:
                while True:
                    fr = io.recv_frame(0.25)
                    if fr is None:
                        break
                    state['frames'].append(('any', fr))
            except mcserver.ScriptTimeout:
                pass
            io.send_raw(bytes(buf))
            io.close()
            state['closed'].set()
            return
        if state.get('leaver_active'):
            # the *client* ends this conversation: an early listener calls
            # disconnect() when it sees this keep-alive - without raising
            # IgnorePacket, so the later stages still run for the packet
            cid, cp = codec.encode('cb_keep_alive', {'id': 9999})
            io.send_frame(cid, cp)
        else:
            did, dp = codec.encode('play_disconnect', {'reason': '"end"'})
            io.send_frame(did, dp)
        io.half_close()
        for fr in io.drain(6.0):
            state['frames'].append(('any', fr))

    import threading
    state['go'] = threading.Event()
    state['held'] = threading.Event()
    state['closed'] = threading.Event()
    state['phase2'] = threading.Event()
    server = mcserver.Server(handler)
    orig_login_react = C.LoginReactor.react
    orig_play_react = C.PlayingReactor.react

    def wrap(orig):
        def react(self, packet):
            note('cb.reaction', packet, 'in')
            return orig(self, packet)
        return react
    C.LoginReactor.react = wrap(orig_login_react)
    C.PlayingReactor.react = wrap(orig_play_react)
    w = {'pv': pv, 'scenario': idx}
    try:
        conn = pc.make_connection(server.port, rec, early_listener=False,
                                  allowed_versions={pv})
        def send_hook(kind, proxy, data):
            if kind != 'send':
                return
            p = current_outgoing_packet()
            if p is None:
                state['unattributed'] = state.get('unattributed', 0) + 1
                return
            packets_alive.append(p)
            log.emit('io.send.pkt', pkt=id(p), cls=type(p).__name__,
                     dir='out', n=len(data))
        conn.vf_send_hook = send_hook
        lid_counter = [0]
        relays = []

        def register_batch(max_per_list):
            for lst_name, early, outgoing, pool in (
                    ('early_in', True, False, in_types),
                    ('in', False, False, in_types),
                    ('early_out', True, True, out_types),
                    ('out', False, True, out_types)):
                for _ in range(rng.randrange(0, max_per_list)):
                    lid_counter[0] += 1
                    lid = lid_counter[0]
                    types = tuple(rng.sample(pool, rng.choice((1, 1, 2, 3))))
                    if rng.random() < 0.1:
                        types = ()
                    ig_pool = safe_in_ignore if not outgoing else \
                        ('ChatPacket', 'MyChat', 'KeepAlivePacket')
                    ignore_for = tuple(n for n in ig_pool
                                       if rng.random() < 0.25)
                    cbk = make_listener(lid, lst_name, types, ignore_for)
                    kw = {}
                    if early:
                        kw['early'] = True
                    if outgoing:
                        kw['outgoing'] = True
                    how = rng.random()
                    if how < 0.4:
                        conn.register_packet_listener(cbk, *types, **kw)
                    elif how < 0.8:
                        conn.listener(*types, **kw)(cbk)
                    else:
                        # one decorator object applied to two functions: both
                        # are registered with its types and flags
                        dec = conn.listener(*types, **kw)
                        dec(cbk)
                        config[lst_name].append((lid, types, ignore_for))
                        lid_counter[0] += 1
                        lid = lid_counter[0]
                        cbk = make_listener(lid, lst_name, types, ignore_for)
                        dec(cbk)
                        run.count('decorators_applied_twice')
                    config[lst_name].append((lid, types, ignore_for))
                    # the same callable registered again later in the same
                    # list, for other types: an entry of its own at its own
                    # place in the order
                    if rng.random() < 0.15 and config[lst_name]:
                        again = rng.choice(config[lst_name])
                        types2 = tuple(rng.sample(pool, rng.choice((1, 2))))
                        fn = callbacks.get(again[0])
                        if fn is not None:
                            conn.register_packet_listener(fn, *types2, **kw)
                            config[lst_name].append((again[0], types2,
                                                     again[2]))
                            run.count('callables_registered_twice')
            if rng.random() < 0.35:
                lst_name = rng.choice(('early_out', 'out'))
                lid_counter[0] += 1
                lid = lid_counter[0]
                types = rng.choice(((Packet,), (sb.play.ChatPacket,),
                                    (sb.play.ChatPacket, MyChat)))
                cbk = make_listener(lid, lst_name, types, (), relay=True)
                conn.register_packet_listener(
                    cbk, *types, outgoing=True, early=lst_name == 'early_out')
                config[lst_name].append((lid, types, ()))
                relays.append((lid, lst_name))
        register_batch(6)
        __import__('gc').collect()
        if repeat_object:
            # a catch-all listener at the very end of the chain separates the
            # writes of a repeatedly written object in the log
            lid_counter[0] += 1
            tail_lid = lid_counter[0]
            conn.register_packet_listener(
                make_listener(tail_lid, 'out', (Packet,), ()), Packet,
                outgoing=True)
            config['out'].append((tail_lid, (Packet,), ()))
        if leaver:
            lid_counter[0] += 1
            leaver_lid = lid_counter[0]

            def leave(packet):
                note('cb.listener', packet, 'in', lid=leaver_lid)
                if packet.keep_alive_id == 9999:
                    conn.disconnect()
            conn.register_packet_listener(leave, cb.play.KeepAlivePacket,
                                          early=True)
            config['early_in'].append((leaver_lid, (cb.play.KeepAlivePacket,),
                                       ()))
        w['config'] = {k: [(l, [t.__name__ for t in ts], list(ig))
                           for l, ts, ig in v] for k, v in config.items()}

        def matches(types, cls):
            return any(issubclass(cls, t) for t in types)

        def predict_in(cls, config=config):
            name = cls.__name__
            seq = []
            for l, ts, ig in config['early_in']:
                if matches(ts, cls):
                    seq.append(l)
                    if name in ig:
                        return seq, False
            seq.append('react')
            for l, ts, ig in config['in']:
                if matches(ts, cls):
                    seq.append(l)
                    if name in ig:
                        break
            return seq, True

        def predict_out(cls, config=config):
            name = cls.__name__
            seq = []
            for l, ts, ig in config['early_out']:
                if matches(ts, cls):
                    seq.append(l)
                    if name in ig:
                        return seq, False
            seq.append('send')
            for l, ts, ig in config['out']:
                if matches(ts, cls):
                    seq.append(l)
                    if name in ig:
                        break
            return seq, True
        # how many plugin answers will actually be written
        # (an earlier early listener that ignores keep-alives, or one that is
        # registered later and does, keeps the packet from the leaver)
        state['leaver_active'] = leaver and not late and leaver_lid in \
            predict_in(cb.play.KeepAlivePacket)[0]
        answered = predict_in(cb.login.PluginRequestPacket)[1]
        answer_written = predict_out(sb.login.PluginResponsePacket)[1]
        state['plugin_answers_expected'] = n_plugin if (
            answered and answer_written) else 0
        conn.connect()
        if not pc.wait_for(lambda: isinstance(conn.reactor, C.PlayingReactor)
                           or rec.exceptions, 10.0):
            return 'never reached play state'
        # outgoing traffic from the user thread
        sent_out = []
        repeated = {}
        plan_out = [None] * rng.randrange(1, 5)
        if repeat_object:
            # the same packet *object* is written several times (a program
            # that updates and re-sends one packet per tick)
            pr = sb.play.ChatPacket(message='out-%d-again' % idx)
            plan_out += [pr, pr, pr]
            rng.shuffle(plan_out)
            repeated[id(pr)] = 3
            run.count('scenarios_writing_one_object_repeatedly')
        # a subclass the program defines only now, *after* the listeners have
        # been registered: matched through its base class like any other
        class LateChat(MyChat):
            pass
        late_defined['cls'] = LateChat
        for j, given in enumerate(plan_out):
            K = rng.choice((sb.play.ChatPacket, MyChat, LateChat))
            p = given if given is not None else \
                K(message='out-%d-%d' % (idx, j))
            force = rng.random() < 0.5
            sent_out.append((p, force))
            packets_alive.append(p)
            try:
                conn.write_packet(p, force=force)
            except BaseException as e:
                run.violation('listeners/write_packet-raised:%s'
                              % type(e).__name__, 'write_packet() raised to '
                              'its caller (an outgoing listener\'s ignore must'
                              ' only suppress that packet)',
                              dict(w, force=force, error=repr(e)))
                return None
        import time

        def sentinel_seen(n):
            seen = {pl['pkt'] for _s, _r, kind, pl in log.events
                    if pl.get('pid') == sentinel_id and pl.get('cls') ==
                    'Packet' and pl.get('dir') == 'in'}
            return len(seen) >= n

        def settle(n):
            # the networking thread handles packets one after the other: once
            # the phase's sentinel has been dispatched, so has everything
            # before it; then let it drain its write queue
            if not pc.wait_for(lambda: sentinel_seen(n), 10.0):
                return False
            pc.wait_for(lambda: not conn._outgoing_packet_queue, 5.0)
            time.sleep(0.02)
            return True
        if not settle(1):
            return 'phase 1 never completed (%r)' % (rec.exceptions[:1],)
        config1 = {k: list(v) for k, v in config.items()}
        marker = None
        kick_marker = None
        sent_out2 = []
        if late:
            register_batch(4)
            __import__('gc').collect()
            marker = log.emit('marker.phase2')
            w['late_config'] = {k: [(l, [t.__name__ for t in ts], list(ig))
                                    for l, ts, ig in v[len(config1[k]):]]
                                for k, v in config.items()}
            state['phase2'].set()
            for j in range(rng.randrange(1, 4)):
                K = rng.choice((sb.play.ChatPacket, MyChat,
                                late_defined['cls']))
                p = K(message='late-%d-%d' % (idx, j))
                force = rng.random() < 0.5
                sent_out2.append((p, force))
                packets_alive.append(p)
                try:
                    conn.write_packet(p, force=force)
                except BaseException as e:
                    run.violation('listeners/write_packet-raised:%s'
                                  % type(e).__name__, 'write_packet() raised '
                                  'to its caller', dict(w, error=repr(e)))
                    return None
            if not settle(2):
                return 'phase 2 never completed (%r)' % (rec.exceptions[:1],)
            run.count('scenarios_with_late_registration')
        if kicked:
            # a queued write whose early listener holds the networking thread
            # until the server has sent its last packets and closed
            def hold(packet):
                note('cb.listener', packet, 'out', lid=hold_lid)
                if packet.message == 'held-%d' % idx:
                    state['held'].set()
                    state['closed'].wait(5.0)
                    time.sleep(0.03)
            lid_counter[0] += 1
            hold_lid = lid_counter[0]
            conn.register_packet_listener(hold, sb.play.ChatPacket,
                                          outgoing=True, early=True)
            config['early_out'].append((hold_lid, (sb.play.ChatPacket,), ()))
            marker = log.emit('marker.kick')
            # (an earlier early listener that ignores chat packets keeps the
            # packet from the holding one: ordinary ending then)
            if hold_lid in predict_out(sb.play.ChatPacket)[0]:
                kick_marker = marker
                state['kick_active'] = True
                run.count('scenarios_kicked_while_writing')
                held_packet = sb.play.ChatPacket(message='held-%d' % idx)
                packets_alive.append(held_packet)
                conn.write_packet(held_packet)
        state['go'].set()
        if not pc.wait_idle(conn, 20.0):
            return 'threads alive: ' + pc.dump_threads()
        server.join(10.0)
        if [e for e in server.errors if e[1] == 'frame']:
            run.violation('listeners/malformed-client-bytes', 'the client sent '
                          'bytes the independent server cannot parse as the '
                          'expected frame', dict(w, error=[e for e in
                                                 server.errors if e[1] ==
                                                 'frame'][0][2]))
            return None
        if [e for e in server.errors if e[1] == 'script']:
            return 'server script error %r' % (server.errors[:1],)
        if rec.exceptions:
            run.violation('listeners/error', 'an error was reported in a '
                          'scenario without faults', dict(
                              w, exc=repr(rec.exceptions[0])))
            return None
        run.count('scenarios')
        # ---- per-packet call sequences ------------------------------------
        per_pkt, order = {}, []
        for seq, role, kind, pl in log.events:
            if kind not in ('cb.listener', 'cb.reaction', 'io.send.pkt'):
                continue
            key = pl['pkt']
            if key not in per_pkt:
                per_pkt[key] = {'cls': pl['cls'], 'calls': [],
                                'dir': pl['dir'], 'first': seq}
                order.append(key)
            tag = pl['lid'] if kind == 'cb.listener' else \
                'react' if kind == 'cb.reaction' else 'send'
            calls = per_pkt[key]['calls']
            if tag == 'send' and calls and calls[-1] == 'send':
                continue                       # a frame = 2 sends
            calls.append(tag)
        if state.get('unattributed'):
            return '%d socket sends could not be attributed to a packet' \
                % state['unattributed']
        in_cls = {c.__name__: c for c in (
            Packet, cb.play.KeepAlivePacket, cb.play.ChatMessagePacket,
            cb.login.PluginRequestPacket, cb.login.SetCompressionPacket,
            cb.login.LoginSuccessPacket, cb.play.TimeUpdatePacket,
            cb.play.DisconnectPacket, cb.play.EndCombatEventPacket,
            cb.play.EnterCombatEventPacket, cb.play.PlayerListItemPacket,
            cb.play.ExplosionPacket)}
        out_cls = {c.__name__: c for c in (
            sb.play.KeepAlivePacket, sb.play.ChatPacket, MyChat,
            late_defined.get('cls', MyChat),
            sb.login.PluginResponsePacket, sb.handshake.HandShakePacket,
            sb.login.LoginStartPacket)}
        n_checked = 0
        for key in order:
            entry = per_pkt[key]
            name, calls = entry['cls'], entry['calls']
            outgoing = entry['dir'] == 'out'
            K = (out_cls if outgoing else in_cls).get(name)
            if K is None:
                run.count('packets_of_unmodelled_class')
                continue
            cfg_now = config if (marker is not None and
                                 entry['first'] > marker) else config1
            exp, _full = (predict_out if outgoing else predict_in)(K, cfg_now)
            exp = exp * repeated.get(key, 1)
            n_checked += 1
            run.count('packets_dispatched')
            run.count('dispatched.' + ('out' if outgoing else 'in'))
            if outgoing and kick_marker is not None and \
                    entry['first'] > kick_marker and 'send' in exp and \
                    calls == exp[:exp.index('send') + 1]:
                # written to a peer that had already gone: the write itself
                # failed, so the stages after it did not take place
                run.count('writes_to_a_peer_that_had_gone')
                continue
            if calls != exp:
                run.violation(
                    'listeners/%s-sequence' % ('outgoing' if outgoing
                                               else 'incoming'),
                    'call sequence for a packet differs from the documented '
                    'order (early, reaction/write, ordinary; registration '
                    'order; once each; ignore cuts off later stages)',
                    dict(w, packet=name, got=calls, expected=exp,
                         after_late_registration=cfg_now is config))
                return None
        # every incoming packet must have been dispatched at all: the built-in
        # reaction wrapper sees every packet that is not ignored early
        kind_cls = {'ka': 'KeepAlivePacket', 'chat': 'ChatMessagePacket',
                    'unknown': 'Packet', 'plist-empty': 'PlayerListItemPacket',
                    'explosion-empty': 'ExplosionPacket',
                    'combat-end': 'EndCombatEventPacket',
                    'combat-enter': 'EnterCombatEventPacket'}
        sent_by_cls = {}
        for k_ in play_hist + (play_hist2 if late else []):
            c_ = kind_cls[k_]
            sent_by_cls[c_] = sent_by_cls.get(c_, 0) + 1
        sent_by_cls['Packet'] = sent_by_cls.get('Packet', 0) + (2 if late
                                                                else 1)
        if state.get('kick_active'):
            sent_by_cls['KeepAlivePacket'] = sent_by_cls.get(
                'KeepAlivePacket', 0) + 2
            sent_by_cls['Packet'] = sent_by_cls.get('Packet', 0) + 1
            sent_by_cls['DisconnectPacket'] = 1
        if state.get('leaver_active'):
            run.count('scenarios_where_an_early_listener_disconnects')
            sent_by_cls['KeepAlivePacket'] = sent_by_cls.get(
                'KeepAlivePacket', 0) + 1
        seen_by_cls = {}
        for key in order:
            e_ = per_pkt[key]
            if e_['dir'] == 'in':
                seen_by_cls[e_['cls']] = seen_by_cls.get(e_['cls'], 0) + 1
        for c_, n_ in sorted(sent_by_cls.items()):
            K_ = in_cls.get(c_)
            if K_ is None:
                continue
            # a packet leaves a trace unless no listener matches it *and* ...
            # no: the reaction wrapper logs every packet not ignored early, and
            # an early ignore is itself a logged listener call
            run.count('incoming_accounted', n_)
            if seen_by_cls.get(c_, 0) != n_:
                run.violation('listeners/incoming-not-dispatched', 'a packet '
                              'the server sent (and the client read) never '
                              'reached the listeners or the built-in reaction',
                              dict(w, packet=c_, sent=n_,
                                   dispatched=seen_by_cls.get(c_, 0)))
                return None
        # ---- wire: suppression ------------------------------------------------
        def ka_echoed(cfg):
            return predict_in(cb.play.KeepAlivePacket, cfg)[1] and \
                predict_out(sb.play.KeepAlivePacket, cfg)[1]
        want_ka = [1000 + i + 1 for i in range(n_ka)] \
            if ka_echoed(config1) else []
        if late and ka_echoed(config):
            want_ka += [2000 + i + 1 for i in range(n_ka2)]
        got_ka, got_chat, got_plugin = [], [], []
        stray = []
        for st, fr in state['frames']:
            try:
                nm, vals = codec.decode('login' if st == 'login' else 'play',
                                        fr[0], fr[1])
            except Exception as e:
                nm, vals = 'undecodable', {'id': fr[0], 'error': repr(e)}
            if nm == 'sb_keep_alive':
                got_ka.append(vals['id'])
            elif nm == 'sb_chat':
                got_chat.append(vals['message'])
            elif nm == 'plugin_response':
                got_plugin.append(vals['message_id'])
            else:
                stray.append((nm, fr[0]))
        if stray:
            run.violation('listeners/stray-frame', 'a frame reached the wire '
                          'that the configuration does not predict',
                          dict(w, stray=stray[:3]))
        if got_ka != want_ka:
            run.violation('listeners/keepalive-wire', 'keep-alive echoes on '
                          'the wire disagree with the listener configuration '
                          '(early ignore suppresses the reaction / the write)',
                          dict(w, got=got_ka, expected=want_ka))
        want_chat = [p.message for p, _f in sent_out
                     if predict_out(type(p), config1)[1]] + \
                    [p.message for p, _f in sent_out2
                     if predict_out(type(p), config)[1]]
        for batch, cfg in ((sent_out, config1), (sent_out2, config)):
            for p, _f in batch:
                reached = predict_out(type(p), cfg)[0]
                for lid, _lst in relays:
                    if lid in reached and \
                            predict_out(sb.play.ChatPacket, cfg)[1]:
                        want_chat.append('relay%d:%s' % (lid, p.message))
                        run.count('nested_writes_from_listeners')
        if combat:
            run.count('combat_subclass_packets', sum(
                1 for k in play_hist if k.startswith('combat')))
        if sorted(got_chat) != sorted(want_chat):
            run.violation('listeners/outgoing-suppression', 'an early outgoing'
                          ' ignore must keep the packet off the wire (and only'
                          ' that)', dict(w, got=got_chat, expected=want_chat))
        want_plugin = [100 + i for i in range(n_plugin)] \
            if state['plugin_answers_expected'] else []
        if sorted(got_plugin) != want_plugin:
            run.violation('listeners/plugin-wire', 'plugin answers on the wire'
                          ' disagree with the listener configuration',
                          dict(w, got=got_plugin, expected=want_plugin))
        run.count('listener_calls', len(log.of('cb.listener')))
        run.count('reactions', len(log.of('cb.reaction')))
        if n_checked == 0:
            return 'no packet was attributed'
        return None
    finally:
        C.LoginReactor.react = orig_login_react
        C.PlayingReactor.react = orig_play_react
        state['go'].set()
        server.stop()
        if conn is not None:
            try:
                conn.disconnect(immediate=True)
            except Exception:
                pass


def concurrent_registration(run, rng, idx):
    """Listeners registered from two threads at once (under line-level yield
    injection) must all end up registered, once each, in their lists."""
    import threading
    from ..probes.linemon import LineMonitor
    from minecraft.networking.connection import Connection
    from minecraft.networking.packets import Packet
    conn = Connection('127.0.0.1', 1, username='x', allowed_versions={757})
    per_thread = 40
    made = [[], []]

    def worker(t):
        for j in range(per_thread):
            def cbk(packet, t=t, j=j):
                pass
            kw = {}
            if (t + j) % 2:
                kw['early'] = True
            if j % 4 >= 2:
                kw['outgoing'] = True
            made[t].append(cbk)
            conn.register_packet_listener(cbk, Packet, **kw)
    with LineMonitor(files=['minecraft/networking/connection.py'],
                     yield_prob=0.3, seed=rng.getrandbits(32)) as mon:
        ts = [threading.Thread(target=worker, args=(t,)) for t in (0, 1)]
        for t in ts:
            t.start()
        for t in ts:
            t.join(30.0)
        run.count('concurrent_registration.yields', mon.yields)
    registered = [l.callback for lst in (
        conn.packet_listeners, conn.early_packet_listeners,
        conn.outgoing_packet_listeners, conn.early_outgoing_packet_listeners)
        for l in lst]
    want = made[0] + made[1]
    run.count('concurrent_registrations', len(want))
    missing = [c for c in want if registered.count(c) != 1]
    if missing or len(registered) != len(want):
        run.violation('listeners/registration-lost', 'listeners registered '
                      'concurrently from two threads are not all registered '
                      'exactly once', {'registered': len(registered),
                                       'expected': len(want),
                                       'lost_or_duplicated': len(missing)})


def directed_cases(run, rng, pv, idx):
    """Two small conversations:
    'refused-send'  - one send() of a packet written by the client is refused
                      once with a transient error: however the library deals
                      with that, every outgoing listener is called at most once
                      for the packet, early ones exactly once;
    'ignored-setcomp' - an early listener raises IgnorePacket for the server's
                      Set Compression: the built-in reaction is skipped like
                      any other (the server, told so by the test, carries on
                      uncompressed) and the session works."""
    import errno
    import threading
    from minecraft.exceptions import IgnorePacket
    from minecraft.networking.packets import clientbound, serverbound
    codec = codec_for(pv)
    variant = ('refused-send', 'ignored-setcomp')[idx % 2]
    state = {'chat': [], 'echo': None, 'done': threading.Event()}

    def handler(io):
        scripts.read_handshake(io)
        if variant == 'ignored-setcomp':
            io.recv_frame()                      # login start
            cid, cp = codec.encode('set_compression', {'threshold': 64})
            io.send_frame(cid, cp)               # ... and NOT switching
            scripts.send_login_success(io, pv, codec)
        else:
            scripts.login_offline(io, pv, None, codec)
        kid, kp = codec.encode('cb_keep_alive', {'id': 77})
        io.send_frame(kid, kp)
        try:
            while True:
                fr = io.recv_frame(4.0)
                if fr is None:
                    break
                nm, vals = codec.decode('play', fr[0], fr[1])
                if nm == 'sb_keep_alive':
                    state['echo'] = vals['id']
                elif nm == 'sb_chat':
                    state['chat'].append(vals['message'])
        except (mcserver.ScriptTimeout, EOFError):
            pass
        state['done'].set()
    server = mcserver.Server(handler)
    rec = pc.Recorder()
    conn = pc.make_connection(server.port, rec, allowed_versions={pv})
    calls = {'early_out': 0, 'out': 0}
    w = {'pv': pv, 'variant': variant}
    try:
        if variant == 'ignored-setcomp':
            def ignore(packet):
                raise IgnorePacket
            conn.register_packet_listener(
                ignore, clientbound.login.SetCompressionPacket, early=True)
        else:
            def early_out(packet):
                calls['early_out'] += 1

            def late_out(packet):
                calls['out'] += 1
            conn.register_packet_listener(early_out, serverbound.play.
                                          ChatPacket, outgoing=True, early=True)
            conn.register_packet_listener(late_out, serverbound.play.
                                          ChatPacket, outgoing=True)
            fault = {'armed': False, 'done': False, 'skip': idx // 2 % 2,
                     'errno': (errno.EINTR, errno.EAGAIN, errno.ENOBUFS)[
                         idx // 4 % 3]}
            w['send_refused'] = (errno.errorcode[fault['errno']],
                                 'send %d of the packet' % (fault['skip'] + 1))

            def send_fault(kind, proxy, data):
                if kind == 'send' and fault['armed'] and not fault['done']:
                    if fault['skip']:
                        fault['skip'] -= 1
                        return
                    fault['done'] = True
                    raise OSError(fault['errno'], 'injected transient error')
            conn.vf_send_hook = send_fault
        conn.connect()
        if not pc.wait_for(lambda: state['echo'] is not None
                           or state['done'].is_set(), 8.0):
            pass
        if variant == 'ignored-setcomp':
            run.count('directed.ignored_set_compression')
            if state['echo'] != 77 or rec.exceptions:
                run.violation('listeners/ignored-reaction-still-applied',
                              'an early listener raised IgnorePacket for Set '
                              'Compression; the built-in reaction must be '
                              'skipped, but the session with a server that '
                              'stays uncompressed does not work',
                              dict(w, keep_alive_echo=state['echo'],
                                   exc=repr(rec.exceptions[:1])))
            return None
        p = serverbound.play.ChatPacket()
        p.message = 'one packet'
        fault['armed'] = True
        forced = idx // 12 % 2 == 0
        try:
            conn.write_packet(p, force=forced)
        except Exception as e:
            w['write_packet_raised'] = repr(e)
        pc.wait_for(lambda: calls['out'] or rec.exceptions
                    or state['done'].is_set(), 3.0)
        run.count('directed.refused_sends')
        if not fault['done']:
            return 'the refused send never happened'
        if calls['early_out'] != 1 or calls['out'] > 1 or \
                len(state['chat']) > 1:
            run.violation('listeners/called-twice-after-refused-send',
                          'one send() of a packet was refused once with a '
                          'transient error; the packet\'s outgoing listeners '
                          'were not called exactly once (early) / at most '
                          'once, or the packet went out twice',
                          dict(w, calls=calls, forced=forced,
                               chat_seen_by_server=len(state['chat'])))
        return None
    finally:
        pc.safe_disconnect(conn)
        server.stop()


def run(run):
    thorough = run.tier == 'thorough'
    run.level = 'exploration'
    run.rule = ('listener configurations: 0-5 listeners in each of the four '
                'lists, 0-3 type filters each drawn from a hierarchy (Packet, '
                'abstract keep-alive, concrete classes, a user subclass, '
                'never-matching types, no types), each raising IgnorePacket for'
                ' a random subset of packet kinds, registered by method or '
                'decorator; histories: 0-2 login plugin requests, optional '
                'set-compression, login success, shuffled keep-alives/chat/'
                'unknown ids, 1-4 outgoing chat packets queued or forced. '
                'Distinct = (configuration, history).')
    run.assumptions = ['the built-in reaction is located by a class-level '
                       'wrapper around LoginReactor/PlayingReactor.react that '
                       'calls the original', 'socket sends are attributed to a'
                       ' packet by finding _write_packet\'s frame on the '
                       'stack; zero attributions = inconclusive',
                       'early ignores are generated only for packets whose '
                       'reaction may be skipped without breaking the session']
    rng = run.rng('c13')
    n = 5000 if thorough else 320
    for i in range(n):
        if not run.mine(i):
            continue
        pv = rng.choice((757, 757, 404, 340, 578, 47, 736))
        err = None
        for attempt in range(3):
            err = scenario(run, rng, pv, i)
            if err is None:
                break
        run.case(('cfg', i, pv))
        if err:
            run.inconclusive_because('scenario %d: %s' % (i, err))
    for i in range(40 if thorough else 6):
        if run.mine(i):
            concurrent_registration(run, rng, i)
            run.case(('concurrent-registration', i))
    for i in range(96 if thorough else 24):
        if not run.mine(i):
            continue
        err = directed_cases(run, rng, (757, 404, 340, 47)[i % 4] if i % 2
                             else (757, 404, 340, 578)[i // 2 % 4], i)
        run.case(('directed', i))
        if err:
            run.inconclusive_because('directed %d: %s' % (i, err))
    run.require('scenarios', 10)
    run.require('packets_dispatched', 100)
    run.require('listener_calls', 50)
    run.require('reactions', 50)
    run.require('dispatched.out', 30)
    run.require('dispatched.in', 30)
    run.require('scenarios_with_late_registration', 5)
    run.require('nested_writes_from_listeners', 5)
    run.require('decorators_applied_twice', 5)
    run.require('callables_registered_twice', 5)
    run.require('scenarios_kicked_while_writing', 5)
    run.require('scenarios_writing_one_object_repeatedly', 5)
    run.require('scenarios_where_an_early_listener_disconnects', 5)
    run.require('combat_subclass_packets', 5)
