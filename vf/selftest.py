"""setup_cmd: the reference implementation must be right before it may judge
pyCraft.  Runs every reference self-test (published vectors)."""
import sys


def main():
    from .ref import wiretypes, aes, cfb8, javahash, framing
    mods = [wiretypes, aes, cfb8, javahash, framing]
    try:
        from .ref import core_packets
        mods.append(core_packets)
    except ImportError:
        pass
    for m in mods:
        assert m.selftest() is True, m.__name__
        print('selftest ok: %s' % m.__name__)
    from . import core
    core.load_repo()
    print('tree under test: %s' % core.REPO)
    return 0


if __name__ == '__main__':
    sys.exit(main())
