"""Client-side harness: builds the real Connection with recording callbacks and
transport proxies installed from outside (no source change), and waits for
logical completion (networking threads terminated) under a wall-clock watchdog
whose firing means INCONCLUSIVE, never a verdict."""
import socket
import sys
import threading
import time

from . import streams


class EventLog(object):
    """Process-wide append-only log with one logical clock."""

    def __init__(self):
        self.lock = threading.Lock()
        self.events = []
        self.roles = {}
        self._objs = {}

    def role(self):
        # keyed by the thread *object*: idents are reused by the OS once a
        # thread has ended, which would merge two networking threads
        t = threading.current_thread()
        r = self.roles.get(id(t))
        if r is None or self._objs.get(id(t)) is not t:
            if t.name.startswith('Networking Thread'):
                n = sum(1 for v in self.roles.values() if v.startswith('net#'))
                r = 'net#%d' % (n + 1)
            else:
                r = t.name
            self.roles[id(t)] = r
            self._objs[id(t)] = t          # keeps the object (and id) alive
        return r

    def emit(self, kind, **payload):
        with self.lock:
            seq = len(self.events)
            self.events.append((seq, self.role(), kind, payload))
            return seq

    def of(self, *kinds):
        return [e for e in self.events if e[2] in kinds]


class FileProxy(socket.SocketIO):
    """The connection's unbuffered read stream, as a real `socket.SocketIO`
    (what `socket.makefile('rb', 0)` returns) so that code which inspects the
    type or uses `readinto`/`readable` behaves as it would uninstrumented:
    logs reads, may force short reads, counts reads that return no data and
    stops a spinning reader."""

    def __init__(self, sock, log, rng=None, short_reads=False,
                 spin_limit=50, gen=0):
        socket.SocketIO.__init__(self, sock, 'rb')
        sock._io_refs += 1                   # as socket.makefile() does
        self.log, self.rng = log, rng
        self.gen = gen
        self.short_reads = short_reads
        self.empty_reads = 0
        self.reads = 0
        self.spin_limit = spin_limit
        self.vf_closed = False
        self.close_delay = 0

    def _note(self, want, got):
        self.reads += 1
        self.log.emit('io.read', want=want, got=got, gen=self.gen)
        if not got and want:
            self.empty_reads += 1
            if self.empty_reads >= self.spin_limit:
                self.log.emit('io.spin', empty_reads=self.empty_reads)
                raise streams.SpinDetected(
                    '%d reads returned no data after end of stream'
                    % self.empty_reads)

    def read(self, n=-1):
        k = n
        if self.short_reads and n and n > 1 and self.rng is not None:
            k = self.rng.randrange(1, n + 1)
        data = socket.SocketIO.read(self, k)
        self._note(n, len(data or b''))
        return data

    def readinto(self, b):
        # (RawIOBase.read() is implemented on top of readinto: count only
        # calls made from outside)
        if sys._getframe(1).f_code.co_name == 'read' and \
                sys._getframe(1).f_locals.get('self') is self:
            return socket.SocketIO.readinto(self, b)
        view = memoryview(b)
        if self.short_reads and len(view) > 1 and self.rng is not None:
            view = view[:self.rng.randrange(1, len(view) + 1)]
        n = socket.SocketIO.readinto(self, view)
        self._note(len(b), n or 0)
        return n

    def close(self):
        if not self.vf_closed:
            self.vf_closed = True
            self.log.emit('io.fclose', gen=self.gen)
            if self.close_delay:
                # delay injection at an existing suspension point: disconnect()
                # has shut the socket down and is about to close the stream
                time.sleep(self.close_delay)
        return socket.SocketIO.close(self)


class SocketProxy(socket.socket):
    """The connection's socket, as a real `socket.socket` that has taken over
    the descriptor of the one `_connect()` created: logs every send with its
    bytes and the calling thread; optionally yields between sends (the gap
    between a frame's length prefix and its body becomes a pre-emption
    point)."""

    def __init__(self, inner, log, rng=None, yield_prob=0.0, hook=None,
                 gen=0):
        timeout = inner.gettimeout()
        socket.socket.__init__(self, inner.family, inner.type, inner.proto,
                               fileno=inner.detach())
        self.settimeout(timeout)             # (keep whatever mode it was in)
        self.log, self.rng = log, rng
        self.gen = gen
        self.yield_prob = yield_prob
        self.hook = hook
        self.closed = False
        self.blocked_sends = 0
        self.short_sends = 0

    def send(self, data, *flags):
        if self.hook:
            self.hook('send', self, data)
        self.log.emit('io.send', data=bytes(data), gen=self.gen)
        t0 = time.monotonic()
        r = socket.socket.send(self, data, *flags)
        if time.monotonic() - t0 > 0.02:
            self.blocked_sends += 1       # the kernel made the caller wait
        if r is not None and r < len(data):
            self.short_sends += 1
        if self.yield_prob and self.rng.random() < self.yield_prob:
            time.sleep(0.0003 if self.rng.random() < 0.3 else 0)
        return r

    def shutdown(self, *a, **k):
        if self.hook:
            self.hook('shutdown', self, b'')
        self.log.emit('io.shutdown', gen=self.gen)
        return socket.socket.shutdown(self, *a, **k)

    def close(self):
        if not self.closed:
            self.closed = True
            if self.hook:
                self.hook('close', self, b'')
            self.log.emit('io.close', gen=self.gen)
        return socket.socket.close(self)


def monitored_connection_class():
    """Subclass of the real Connection that only extends `_connect` to wrap
    what the real `_connect` created."""
    from minecraft.networking.connection import Connection

    class MonitoredConnection(Connection):
        vf_log = None
        vf_rng = None
        vf_short_reads = False
        vf_send_yield = 0.0
        vf_send_hook = None
        vf_wrap = True
        vf_connect_hook = None     # called at the start of _connect()
        vf_sndbuf = None           # SO_SNDBUF to set on the new socket
        vf_rcvbuf = None           # SO_RCVBUF likewise
        vf_close_delay = 0         # pause between socket shutdown and stream close
        vf_min_fd = None           # move the new socket to a descriptor >= this

        def __setattr__(self, name, value):
            # observes who replaces the packet reactor (state shared between
            # a connection and its successor)
            if name == 'reactor' and self.__dict__.get('vf_log') is not None:
                from minecraft.networking.connection import NetworkingThread
                cur = threading.current_thread()
                stale = isinstance(cur, NetworkingThread) and \
                    bool(cur.interrupt) and (
                        self.__dict__.get('new_networking_thread') is not None
                        or self.__dict__.get('networking_thread') is not cur)
                self.__dict__['vf_log'].emit(
                    'state.reactor', cls=type(value).__name__, stale=stale)
            elif name in ('socket', 'file_object') and \
                    self.__dict__.get('vf_log') is not None:
                # (who installs a transport object: _connect of the caller's
                # thread, or a reaction that wraps it for encryption)
                from minecraft.networking.connection import NetworkingThread
                cur = threading.current_thread()
                stale = isinstance(cur, NetworkingThread) and \
                    bool(cur.interrupt) and (
                        self.__dict__.get('new_networking_thread') is not None
                        or self.__dict__.get('networking_thread') is not cur)
                if stale and value is not None:
                    self.__dict__['vf_log'].emit(
                        'state.transport', attr=name,
                        cls=type(value).__name__, stale=True)
            object.__setattr__(self, name, value)

        def _connect(self):
            log = self.vf_log
            if log is not None:
                log.emit('api.tcp_connect')
            if self.vf_connect_hook is not None:
                self.vf_connect_hook()
            super(MonitoredConnection, self)._connect()
            if self.vf_min_fd:
                # environment shaping: a process with many open files - the
                # connection's descriptor number is large (select() has a
                # limit of its own, FD_SETSIZE)
                import fcntl
                import socket as _socket
                old = self.socket
                hi = fcntl.fcntl(old.fileno(), fcntl.F_DUPFD, self.vf_min_fd)
                new = _socket.socket(old.family, old.type, old.proto,
                                     fileno=hi)
                new.settimeout(old.gettimeout())
                try:
                    self.file_object.close()
                except Exception:
                    pass
                old.close()
                self.socket = new
                self.file_object = new.makefile('rb', 0)
            if self.vf_rcvbuf:
                import socket as _socket
                self.socket.setsockopt(_socket.SOL_SOCKET, _socket.SO_RCVBUF,
                                       self.vf_rcvbuf)
            if self.vf_sndbuf:
                # environment shaping: a small kernel send buffer
                import socket as _socket
                self.socket.setsockopt(_socket.SOL_SOCKET, _socket.SO_SNDBUF,
                                       self.vf_sndbuf)
            if log is not None and self.vf_wrap:
                self.vf_generation = getattr(self, 'vf_generation', 0) + 1
                # the instrumented socket takes over the descriptor; the read
                # stream is re-made on it (nothing has been read yet)
                old_file = self.file_object
                self.socket = SocketProxy(
                    self.socket, log, self.vf_rng, self.vf_send_yield,
                    self.vf_send_hook, gen=self.vf_generation)
                try:
                    old_file.close()
                except Exception:
                    pass
                self.file_object = FileProxy(
                    self.socket, log, self.vf_rng, self.vf_short_reads,
                    gen=self.vf_generation)
                self.file_object.close_delay = self.vf_close_delay
                self.vf_file_proxies = getattr(self, 'vf_file_proxies', [])
                self.vf_file_proxies.append(self.file_object)

    return MonitoredConnection


class Recorder(object):
    """Recording callbacks for a Connection."""

    def __init__(self, log=None):
        self.log = log or EventLog()
        self.exceptions = []      # (exc, role) given to the final handler
        self.exits = 0
        self.packets = []         # incoming packets seen by an early listener
        self.statuses = []
        self.pings = []

    def handle_exception(self, exc, exc_info):
        self.exceptions.append(exc)
        self.log.emit('cb.exception', exc=repr(exc))

    def handle_exit(self):
        self.exits += 1
        self.log.emit('cb.exit')

    def on_packet(self, packet):
        self.packets.append(packet)
        self.log.emit('cb.packet', name=type(packet).__name__,
                      id=packet.id)


class Decoy(object):
    """A second Connection object constructed *after* the one under test and
    never used: it points at a port that refuses connections, has another
    user name, and carries listeners/handlers that must never be called.
    State shared between Connection objects (class- or module-level) shows up
    as the connection under test using the decoy's address, name or
    callbacks."""

    def __init__(self):
        from minecraft.networking.connection import Connection
        from minecraft.networking.packets import Packet
        from ..server.mcserver import RefusingPort
        self.port = RefusingPort()
        self.calls = []
        self.conn = Connection(
            '127.0.0.1', self.port.port, username='decoy-user',
            allowed_versions={340},
            handle_exception=lambda e, i: self.calls.append(('exc', repr(e))),
            handle_exit=lambda: self.calls.append(('exit',)))
        for kw in ({'early': True}, {}, {'outgoing': True},
                   {'outgoing': True, 'early': True}):
            self.conn.register_packet_listener(
                lambda p, kw=kw: self.calls.append(
                    ('listener', sorted(kw), type(p).__name__)), Packet, **kw)
        self.conn.register_exception_handler(
            lambda e, i: self.calls.append(('handler', repr(e))))

    def verdict(self, run, w, key='isolation/decoy-callbacks'):
        self.port.close()
        if self.calls:
            run.violation(key, 'callbacks of another, unused Connection '
                          'object were invoked (state shared between '
                          'Connection objects)', dict(w, calls=self.calls[:4]))
            return False
        return True


def make_connection(port, rec, cls=None, early_listener=True, decoy=False,
                    **kw):
    from minecraft.networking.packets import Packet
    K = cls or monitored_connection_class()
    kw.setdefault('username', 'vfuser')
    conn = K('127.0.0.1', port, handle_exception=rec.handle_exception,
             handle_exit=rec.handle_exit, **kw)
    conn.vf_log = rec.log
    if early_listener:
        conn.register_packet_listener(rec.on_packet, Packet, early=True)
    if decoy:
        rec.decoy = Decoy()
    return conn


def safe_disconnect(conn, timeout=2.0):
    """Best-effort clean-up that cannot hang the harness (the connection's
    lock may be stuck in a scenario that went wrong)."""
    def go():
        try:
            conn.disconnect(immediate=True)
        except Exception:
            pass
    t = threading.Thread(target=go, name='vf-cleanup', daemon=True)
    t.start()
    t.join(timeout)
    return not t.is_alive()


def threads_of(conn):
    return [t for t in (conn.networking_thread, conn.new_networking_thread)
            if t is not None]


def wait_idle(conn, timeout=10.0, also=None):
    """Wait until the connection has no networking thread (logical
    completion).  Returns True if reached, False if the watchdog fired."""
    def finished(t):
        # a slot that still names a thread which has run to its end will
        # never be cleared by that thread: the connection is at rest (whether
        # it is still *usable* is for the caller's reuse probe to find out)
        return t is None or (t.ident is not None and not t.is_alive())
    deadline = time.monotonic() + timeout
    while time.monotonic() < deadline:
        if finished(conn.networking_thread) and \
                finished(conn.new_networking_thread) and \
                (also is None or also()):
            return True
        time.sleep(0.002)
    return False


def wait_for(pred, timeout=10.0):
    deadline = time.monotonic() + timeout
    while time.monotonic() < deadline:
        if pred():
            return True
        time.sleep(0.002)
    return False


def dump_threads():
    import sys
    import traceback
    out = []
    for ident, frame in sys._current_frames().items():
        out.append('thread %s:\n%s' % (ident, ''.join(
            traceback.format_stack(frame)[-6:])))
    return '\n'.join(out)[-3000:]


def thread_cpu_seconds(t):
    """CPU time (user+system) consumed so far by a live thread, from
    /proc/self/task/<tid>/stat; None if unavailable."""
    import os
    tid = getattr(t, 'native_id', None)
    if tid is None:
        return None
    try:
        with open('/proc/self/task/%d/stat' % tid) as f:
            fields = f.read().rsplit(')', 1)[1].split()
        return (int(fields[11]) + int(fields[12])) / os.sysconf('SC_CLK_TCK')
    except (OSError, IndexError, ValueError):
        return None


def observe_options(conn):
    """Makes writes to conn.options visible in conn.vf_log (who switches
    compression on: the connection's own thread, or a thread that has been
    interrupted and replaced)."""
    from minecraft.networking.connection import NetworkingThread
    base = type(conn.options)

    class ObservedOptions(base):
        def __setattr__(self, name, value):
            log = conn.__dict__.get('vf_log')
            cur = threading.current_thread()
            if log is not None and isinstance(cur, NetworkingThread) and \
                    bool(cur.interrupt) and (
                        conn.__dict__.get('new_networking_thread') is not None
                        or conn.__dict__.get('networking_thread') is not cur):
                log.emit('state.options', attr=name, value=repr(value),
                         stale=True)
            base.__setattr__(self, name, value)
    conn.options.__class__ = ObservedOptions


class SteppingClock(object):
    """Fault injection on the *wall* clock: while active, time.time() returns
    the real value plus an offset that the workload steps (an NTP correction,
    a resume from suspend).  Monotonic clocks are left alone - they are what
    durations are to be measured with.  The harness itself only uses
    time.monotonic()."""
    _lock = threading.Lock()

    def __init__(self):
        self.offset = 0.0
        self.steps = []
        self.reads = 0

    def __enter__(self):
        import time as _time
        SteppingClock._lock.acquire()
        self._time = _time
        self._real = _time.time

        def fake():
            self.reads += 1
            return self._real() + self.offset
        _time.time = fake
        return self

    def step(self, seconds):
        self.offset += seconds
        self.steps.append(seconds)

    def __exit__(self, *exc):
        self._time.time = self._real
        SteppingClock._lock.release()
        return False
