"""Scripted byte streams for feeding the real reader: read(n) returns at most
up to the next cut (what a raw socket file may legally do: 1..n bytes, b'' only
at end of stream); counts empty reads and stops a spinning reader."""
import os


class SpinDetected(BaseException):
    """Raised (as BaseException, so the code under test cannot swallow it) when
    the reader keeps calling read() after end of stream."""


_PIPE = None


def readable_fd():
    """A file descriptor that select() always reports readable."""
    global _PIPE
    if _PIPE is None:
        r, w = os.pipe()
        os.write(w, b'x')
        _PIPE = (r, w)
    return _PIPE[0]


class ScriptedStream(object):
    def __init__(self, data, cuts=(), max_chunk=None, spin_limit=50):
        self.data = bytes(data)
        self.pos = 0
        self.cuts = sorted(c for c in set(cuts) if 0 < c < len(self.data))
        self.max_chunk = max_chunk
        self.reads = 0
        self.empty_reads = 0
        self.spin_limit = spin_limit
        self.closed = False

    def fileno(self):
        return readable_fd()

    def read(self, n=None):
        self.reads += 1
        left = len(self.data) - self.pos
        if n is None or n < 0:
            n = left
        if left == 0 or n == 0:
            if n:
                self.empty_reads += 1
                if self.empty_reads >= self.spin_limit:
                    raise SpinDetected('%d reads after end of stream'
                                       % self.empty_reads)
            return b''
        k = min(n, left)
        if self.max_chunk:
            k = min(k, self.max_chunk)
        for c in self.cuts:
            if c > self.pos:
                k = min(k, c - self.pos)
                break
        out = self.data[self.pos:self.pos + k]
        self.pos += k
        return out

    def close(self):
        self.closed = True
