"""sys.monitoring LINE-event monitor on the code of the tree under test.

Three uses:
 * step budgets (logical bound on the work one call may do; a call that exceeds
   it is stopped by raising StepBudgetExceeded from the callback, so "never
   terminates" becomes an observable, decidable event instead of a hang);
 * seeded yield injection (pre-emption at every statement of chosen files);
 * coverage of (thread role, file:line) sites as evidence of what was reached.
"""
import os
import random
import sys
import threading
import time

from .. import core

TOOL = 3
_mon = sys.monitoring


class StepBudgetExceeded(BaseException):
    """BaseException so that `except Exception` in the code under test cannot
    swallow it."""


class LineMonitor(object):
    def __init__(self, files=None, yield_prob=0.0, seed=0, record_sites=False,
                 budget=None):
        root = os.path.join(core.REPO, 'minecraft') + os.sep
        self.root = root
        self.files = None if files is None else {
            os.path.join(core.REPO, f) for f in files}
        self.yield_prob = yield_prob
        self.rng = random.Random(seed)
        self.rng_lock = threading.Lock()
        self.record_sites = record_sites
        self.sites = set()
        self.events = 0
        self.yields = 0
        self.budget = budget
        self.local = threading.local()
        self.active = False

    def _wanted(self, code):
        fn = code.co_filename
        if self.files is not None:
            return fn in self.files
        return fn.startswith(self.root)

    def _line(self, code, lineno):
        if not self._wanted(code):
            return _mon.DISABLE
        self.events += 1
        if self.budget is not None:
            n = getattr(self.local, 'steps', None)
            if n is not None:
                n += 1
                self.local.steps = n
                if n > self.budget:
                    self.local.steps = None
                    raise StepBudgetExceeded(
                        '%s:%d after %d line events' % (
                            os.path.basename(code.co_filename), lineno, n))
        if self.record_sites:
            self.sites.add((threading.current_thread().name,
                            os.path.basename(code.co_filename), lineno))
        if self.yield_prob:
            with self.rng_lock:
                r = self.rng.random()
            if r < self.yield_prob:
                self.yields += 1
                time.sleep(0 if r > self.yield_prob / 8 else 0.0002)

    def __enter__(self):
        _mon.use_tool_id(TOOL, 'vf-linemon')
        _mon.register_callback(TOOL, _mon.events.LINE, self._line)
        _mon.set_events(TOOL, _mon.events.LINE)
        _mon.restart_events()
        self.active = True
        return self

    def __exit__(self, *exc):
        _mon.set_events(TOOL, 0)
        _mon.register_callback(TOOL, _mon.events.LINE, None)
        _mon.free_tool_id(TOOL)
        self.active = False
        return False

    # per-call budget for the calling thread
    def start_call(self):
        self.local.steps = 0

    def end_call(self):
        n = getattr(self.local, 'steps', None)
        self.local.steps = None
        return n


def budgeted(mon, fn, *args, **kw):
    """Run fn under mon's step budget.  Returns ('ok', result),
    ('raised', exc) or ('budget', message)."""
    mon.start_call()
    try:
        return 'ok', fn(*args, **kw)
    except StepBudgetExceeded as e:
        return 'budget', str(e)
    except Exception as e:  # noqa
        return 'raised', e
    finally:
        mon.end_call()


class PreemptEverywhere(object):
    """Systematic (not random) pre-emption of one call by another: `fn_a` runs
    in a thread of its own and is stopped at its k-th statement inside the
    chosen files, for k = 1, 2, ... until the call has fewer statements than
    k; while it stands there `fn_b` runs to its end in the calling thread;
    then `fn_a` goes on.  `judge(k, result_a, result_b)` is called for every k
    (results are ('ok', value) or ('raised', exc)); it returns a witness to
    stop, or None.  `fresh(k)` may rebuild per-k state first.

    One enumeration covers every position at which a thread switch between two
    statements of fn_a can let fn_b in - the schedules random yield injection
    finds only with luck - at the price of considering a single switch."""
    TOOL = 4

    def __init__(self, files, max_k=400):
        self.files = {os.path.join(core.REPO, f) for f in files}
        self.max_k = max_k
        self.points = 0

    def run(self, fn_a, fn_b, judge, fresh=None):
        state = {'a': None, 'n': 0, 'stop_at': 0, 'stopped': None,
                 'go': None}

        def on_line(code, lineno):
            if code.co_filename not in self.files:
                return _mon.DISABLE
            if threading.get_ident() == state['a']:
                state['n'] += 1
                if state['n'] == state['stop_at']:
                    state['stopped'].set()
                    state['go'].wait(10.0)
            return None
        _mon.use_tool_id(self.TOOL, 'vf-preempt-everywhere')
        _mon.register_callback(self.TOOL, _mon.events.LINE, on_line)
        _mon.set_events(self.TOOL, _mon.events.LINE)
        _mon.restart_events()
        try:
            for k in range(1, self.max_k + 1):
                if fresh is not None:
                    fresh(k)
                state.update(n=0, stop_at=k, stopped=threading.Event(),
                             go=threading.Event())
                res_a = []

                def thread_a():
                    state['a'] = threading.get_ident()
                    try:
                        res_a.append(('ok', fn_a()))
                    except Exception as e:
                        res_a.append(('raised', e))
                    state['a'] = None
                ta = threading.Thread(target=thread_a, name='preempted-A')
                ta.start()
                reached = False
                for _ in range(4000):
                    reached = state['stopped'].wait(0.005)
                    if reached or not ta.is_alive():
                        break
                reached = reached or state['stopped'].is_set()
                res_b = None
                if reached:
                    try:
                        res_b = ('ok', fn_b())
                    except Exception as e:
                        res_b = ('raised', e)
                    self.points += 1
                state['go'].set()
                ta.join(20.0)
                if not reached:
                    return None          # fn_a has fewer than k statements
                witness = judge(k, res_a[0] if res_a else ('hung', None),
                                res_b)
                if witness is not None:
                    return witness
            return None
        finally:
            _mon.set_events(self.TOOL, 0)
            _mon.register_callback(self.TOOL, _mon.events.LINE, None)
            _mon.free_tool_id(self.TOOL)
