"""sys.monitoring LINE-event monitor on the code of the tree under test.

Three uses:
 * step budgets (logical bound on the work one call may do; a call that exceeds
   it is stopped by raising StepBudgetExceeded from the callback, so "never
   terminates" becomes an observable, decidable event instead of a hang);
 * seeded yield injection (pre-emption at every statement of chosen files);
 * coverage of (thread role, file:line) sites as evidence of what was reached.
"""
import os
import random
import sys
import threading
import time

from .. import core

TOOL = 3
_mon = sys.monitoring


class StepBudgetExceeded(BaseException):
    """BaseException so that `except Exception` in the code under test cannot
    swallow it."""


class LineMonitor(object):
    def __init__(self, files=None, yield_prob=0.0, seed=0, record_sites=False,
                 budget=None):
        root = os.path.join(core.REPO, 'minecraft') + os.sep
        self.root = root
        self.files = None if files is None else {
            os.path.join(core.REPO, f) for f in files}
        self.yield_prob = yield_prob
        self.rng = random.Random(seed)
        self.rng_lock = threading.Lock()
        self.record_sites = record_sites
        self.sites = set()
        self.events = 0
        self.yields = 0
        self.budget = budget
        self.local = threading.local()
        self.active = False

    def _wanted(self, code):
        fn = code.co_filename
        if self.files is not None:
            return fn in self.files
        return fn.startswith(self.root)

    def _line(self, code, lineno):
        if not self._wanted(code):
            return _mon.DISABLE
        self.events += 1
        if self.budget is not None:
            n = getattr(self.local, 'steps', None)
            if n is not None:
                n += 1
                self.local.steps = n
                if n > self.budget:
                    self.local.steps = None
                    raise StepBudgetExceeded(
                        '%s:%d after %d line events' % (
                            os.path.basename(code.co_filename), lineno, n))
        if self.record_sites:
            self.sites.add((threading.current_thread().name,
                            os.path.basename(code.co_filename), lineno))
        if self.yield_prob:
            with self.rng_lock:
                r = self.rng.random()
            if r < self.yield_prob:
                self.yields += 1
                time.sleep(0 if r > self.yield_prob / 8 else 0.0002)

    def __enter__(self):
        _mon.use_tool_id(TOOL, 'vf-linemon')
        _mon.register_callback(TOOL, _mon.events.LINE, self._line)
        _mon.set_events(TOOL, _mon.events.LINE)
        _mon.restart_events()
        self.active = True
        return self

    def __exit__(self, *exc):
        _mon.set_events(TOOL, 0)
        _mon.register_callback(TOOL, _mon.events.LINE, None)
        _mon.free_tool_id(TOOL)
        self.active = False
        return False

    # per-call budget for the calling thread
    def start_call(self):
        self.local.steps = 0

    def end_call(self):
        n = getattr(self.local, 'steps', None)
        self.local.steps = None
        return n


def budgeted(mon, fn, *args, **kw):
    """Run fn under mon's step budget.  Returns ('ok', result),
    ('raised', exc) or ('budget', message)."""
    mon.start_call()
    try:
        return 'ok', fn(*args, **kw)
    except StepBudgetExceeded as e:
        return 'budget', str(e)
    except Exception as e:  # noqa
        return 'raised', e
    finally:
        mon.end_call()
