"""Serialising "baton" scheduler: real threads, but only the baton holder runs.

Every instrumented operation (lock acquire/release, socket send, queue
append/popleft, the networking thread's select) calls step(tag, enabled) and
blocks until the strategy hands the baton back.  Blocking operations are
modelled by `enabled` predicates instead of really blocking, so a schedule is
a replayable list of decisions and a state in which nobody is enabled while
somebody is unfinished is a detected deadlock.
"""
import threading


class Deadlock(Exception):
    pass


class Participant(object):
    __slots__ = ('name', 'thread', 'tag', 'enabled', 'waiting', 'finished')

    def __init__(self, name, thread):
        self.name, self.thread = name, thread
        self.tag, self.enabled = None, None
        self.waiting, self.finished = False, False


class Scheduler(object):
    def __init__(self, expected, strategy, max_decisions=4000):
        self.cond = threading.Condition()
        self.expected = set(expected)      # participant names
        self.parts = {}                    # name -> Participant
        self.by_thread = {}
        self.strategy = strategy
        self.active = False
        self.started = False
        self.current = None
        self.trace = []                    # (index, chosen, default, [cands], tag)
        self.decisions = []
        self.deadlock = None
        self.max_decisions = max_decisions
        self.aborted = False
        self.last = None

    # ---- registration -----------------------------------------------------
    def me(self):
        return self.by_thread.get(threading.get_ident())

    def register(self, name):
        with self.cond:
            p = Participant(name, threading.current_thread())
            self.parts[name] = p
            self.by_thread[threading.get_ident()] = p
            return p

    def controlled(self):
        """True if the calling thread is a registered, unfinished participant
        of an active scheduler."""
        if not self.active or self.aborted:
            return False
        p = self.by_thread.get(threading.get_ident())
        return p is not None and not p.finished

    # ---- the yield point -----------------------------------------------------
    def step(self, tag, enabled=None):
        p = self.me()
        if p is None or not self.active or self.aborted or p.finished:
            return
        with self.cond:
            p.tag, p.enabled, p.waiting = tag, enabled, True
            if self.current is p:
                self.current = None
            self._schedule()
            while self.current is not p and not self.aborted:
                self.cond.wait(0.05)
                if self.current is None and not self.aborted:
                    self._schedule()
            p.waiting = False

    def finish(self):
        p = self.me()
        if p is None:
            return
        with self.cond:
            p.finished, p.waiting = True, False
            if self.current is p:
                self.current = None
            self._schedule()

    def _schedule(self):
        """Called with cond held and nobody holding the baton."""
        if self.current is not None or self.aborted:
            return
        if not self.started:
            if set(self.parts) >= self.expected and all(
                    p.waiting or p.finished for p in self.parts.values()):
                self.started = True
            else:
                return
        live = [p for p in self.parts.values() if not p.finished]
        if not live:
            self.cond.notify_all()
            return
        if not all(p.waiting for p in live):
            return          # somebody is still running towards its next step
        cands = sorted((p for p in live
                        if p.enabled is None or self._safe(p.enabled)),
                       key=lambda p: p.name)
        if not cands:
            self.deadlock = [(p.name, p.tag) for p in live]
            self.aborted = True
            self.cond.notify_all()
            return
        if len(self.decisions) >= self.max_decisions:
            self.deadlock = [('decision budget exhausted', len(self.decisions))]
            self.aborted = True
            self.cond.notify_all()
            return
        default = self.last if self.last in cands else cands[0]
        idx = len(self.decisions)
        chosen = self.strategy.choose(idx, cands, default)
        self.decisions.append(chosen.name)
        self.trace.append((idx, chosen.name, default.name,
                           [c.name for c in cands], chosen.tag))
        self.last = chosen
        self.current = chosen
        self.cond.notify_all()

    @staticmethod
    def _safe(pred):
        try:
            return bool(pred())
        except Exception:
            return True      # let the thread run into the real exception

    def release_all(self):
        with self.cond:
            self.aborted = True
            self.active = False
            self.cond.notify_all()


class NullScheduler(object):
    """For free-running use of the proxies (owner tracking only)."""
    active = False

    def controlled(self):
        return False

    def step(self, *a, **k):
        pass


# ---- strategies ---------------------------------------------------------------
class Preemptions(object):
    """Non-pre-emptive by default; at decision index i in `plan` switch to the
    named thread (if it is a candidate)."""

    def __init__(self, plan=None):
        self.plan = dict(plan or {})
        self.applied = []

    def choose(self, idx, cands, default):
        want = self.plan.get(idx)
        if want is not None:
            for c in cands:
                if c.name == want:
                    if c is not default:
                        self.applied.append((idx, want))
                    return c
        return default


class RandomWalk(object):
    def __init__(self, rng, switch_prob=0.3):
        self.rng, self.switch_prob = rng, switch_prob

    def choose(self, idx, cands, default):
        if len(cands) > 1 and self.rng.random() < self.switch_prob:
            return self.rng.choice(cands)
        return default


class Replay(object):
    def __init__(self, decisions):
        self.decisions = list(decisions)

    def choose(self, idx, cands, default):
        if idx < len(self.decisions):
            for c in cands:
                if c.name == self.decisions[idx]:
                    return c
        return default


# ---- proxies ----------------------------------------------------------------------
class LockProxy(object):
    """Proxy around a real RLock: owner tracking; acquisition is a yield point
    enabled only when the lock is free or already ours."""

    def __init__(self, sched):
        self.real = threading.RLock()
        self.sched = sched
        self.owner = None
        self.depth = 0
        self.acquisitions = 0

    def acquire(self, blocking=True, timeout=-1):
        me = threading.get_ident()
        if self.sched.controlled():
            self.sched.step('lock.acq', lambda: self.owner in (None, me))
        ok = self.real.acquire(blocking, timeout)
        if ok:
            self.owner = me
            self.depth += 1
            self.acquisitions += 1
        return ok

    def release(self):
        self.depth -= 1
        if self.depth == 0:
            self.owner = None
        self.real.release()
        if self.depth == 0 and self.sched.controlled():
            self.sched.step('lock.rel')

    __enter__ = acquire

    def __exit__(self, *exc):
        self.release()
        return False

    def held_by_me(self):
        return self.owner == threading.get_ident()


class QueueProxy(object):
    """deque stand-in whose append/popleft are yield points."""

    def __init__(self, sched, items=()):
        from collections import deque
        self.d = deque(items)
        self.sched = sched

    def append(self, x):
        if self.sched.controlled():
            self.sched.step('q.append')
        self.d.append(x)
        # (the element is visible to the consumer from here on: whatever the
        # producer still does to it afterwards may come too late)
        if self.sched.controlled():
            self.sched.step('q.appended')

    def appendleft(self, x):
        self.d.appendleft(x)

    def popleft(self):
        if self.sched.controlled():
            self.sched.step('q.popleft')
        return self.d.popleft()

    def pop(self):
        return self.d.pop()

    def __len__(self):
        return len(self.d)

    def __getitem__(self, i):
        return self.d[i]

    def __bool__(self):
        return bool(self.d)

    def __iter__(self):
        return iter(self.d)

    def clear(self):
        self.d.clear()
