"""./check <ID> [--tier quick|thorough] [--replay PATH] [--shard i/n --frag F]"""
import argparse
import faulthandler
import importlib
import json
import os
import sys

from . import core


def main(argv=None):
    ap = argparse.ArgumentParser()
    ap.add_argument('pid')
    ap.add_argument('--tier', default=os.environ.get('VERIF_TIER', 'quick'),
                    choices=['quick', 'thorough'])
    ap.add_argument('--replay')
    ap.add_argument('--shard')
    ap.add_argument('--frag')
    ap.add_argument('--shards', type=int)
    args = ap.parse_args(argv)
    pid = args.pid.upper()
    seed = int(os.environ.get('VERIF_SEED', '0') or 0)
    faulthandler.enable()
    mod = importlib.import_module('vf.checks.' + pid.lower())

    if args.replay:
        core.load_repo()
        with open(args.replay) as fh:
            rep = json.load(fh)
        print(json.dumps(rep, indent=1)[:6000])
        if hasattr(mod, 'replay'):
            run = core.Run(pid, 'quick', rep.get('seed', 0))
            mod.replay(run, rep)
            bad = [k for k in run.violations]
            print('replay: %s' % ('VIOLATION reproduced: %s' % bad if bad
                                  else 'not reproduced'))
            return 1 if bad else 0
        return 0

    shards_cfg = getattr(mod, 'SHARDS', {})
    nshards = args.shards or shards_cfg.get(args.tier, 1)
    if args.shard:
        i, n = map(int, args.shard.split('/'))
        core.load_repo()
        run = core.Run(pid, args.tier, seed, i, n)
        mod.run(run)
        with open(args.frag, 'w') as fh:
            json.dump(run.to_fragment(), fh)
        return 0
    if nshards > 1:
        timeout = getattr(mod, 'SHARD_TIMEOUT', {}).get(
            args.tier, 600 if args.tier == 'quick' else 3600)
        run = core.run_sharded(pid, args.tier, seed, nshards, timeout)
    else:
        core.load_repo()
        run = core.Run(pid, args.tier, seed)
        mod.run(run)
    return run.finish()


if __name__ == '__main__':
    code = main()
    sys.stdout.flush()
    sys.stderr.flush()
    os._exit(code)
