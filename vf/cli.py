"""./check <ID> [--tier quick|thorough] [--replay PATH] [--shard i/n --frag F]"""
import argparse
import faulthandler
import importlib
import json
import os
import sys

from . import core


def main(argv=None):
    ap = argparse.ArgumentParser()
    ap.add_argument('pid')
    ap.add_argument('--tier', default=os.environ.get('VERIF_TIER', 'quick'),
                    choices=['quick', 'thorough'])
    ap.add_argument('--replay')
    ap.add_argument('--shard')
    ap.add_argument('--frag')
    ap.add_argument('--shards', type=int)
    args = ap.parse_args(argv)
    pid = args.pid.upper()
    seed = int(os.environ.get('VERIF_SEED', '0') or 0)
    faulthandler.enable()
    mod = importlib.import_module('vf.checks.' + pid.lower())

    if args.replay:
        # A replay re-executes the recorded tier and seed (the workloads are
        # seeded) with evidence redirected, and reports whether the recorded
        # mechanism key shows up again.
        import subprocess
        import tempfile
        with open(args.replay) as fh:
            rep = json.load(fh)
        print(json.dumps(rep, indent=1)[:4000])
        tmp = tempfile.mkdtemp(prefix='vf-replay-')
        env = dict(os.environ, VERIF_SEED=str(rep.get('seed', 0)),
                   VERIF_OUT=tmp)
        p = subprocess.run([sys.executable, '-m', 'vf.cli', pid, '--tier',
                            rep.get('tier', 'quick')], cwd=core.VERIF_DIR,
                           env=env, stdout=subprocess.PIPE,
                           stderr=subprocess.STDOUT)
        out = p.stdout.decode('utf-8', 'replace')
        again = ('key=%s:' % rep['key']) in out or \
            ('key=%s ' % rep['key']) in out
        import shutil
        shutil.rmtree(tmp, ignore_errors=True)
        print('replay of %s (tier %s, seed %s): %s' % (
            rep['key'], rep.get('tier'), rep.get('seed'),
            'REPRODUCED' if again else 'not reproduced in this run'))
        return 1 if again else 0

    shards_cfg = getattr(mod, 'SHARDS', {})
    nshards = args.shards or shards_cfg.get(args.tier, 1)
    if args.shard:
        i, n = map(int, args.shard.split('/'))
        core.load_repo()
        run = core.Run(pid, args.tier, seed, i, n)
        if os.environ.get('VERIF_LOG_DEBUG') == '1':
            # the application around the library logs everything (to nowhere)
            import logging
            logging.getLogger().addHandler(logging.NullHandler())
            logging.getLogger().setLevel(logging.DEBUG)
        run.seen('shard_environments', '%s%s' % (
            'python -O' if sys.flags.optimize else 'python',
            ', root logger at DEBUG'
            if os.environ.get('VERIF_LOG_DEBUG') == '1' else ''))
        mod.run(run)
        with open(args.frag, 'w') as fh:
            json.dump(run.to_fragment(), fh)
        return 0
    if nshards > 1:
        timeout = getattr(mod, 'SHARD_TIMEOUT', {}).get(
            args.tier, 600 if args.tier == 'quick' else 3600)
        run = core.run_sharded(pid, args.tier, seed, nshards, timeout)
    else:
        core.load_repo()
        run = core.Run(pid, args.tier, seed)
        mod.run(run)
    return run.finish()


if __name__ == '__main__':
    code = main()
    sys.stdout.flush()
    sys.stderr.flush()
    os._exit(code)
