"""Core of the runtime-verification framework: tree loading, seeded RNG streams,
the Run accumulator (cases, counters, violations, samples), evidence writer,
known-findings reader, verdict discipline and subprocess sharding."""
import hashlib
import json
import os
import random
import subprocess
import sys
import time
import traceback

VERIF_DIR = os.path.dirname(os.path.dirname(os.path.abspath(__file__)))
REPO = os.path.realpath(os.environ.get('VERIF_REPO', '/repo'))
FINDINGS_FILE = os.path.join(VERIF_DIR, 'KNOWN_FINDINGS.txt')
# VERIF_OUT redirects evidence and replays (used when the checks are pointed
# at a scratch copy, so that /verif/evidence only ever describes /repo)
_OUT = os.environ.get('VERIF_OUT') or VERIF_DIR
EVIDENCE_DIR = os.path.join(_OUT, 'evidence')
REPLAY_DIR = os.path.join(_OUT, 'replays')

EXIT_HELD, EXIT_VIOLATION, EXIT_INCONCLUSIVE = 0, 1, 2


def load_repo():
    """Put the tree under test first on sys.path and make sure that is what
    `import minecraft` resolves to (the current working tree, never a cached
    or installed copy)."""
    if sys.path[0] != REPO:
        sys.path.insert(0, REPO)
    for name in list(sys.modules):
        if name == 'minecraft' or name.startswith('minecraft.'):
            f = getattr(sys.modules[name], '__file__', '') or ''
            if not os.path.realpath(f).startswith(REPO + os.sep):
                del sys.modules[name]
    import minecraft
    got = os.path.realpath(minecraft.__file__)
    if not got.startswith(REPO + os.sep):
        raise SystemExit('minecraft imported from %s, not from %s' % (got, REPO))
    return minecraft


def _digest(key):
    h = hashlib.blake2b(repr(key).encode('utf-8', 'backslashreplace'),
                        digest_size=8).digest()
    return int.from_bytes(h, 'big')


def jsonable(o, depth=0):
    if depth > 6:
        return repr(o)[:200]
    if isinstance(o, (str, int, bool)) or o is None:
        return o
    if isinstance(o, float):
        return o if o == o and abs(o) != float('inf') else repr(o)
    if isinstance(o, (bytes, bytearray)):
        b = bytes(o)
        return 'hex:' + (b.hex() if len(b) <= 96 else
                         b[:64].hex() + '...(%d bytes)' % len(b))
    if isinstance(o, dict):
        return {str(k): jsonable(v, depth + 1) for k, v in list(o.items())[:60]}
    if isinstance(o, (list, tuple, set, frozenset)):
        seq = list(o)
        out = [jsonable(v, depth + 1) for v in seq[:60]]
        if len(seq) > 60:
            out.append('...(%d items)' % len(seq))
        return out
    return repr(o)[:300]


def load_findings(pid):
    """Returns ({key: text} for `finding:` lines, [fixed lines]) for pid."""
    findings, fixed = {}, []
    if not os.path.exists(FINDINGS_FILE):
        return findings, fixed
    for line in open(FINDINGS_FILE, encoding='utf-8'):
        line = line.strip()
        if not line or line.startswith('#'):
            continue
        if line.startswith('finding:'):
            parts = line[len('finding:'):].split()
            kv = dict(p.split('=', 1) for p in parts[:2] if '=' in p)
            if kv.get('property') == pid and 'key' in kv:
                findings[kv['key']] = ' '.join(parts[2:])
        elif line.startswith('fixed:'):
            if ('property=%s ' % pid) in line:
                fixed.append(line)
    return findings, fixed


class Run(object):
    """Accumulates what one check run observed."""

    def __init__(self, pid, tier, seed, shard=0, nshards=1):
        self.pid, self.tier, self.seed = pid, tier, seed
        self.shard, self.nshards = shard, nshards
        self.level = 'exploration'
        self.rule = ''
        self.exhaustive = False
        self.assumptions = []
        self.evaluations = 0
        self.digests = set()
        self.bulk_distinct = 0
        self.counters = {}
        self.sets = {}
        self.requirements = {}
        self.samples = []
        self.violations = {}       # key -> {'what','count','witnesses':[...]}
        self.inconclusive = []
        self.extra = {}
        self.t0 = time.monotonic()
        self.deadline = None

    # ---- random streams ------------------------------------------------
    def rng(self, name):
        return random.Random('%s/%s/%s/%s' % (self.pid, self.seed, self.shard,
                                               name))

    def mine(self, index):
        """True if case number `index` belongs to this shard."""
        return index % self.nshards == self.shard

    # ---- accounting ----------------------------------------------------
    def case(self, key=None, nontrivial=True):
        self.evaluations += 1
        if nontrivial and key is not None:
            self.digests.add(_digest(key))

    def bulk(self, evaluations, distinct):
        self.evaluations += evaluations
        self.bulk_distinct += distinct

    def count(self, name, n=1):
        self.counters[name] = self.counters.get(name, 0) + n

    def seen(self, name, value):
        """Record a member of a named set of distinct observed things."""
        s = self.sets.setdefault(name, set())
        if len(s) < 100000:
            s.add(value if isinstance(value, (str, int)) else repr(value))

    def require(self, name, minimum=1):
        """The run is inconclusive unless counter/set `name` reaches minimum
        (summed over shards)."""
        self.requirements[name] = max(minimum, self.requirements.get(name, 0))

    def sample(self, obj, limit=6):
        if len(self.samples) < limit:
            self.samples.append(jsonable(obj))

    def violation(self, key, what, witness=None):
        v = self.violations.setdefault(
            key, {'what': what, 'count': 0, 'witnesses': []})
        v['count'] += 1
        if len(v['witnesses']) < 3:
            v['witnesses'].append(jsonable(witness))

    def inconclusive_because(self, why):
        if len(self.inconclusive) < 50:
            self.inconclusive.append(why)

    def out_of_time(self):
        return self.deadline is not None and time.monotonic() > self.deadline

    # ---- fragments (shards) --------------------------------------------
    def to_fragment(self):
        return {
            'level': self.level, 'rule': self.rule,
            'exhaustive': self.exhaustive, 'assumptions': self.assumptions,
            'evaluations': self.evaluations, 'digests': sorted(self.digests),
            'bulk_distinct': self.bulk_distinct, 'counters': self.counters,
            'sets': {k: sorted(v, key=repr) for k, v in self.sets.items()},
            'requirements': self.requirements, 'samples': self.samples,
            'violations': self.violations, 'inconclusive': self.inconclusive,
            'extra': self.extra,
        }

    def merge_fragment(self, f):
        self.level = f['level']
        self.rule = f['rule']
        self.exhaustive = self.exhaustive or f['exhaustive']
        for a in f['assumptions']:
            if a not in self.assumptions:
                self.assumptions.append(a)
        self.evaluations += f['evaluations']
        self.digests.update(f['digests'])
        self.bulk_distinct += f['bulk_distinct']
        for k, n in f['counters'].items():
            self.counters[k] = self.counters.get(k, 0) + n
        for k, vs in f['sets'].items():
            self.sets.setdefault(k, set()).update(vs)
        for k, n in f['requirements'].items():
            self.requirements[k] = max(n, self.requirements.get(k, 0))
        for s in f['samples']:
            if len(self.samples) < 8:
                self.samples.append(s)
        for key, v in f['violations'].items():
            mine = self.violations.setdefault(
                key, {'what': v['what'], 'count': 0, 'witnesses': []})
            mine['count'] += v['count']
            mine['witnesses'] = (mine['witnesses'] + v['witnesses'])[:3]
        self.inconclusive.extend(f['inconclusive'])
        for k, v in f['extra'].items():
            self.extra.setdefault(k, v)

    # ---- verdict ---------------------------------------------------------
    def finish(self):
        """Write evidence, print verdict lines, return the exit code."""
        findings, fixed = load_findings(self.pid)
        for name, minimum in self.requirements.items():
            have = self.counters.get(name)
            if have is None and name in self.sets:
                have = len(self.sets[name])
            if (have or 0) < minimum:
                self.inconclusive.append(
                    'monitor %r observed %s events, needs >= %d'
                    % (name, have or 0, minimum))
        distinct = len(self.digests) + self.bulk_distinct
        if self.evaluations == 0 or distinct < 2:
            self.inconclusive.append('too few cases: %d evaluations, %d '
                                     'distinct' % (self.evaluations, distinct))
        known, unknown = [], []
        for key, v in sorted(self.violations.items()):
            (known if key in findings else unknown).append((key, v))
        lines = []
        for key, v in known:
            lines.append('KNOWN-FINDING: property=%s key=%s %s (%d cases)'
                         % (self.pid, key, v['what'], v['count']))
        replay_paths = []
        rdir = os.path.join(REPLAY_DIR, self.pid)
        if os.path.isdir(rdir):          # replays of earlier runs are stale
            for old in os.listdir(rdir):
                try:
                    os.unlink(os.path.join(rdir, old))
                except OSError:
                    pass
        if unknown:
            os.makedirs(rdir, exist_ok=True)
        for key, v in unknown:
            name = hashlib.sha1(key.encode()).hexdigest()[:12] + '.json'
            path = os.path.join(REPLAY_DIR, self.pid, name)
            with open(path, 'w') as fh:
                json.dump({'property': self.pid, 'key': key,
                           'what': v['what'], 'count': v['count'],
                           'seed': self.seed, 'tier': self.tier,
                           'witnesses': v['witnesses']}, fh, indent=1)
            replay_paths.append(path)
            lines.append('VIOLATION property=%s replay=%s' % (self.pid, path))
            lines.append('  key=%s: %s (%d cases)' % (key, v['what'],
                                                      v['count']))
        if unknown:
            code = EXIT_VIOLATION
        elif self.inconclusive:
            code = EXIT_INCONCLUSIVE
            for why in self.inconclusive[:10]:
                lines.append('INCONCLUSIVE property=%s %s' % (self.pid, why))
        else:
            code = EXIT_HELD
        wall = time.monotonic() - self.t0
        coverage = {
            'evaluations': self.evaluations,
            'distinct_nontrivial': distinct,
            'rule': self.rule,
            'samples': self.samples or ['(none recorded)'],
            'exhaustive': bool(self.exhaustive),
            'observed': dict(sorted(self.counters.items())),
            'distinct_observed': {k: len(v) for k, v in
                                  sorted(self.sets.items())},
            'shards': self.nshards,
            'verdict': ('violated' if unknown else 'inconclusive'
                        if self.inconclusive else 'held on what was observed'),
            'known_findings_seen': [k for k, _ in known],
            'inconclusive_reasons': self.inconclusive[:10],
        }
        coverage.update(self.extra)
        evidence = {
            'property_id': self.pid, 'tier': self.tier, 'seed': self.seed,
            'level': self.level, 'coverage': coverage,
            'assumptions': self.assumptions, 'wall_s': round(wall, 3),
            'violations': len(unknown),
        }
        os.makedirs(EVIDENCE_DIR, exist_ok=True)
        with open(os.path.join(EVIDENCE_DIR, self.pid + '.json'), 'w') as fh:
            json.dump(evidence, fh, indent=1, sort_keys=True)
            fh.write('\n')
        for line in lines:
            print(line)
        print('%s %s tier=%s seed=%d: %s; %d evaluations, %d distinct, '
              '%.1fs' % (self.pid, REPO, self.tier, self.seed,
                         coverage['verdict'], self.evaluations, distinct,
                         wall))
        sys.stdout.flush()
        return code


def run_sharded(pid, tier, seed, nshards, shard_timeout):
    """Run `nshards` subprocess shards and merge their fragments."""
    import tempfile
    parent = Run(pid, tier, seed, 0, nshards)
    tmp = tempfile.mkdtemp(prefix='vf-%s-' % pid)
    procs = []
    try:
        for i in range(nshards):
            frag = os.path.join(tmp, 'frag%d.json' % i)
            # environment matrix: the shards of a check do not all run in the
            # same kind of interpreter.  Odd shards are started with -O
            # (assert statements compiled away), shards 2, 3 (mod 4) run with
            # the application's root logger at DEBUG.  Which cases land in
            # which shard changes with the seed.  VERIF_ENV_MATRIX=0 switches
            # this off (all shards plain).
            matrix = os.environ.get('VERIF_ENV_MATRIX', '1') != '0'
            flags = ['-O'] if matrix and i % 2 == 1 else []
            cmd = [sys.executable] + flags + [
                '-m', 'vf.cli', pid, '--tier', tier,
                '--shard', '%d/%d' % (i, nshards), '--frag', frag]
            env = dict(os.environ, VERIF_SEED=str(seed))
            env['VERIF_LOG_DEBUG'] = '1' if matrix and i % 4 >= 2 else '0'
            log = open(os.path.join(tmp, 'log%d.txt' % i), 'w+')
            procs.append((i, frag, log, subprocess.Popen(
                cmd, cwd=VERIF_DIR, env=env, stdout=log,
                stderr=subprocess.STDOUT)))
        deadline = time.monotonic() + shard_timeout
        for i, frag, log, p in procs:
            try:
                p.wait(timeout=max(1, deadline - time.monotonic()))
            except subprocess.TimeoutExpired:
                p.kill()
                p.wait()
                parent.inconclusive_because(
                    'shard %d exceeded the %ds watchdog' % (i, shard_timeout))
                continue
            if os.path.exists(frag):
                with open(frag) as fh:
                    parent.merge_fragment(json.load(fh))
            else:
                log.seek(0)
                tail = '\n'.join(
                    ln for ln in log.read().split('\n')
                    if 'DeprecationWarning' not in ln
                    and 'cipher = Cipher(' not in ln)[-1500:]
                parent.inconclusive_because(
                    'shard %d died (exit %s): %s' % (i, p.returncode, tail))
    finally:
        for _i, _frag, log, p in procs:
            if p.poll() is None:
                p.kill()
            log.close()
        import shutil
        shutil.rmtree(tmp, ignore_errors=True)
    return parent


def guarded(run, key_prefix, fn, *args):
    """Call fn; an unexpected harness-side exception makes the run
    inconclusive (never a silent pass, never a violation)."""
    try:
        return fn(*args)
    except Exception:
        run.inconclusive_because('%s: harness error: %s' % (
            key_prefix, traceback.format_exc()[-800:]))
