"""Packet codecs for the independent server.

RefCodec: release protocols, fully independent (vf.ref.core_packets).
TreeCodec: non-release versions, for which no independent table exists: ids
and layouts are read from the tree under test (declared in the evidence); only
behaviour (echoes, order, exactly-once) is then judged independently.
"""
from ..ref import core_packets as ref

ATTR = {
    'handshake': ('serverbound.handshake', 'HandShakePacket', {
        'protocol': 'protocol_version', 'host': 'server_address',
        'port': 'server_port', 'next_state': 'next_state'}),
    'status_request': ('serverbound.status', 'RequestPacket', {}),
    'status_response': ('clientbound.status', 'ResponsePacket',
                        {'json': 'json_response'}),
    'status_ping': ('serverbound.status', 'PingPacket', {'payload': 'time'}),
    'status_pong': ('clientbound.status', 'PingResponsePacket',
                    {'payload': 'time'}),
    'login_start': ('serverbound.login', 'LoginStartPacket', {'name': 'name'}),
    'encryption_request': ('clientbound.login', 'EncryptionRequestPacket', {
        'server_id': 'server_id', 'public_key': 'public_key',
        'verify_token': 'verify_token'}),
    'encryption_response': ('serverbound.login', 'EncryptionResponsePacket', {
        'shared_secret': 'shared_secret', 'verify_token': 'verify_token'}),
    'login_success': ('clientbound.login', 'LoginSuccessPacket', {
        'uuid': 'UUID', 'username': 'Username'}),
    'set_compression': ('clientbound.login', 'SetCompressionPacket',
                        {'threshold': 'threshold'}),
    'login_disconnect': ('clientbound.login', 'DisconnectPacket',
                         {'reason': 'json_data'}),
    'plugin_request': ('clientbound.login', 'PluginRequestPacket', {
        'message_id': 'message_id', 'channel': 'channel', 'data': 'data'}),
    'plugin_response': ('serverbound.login', 'PluginResponsePacket', {
        'message_id': 'message_id', 'successful': 'successful',
        'data': 'data'}),
    'cb_keep_alive': ('clientbound.play', 'KeepAlivePacket',
                      {'id': 'keep_alive_id'}),
    'cb_chat': ('clientbound.play', 'ChatMessagePacket', {
        'json': 'json_data', 'position': 'position', 'sender': 'sender'}),
    'cb_position_look': ('clientbound.play', 'PlayerPositionAndLookPacket', {
        'x': 'x', 'y': 'y', 'z': 'z', 'yaw': 'yaw', 'pitch': 'pitch',
        'flags': 'flags', 'teleport_id': 'teleport_id',
        'dismount': 'dismount_vehicle'}),
    'play_disconnect': ('clientbound.play', 'DisconnectPacket',
                        {'reason': 'json_data'}),
    'time_update': ('clientbound.play', 'TimeUpdatePacket', {
        'world_age': 'world_age', 'time_of_day': 'time_of_day'}),
    'teleport_confirm': ('serverbound.play', 'TeleportConfirmPacket',
                         {'teleport_id': 'teleport_id'}),
    'sb_chat': ('serverbound.play', 'ChatPacket', {'message': 'message'}),
    'sb_keep_alive': ('serverbound.play', 'KeepAlivePacket',
                      {'id': 'keep_alive_id'}),
    'sb_position_look': ('serverbound.play', 'PositionAndLookPacket', {
        'x': 'x', 'feet_y': 'feet_y', 'z': 'z', 'yaw': 'yaw',
        'pitch': 'pitch', 'on_ground': 'on_ground'}),
}

STATE_SB = {
    'handshake': ['handshake'],
    'status': ['status_request', 'status_ping'],
    'login': ['login_start', 'encryption_response', 'plugin_response'],
    'play': ['teleport_confirm', 'sb_chat', 'sb_keep_alive',
             'sb_position_look'],
}


def _cls(path, name):
    import importlib
    mod = importlib.import_module('minecraft.networking.packets.' + path)
    return getattr(mod, name)


class TreeCodec(object):
    independent = False

    def __init__(self, pv):
        from minecraft.networking.connection import ConnectionContext
        self.pv = pv
        self.ctx = ConnectionContext(protocol_version=pv)

    def packet_id(self, name):
        path, cname, _m = ATTR[name]
        return _cls(path, cname).get_id(self.ctx)

    def encode(self, name, values):
        from minecraft.networking.packets import PacketBuffer
        path, cname, amap = ATTR[name]
        K = _cls(path, cname)
        p = K(context=self.ctx)
        for f, v in values.items():
            if f in amap:
                setattr(p, amap[f], v)
        buf = PacketBuffer()
        try:
            p.write_fields(buf)
            return K.get_id(self.ctx), buf.get_writable()
        except Exception:
            # the tree's own encoder refuses a value the harness wants to
            # put on the wire: encode the plain definition independently (the
            # field *types* are still taken from the tree)
            payload = self._encode_by_definition(K, p)
            if payload is None:
                raise
            return K.get_id(self.ctx), payload

    _CODES = {'VarInt': 'varint', 'VarLong': 'varlong', 'Long': 'long',
              'Integer': 'int', 'Short': 'short', 'UnsignedShort': 'ushort',
              'Byte': 'byte', 'UnsignedByte': 'ubyte', 'Boolean': 'bool',
              'Float': 'float', 'Double': 'double', 'String': 'string',
              'UUID': 'uuid', 'VarIntPrefixedByteArray': 'bytes_v'}

    def _encode_by_definition(self, K, p):
        try:
            definition = K.get_definition(self.ctx)
        except Exception:
            return None
        if definition is None:
            return None
        out = b''
        for field in definition:
            for attr, typ in field.items():
                code = self._CODES.get(getattr(typ, '__name__', None))
                if code is None:
                    return None
                v = getattr(p, attr)
                if code in ('varint', 'varlong') and v < 0:
                    v &= (1 << (32 if code == 'varint' else 64)) - 1
                out += ref.encode_field(code, v)
        return out

    def has_field(self, name, field):
        path, cname, amap = ATTR[name]
        K = _cls(path, cname)
        try:
            names = [n for d in K.get_definition(self.ctx) for n in d]
        except Exception:
            return True
        return amap.get(field) in names

    def decode(self, state, pid, payload):
        from minecraft.networking.packets import PacketBuffer
        for name in STATE_SB[state]:
            path, cname, amap = ATTR[name]
            K = _cls(path, cname)
            try:
                if K.get_id(self.ctx) != pid:
                    continue
                if state == 'play' and name == 'teleport_confirm' and \
                        not self.ctx.protocol_later_eq(107):
                    continue
                if name == 'plugin_response' and \
                        not self.ctx.protocol_later_eq(385):
                    continue
            except Exception:
                continue
            buf = PacketBuffer()
            buf.send(payload)
            buf.reset_cursor()
            q = K(context=self.ctx)
            q.read(buf)
            if buf.read():
                raise ValueError('unread bytes in %s' % name)
            return name, {f: getattr(q, a) for f, a in amap.items()
                          if hasattr(q, a)}
        return 'unknown', {'id': pid, 'payload': payload}


class RefCodec(object):
    independent = True

    def __init__(self, pv):
        self.pv = pv

    def packet_id(self, name):
        if name in _EXTRA:
            return _EXTRA[name](self.pv)[0]
        return ref.layout(name, self.pv)[0]

    def has_field(self, name, field):
        lay = _EXTRA[name](self.pv) if name in _EXTRA else \
            ref.layout(name, self.pv)
        return any(f == field for f, _c in lay[1])

    def encode(self, name, values):
        if name in _EXTRA:
            pid, fields = _EXTRA[name](self.pv)
            return pid, b''.join(
                values[f] if c == 'rest' else ref.encode_field(c, values[f])
                for f, c in fields)
        pid, fields = ref.layout(name, self.pv)
        return pid, b''.join(ref.encode_field(c, values[f])
                             for f, c in fields)

    def decode(self, state, pid, payload):
        if state == 'login' and self.pv >= 393 and pid == 0x02:
            mid, p = ref.varint.decode(payload, 0)
            ok = payload[p:p + 1] != b'\x00'
            return 'plugin_response', {
                'message_id': mid, 'successful': ok,
                'data': bytes(payload[p + 1:]) if ok else None,
                'trailing_when_unsuccessful': len(payload) - p - 1
                if not ok else 0}
        name = ref.identify(state, self.pv, pid)
        if name is None:
            return 'unknown', {'id': pid, 'payload': payload}
        return name, ref.decode(name, self.pv, payload)


def _plugin_request(pv):
    # login plugin request: 0x04 from 1.13 (393) on
    return 0x04, [('message_id', 'varint'), ('channel', 'string'),
                  ('data', 'rest')]


def _time_update(pv):
    ids = [(47, 0x03), (107, 0x44), (335, 0x46), (338, 0x47), (393, 0x4A),
           (477, 0x4E), (573, 0x4F), (735, 0x4E), (755, 0x58)]
    return ref._era(pv, ids), [('world_age', 'long'), ('time_of_day', 'long')]


_EXTRA = {'plugin_request': _plugin_request, 'time_update': _time_update}


def codec_for(pv):
    return RefCodec(pv) if pv in ref.RELEASES else TreeCodec(pv)
