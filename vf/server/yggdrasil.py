"""Local HTTP stand-in for the Yggdrasil authentication / session services.
Replies are scripted per request; every request is recorded."""
import http.server
import json
import threading


class Stub(object):
    def __init__(self, responder=None):
        self.requests = []       # dicts: method, path, headers, body, json
        self.responder = responder or (lambda req: (204, b'', {}))
        self.lock = threading.Lock()
        stub = self

        class Handler(http.server.BaseHTTPRequestHandler):
            protocol_version = 'HTTP/1.1'

            def log_message(self, *a):
                pass

            def _serve(self):
                n = int(self.headers.get('Content-Length') or 0)
                body = self.rfile.read(n) if n else b''
                req = {'method': self.command, 'path': self.path,
                       'headers': {k.lower(): v for k, v in
                                   self.headers.items()},
                       'body': body}
                try:
                    req['json'] = json.loads(body.decode('utf-8'))
                except Exception:
                    req['json'] = None
                with stub.lock:
                    stub.requests.append(req)
                status, payload, headers = stub.responder(req)
                self.send_response(status)
                headers = dict(headers or {})
                headers.setdefault('Content-Length', str(len(payload)))
                if payload and 'Content-Type' not in headers:
                    headers['Content-Type'] = 'application/json'
                for k, v in headers.items():
                    self.send_header(k, v)
                self.end_headers()
                if payload and status not in (204, 304):
                    self.wfile.write(payload)

            do_POST = do_GET = do_PUT = _serve

        self.httpd = http.server.ThreadingHTTPServer(('127.0.0.1', 0), Handler)
        self.httpd.daemon_threads = True
        self.port = self.httpd.server_address[1]
        self.base = 'http://127.0.0.1:%d' % self.port
        self.thread = threading.Thread(target=self.httpd.serve_forever,
                                       name='ygg-stub', daemon=True)
        self.thread.start()

    def install(self):
        """Point the library at this stub (module globals are the hook)."""
        from minecraft import authentication
        self._saved = (authentication.AUTH_SERVER,
                       authentication.SESSION_SERVER)
        authentication.AUTH_SERVER = self.base + '/auth'
        authentication.SESSION_SERVER = self.base + '/session/minecraft'

    def uninstall(self):
        from minecraft import authentication
        authentication.AUTH_SERVER, authentication.SESSION_SERVER = self._saved

    def stop(self):
        self.httpd.shutdown()
        self.httpd.server_close()
