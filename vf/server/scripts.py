"""Reusable pieces of server scripts (status exchange, login, play traffic)."""
import json

from ..ref import core_packets as ref
from .codec import codec_for


from ..ref.framing import FrameError


class ProtocolViolation(FrameError):
    """The client sent something the script does not admit at this point (an
    unparseable or unexpected frame).  Recorded by the server like a framing
    error: it is a fact about the client's bytes, not a script failure."""


def read_handshake(io, timeout=5.0):
    f = io.recv_frame(timeout)
    if f is None:
        return None
    pid, payload, _info = f
    if pid != 0:
        raise ProtocolViolation('first frame id %d, not a handshake' % pid)
    try:
        return ref.decode('handshake', 47, payload)   # same layout everywhere
    except (EOFError, ValueError, UnicodeDecodeError) as e:
        raise ProtocolViolation('first frame is not a well-formed handshake: '
                                '%r (payload %s)' % (e, bytes(payload[:24]).hex()))


def status_exchange(io, status_obj, raw_json=None, answer_ping=True,
                    before_pong=None):
    """Serve a status request (and ping).  Returns dict of what was seen."""
    seen = {'request': False, 'ping': None}
    f = io.recv_frame()
    if f is None:
        return seen
    pid, payload, _ = f
    if pid != 0 or payload:
        raise ProtocolViolation('expected status request, got id %d' % pid)
    seen['request'] = True
    text = raw_json if raw_json is not None else json.dumps(status_obj)
    io.send_frame(0x00, ref.encode_field('string', text))
    f = io.recv_frame()
    if f is None:
        return seen
    pid, payload, _ = f
    if pid == 1 and len(payload) == 8:
        seen['ping'] = payload
        if before_pong is not None:
            before_pong()
        if answer_ping:
            io.send_frame(0x01, payload)
    else:
        raise ProtocolViolation('expected ping, got id %d' % pid)
    return seen


def login_offline(io, pv, threshold=None, codec=None, name_out=None,
                  encrypted=False):
    """Expect login start; optionally switch on encryption and compression;
    send login success.  The handshake must already have been read.  Returns
    the login name."""
    codec = codec or codec_for(pv)
    f = io.recv_frame()
    if f is None:
        raise ProtocolViolation('client closed before login start')
    pid, payload, _ = f
    name, vals = codec.decode('login', pid, payload)
    if name != 'login_start':
        raise ProtocolViolation('expected login start, got %s' % name)
    if encrypted:
        encryption_exchange(io, codec)
    if threshold is not None:
        cid, cp = codec.encode('set_compression', {'threshold': threshold})
        io.send_frame(cid, cp)
        io.enable_compression(threshold)
    send_login_success(io, pv, codec)
    return vals['name']


def send_login_success(io, pv, codec):
    uuid = '11111111-2222-3333-4444-555555555555'
    sid, sp = codec.encode('login_success', {'uuid': uuid,
                                             'username': 'vfuser'})
    io.send_frame(sid, sp)


_KEYS = {}


def server_key(bits=1024):
    """(private key, DER SubjectPublicKeyInfo) - generated once per process."""
    if bits not in _KEYS:
        from cryptography.hazmat.primitives import serialization
        from cryptography.hazmat.primitives.asymmetric import rsa
        key = rsa.generate_private_key(public_exponent=65537, key_size=bits)
        der = key.public_key().public_bytes(
            serialization.Encoding.DER,
            serialization.PublicFormat.SubjectPublicKeyInfo)
        _KEYS[bits] = (key, der)
    return _KEYS[bits]


def encryption_exchange(io, codec, server_id='-', token=b'\x01\x02\x03\x04',
                        bits=1024, label=None, plugin_request_first=None):
    """Send an encryption request, read the response *in plaintext framing*,
    recover secret and token with the private key and switch both directions
    to AES/CFB8.  Returns a dict of what was observed."""
    from cryptography.hazmat.primitives.asymmetric.padding import PKCS1v15
    key, der = server_key(bits)
    rid, rp = codec.encode('encryption_request', {
        'server_id': server_id, 'public_key': der, 'verify_token': token})
    plugin_answers = []
    if plugin_request_first is not None:
        # a login plugin request and the encryption request in one segment:
        # the answer to the former may come before the encryption response
        # (in the clear) or after it (encrypted) - never in between states
        qid, qp = codec.encode('plugin_request', {
            'message_id': plugin_request_first, 'channel': 'vf:first',
            'data': b''})
        io.send_raw(io.encode_frame(qid, qp) + io.encode_frame(rid, rp))
    else:
        io.send_frame(rid, rp, label=label or 'encryption_request')
    raw_before = len(io.raw)
    while True:
        f = io.recv_frame()
        if f is None:
            raise ProtocolViolation('client closed instead of answering the '
                                    'encryption request')
        pid, payload, _ = f
        name, vals = codec.decode('login', pid, payload)
        if name == 'plugin_response' and plugin_request_first is not None \
                and not plugin_answers:
            plugin_answers.append(('plain', vals))
            continue
        break
    if name != 'encryption_response':
        raise ProtocolViolation('expected encryption response, got %s (id %d)'
                                % (name, pid))
    obs = {'response_plain': True, 'raw_before': raw_before}
    try:
        secret = key.decrypt(vals['shared_secret'], PKCS1v15())
        tok = key.decrypt(vals['verify_token'], PKCS1v15())
    except Exception as e:
        raise ProtocolViolation('cannot decrypt secret/token: %r' % e)
    obs.update(secret=secret, token=tok, token_ok=tok == token)
    io.enable_encryption(secret)
    if plugin_request_first is not None and not plugin_answers:
        f = io.recv_frame()
        if f is None:
            raise ProtocolViolation('no answer to the plugin request')
        name, vals = codec.decode('login', f[0], f[1])
        if name != 'plugin_response' or \
                vals.get('message_id') != plugin_request_first:
            raise ProtocolViolation(
                'after the encryption response the (decrypted) stream does '
                'not continue with the plugin answer: %s id %d' % (name, f[0]))
        plugin_answers.append(('encrypted', vals))
    obs['plugin_answers'] = plugin_answers
    return obs
