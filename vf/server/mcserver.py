"""Scripted independent Minecraft peer over real loop-back TCP.

Built on vf.ref only (framing, CFB8, core packet table).  A handler function
drives each accepted connection through a ConnIO, which records every byte
received (raw and decrypted), every parsed frame and the logical time of
accept / EOF.  It can fragment what it sends, cut at a byte offset, half-close
and drain, close abruptly, and refuse connections.
"""
import socket
import struct
import threading
import time

from ..ref import cfb8, framing, varint


class CutReached(Exception):
    """The scripted byte budget is exhausted: the server stops sending here."""


class ScriptTimeout(Exception):
    """The client sent nothing within the script's patience: a fact about the
    conversation, decided by the caller (usually inconclusive)."""


class ConnIO(object):
    def __init__(self, sock, index, server):
        self.sock, self.index, self.server = sock, index, server
        self.raw = bytearray()        # bytes exactly as received
        self.plain = bytearray()      # after decryption
        self.pos = 0
        self.threshold = None         # compression threshold once enabled
        self.enc = self.dec = None
        self.frames = []              # every parsed serverbound frame
        self.eof = False
        self.reset = False
        self.sent = bytearray()       # plaintext bytes sent
        self.sent_wire = 0
        self.send_budget = None       # total wire bytes this peer may send
        self.frame_log = []           # (label, wire start, wire end, complete)
        self.partial_at_eof = 0
        self.error = None
        self.closed = False
        self.t_accept = time.monotonic()
        self.t_eof = None
        try:
            sock.setsockopt(socket.IPPROTO_TCP, socket.TCP_NODELAY, 1)
        except OSError:
            pass

    # ---- receiving -----------------------------------------------------
    def _fill(self, timeout):
        self.sock.settimeout(timeout)
        try:
            data = self.sock.recv(65536)
        except socket.timeout:
            raise ScriptTimeout('no data from client for %.1fs' % timeout)
        except (ConnectionResetError, BrokenPipeError, OSError):
            data = b''
            self.reset = True
        if not data:
            self.eof = True
            self.t_eof = time.monotonic()
            return False
        self.raw += data
        self.plain += self.dec.decrypt(data) if self.dec else data
        return True

    def recv_frame(self, timeout=5.0):
        """Next (id, payload, info), or None when the client closed."""
        while True:
            frames, leftover = framing.parse_stream(
                bytes(self.plain[self.pos:self.pos + self._next_len()]),
                compressed=self.threshold is not None,
                threshold=self.threshold)
            if frames:
                pid, payload, info = frames[0]
                self.pos += info['frame_len']
                self.frames.append((pid, payload, info))
                return pid, payload, info
            if self.eof:
                self.partial_at_eof = len(self.plain) - self.pos
                return None
            self._fill(timeout)

    def _next_len(self):
        """Number of buffered bytes forming at most the first frame."""
        buf = bytes(self.plain[self.pos:self.pos + 5])
        try:
            n, p = varint.decode(buf, 0)
        except EOFError:
            return 5
        return p + n

    def drain(self, timeout=5.0):
        """Read frames until the client closes; returns them."""
        out = []
        while True:
            f = self.recv_frame(timeout)
            if f is None:
                return out
            out.append(f)

    def wait_eof(self, timeout=5.0):
        """Consume bytes (unparsed) until EOF."""
        while not self.eof:
            self._fill(timeout)

    # ---- sending ---------------------------------------------------------
    def send_raw(self, data, fragments=None, delay=0.0):
        """Send plaintext bytes (encrypted if enabled), optionally in
        fragments of the given sizes (cyclic)."""
        self.sent += data
        wire = self.enc.encrypt(data) if self.enc else data
        cut = False
        if self.send_budget is not None:
            allowed = max(0, self.send_budget - self.sent_wire)
            if len(wire) > allowed:
                wire, cut = wire[:allowed], True
        try:
            if not fragments:
                self.sock.sendall(wire)
            else:
                i, k = 0, 0
                while i < len(wire):
                    n = max(1, fragments[k % len(fragments)])
                    self.sock.sendall(wire[i:i + n])
                    i += n
                    k += 1
                    if delay:
                        time.sleep(delay)
            self.sent_wire += len(wire)
        except (BrokenPipeError, ConnectionResetError, OSError) as e:
            self.error = e
            if cut:
                raise CutReached()
            return False
        if cut:
            raise CutReached()
        return True

    def encode_frame(self, pid, payload, compress_at=None):
        return framing.frame(pid, payload, self.threshold, compress_at)

    def send_frame(self, pid, payload, fragments=None, compress_at=None,
                   label=None):
        data = self.encode_frame(pid, payload, compress_at)
        start = self.sent_wire
        entry = [label if label is not None else pid, start,
                 start + len(data), False]
        self.frame_log.append(entry)
        ok = self.send_raw(data, fragments)
        entry[3] = True
        return ok

    def enable_compression(self, threshold):
        self.threshold = threshold

    def enable_encryption(self, secret):
        self.enc = cfb8.CFB8(secret, secret)
        self.dec = cfb8.CFB8(secret, secret)
        # anything already buffered after the switch point was ciphertext
        pending = bytes(self.plain[self.pos:])
        if pending:
            del self.plain[self.pos:]
            self.plain += self.dec.decrypt(pending)

    # ---- closing -----------------------------------------------------------
    def half_close(self):
        try:
            self.sock.shutdown(socket.SHUT_WR)
        except OSError:
            pass

    def unacked(self):
        """Bytes written by us that the peer's kernel has not acknowledged
        yet (SIOCOUTQ); None if unknown."""
        import fcntl
        import termios
        try:
            return struct.unpack('i', fcntl.ioctl(
                self.sock.fileno(), termios.TIOCOUTQ, b'\0\0\0\0'))[0]
        except OSError:
            return None

    def wait_delivered(self, timeout=5.0):
        """True once everything sent so far has reached the peer's kernel."""
        t_end = time.monotonic() + timeout
        while time.monotonic() < t_end:
            n = self.unacked()
            if n == 0:
                return True
            if n is None:
                return False
            time.sleep(0.001)
        return False

    def close(self, abrupt=False):
        if self.closed:
            return
        self.closed = True
        try:
            if abrupt:
                # (an abortive close discards what has not been sent yet)
                self.all_delivered_before_reset = self.wait_delivered()
                self.sock.setsockopt(socket.SOL_SOCKET, socket.SO_LINGER,
                                     struct.pack('ii', 1, 0))
            self.sock.close()
        except OSError:
            pass


class Server(object):
    """Accepts connections on 127.0.0.1 and runs handler(io) for each in its
    own thread.  handler exceptions are recorded in io.error / self.errors."""

    def __init__(self, handler, backlog=16):
        self.handler = handler
        self.lsock = socket.socket(socket.AF_INET, socket.SOCK_STREAM)
        self.lsock.setsockopt(socket.SOL_SOCKET, socket.SO_REUSEADDR, 1)
        self.lsock.bind(('127.0.0.1', 0))
        self.lsock.listen(backlog)
        self.port = self.lsock.getsockname()[1]
        self.connections = []
        self.errors = []
        self.threads = []
        self.lock = threading.Lock()
        self.stopping = False
        self.acceptor = threading.Thread(target=self._accept_loop,
                                         name='srv-accept', daemon=True)
        self.acceptor.start()

    def _accept_loop(self):
        while not self.stopping:
            try:
                sock, _addr = self.lsock.accept()
            except OSError:
                return
            if self.stopping:
                sock.close()
                return
            with self.lock:
                io = ConnIO(sock, len(self.connections), self)
                self.connections.append(io)
            t = threading.Thread(target=self._run, args=(io,),
                                 name='srv-conn%d' % io.index, daemon=True)
            # listed before it is started (start() yields to other threads, so
            # a join() in between must already see it); join() copes with a
            # thread that has not been started yet
            self.threads.append(t)
            t.start()

    def _run(self, io):
        try:
            self.handler(io)
        except CutReached:
            pass
        except ScriptTimeout as e:
            io.error = e
            self.errors.append((io.index, 'timeout', str(e)))
        except framing.FrameError as e:
            io.error = e
            self.errors.append((io.index, 'frame', str(e)))
        except Exception as e:        # script bug: surfaces as inconclusive
            import traceback
            io.error = e
            self.errors.append((io.index, 'script',
                                traceback.format_exc()[-600:]))
        finally:
            io.close()

    def join(self, timeout=10.0):
        """Wait for all connection handlers to finish; True if they did."""
        deadline = time.monotonic() + timeout
        for t in list(self.threads):
            while t.ident is None and time.monotonic() < deadline:
                time.sleep(0.001)            # listed, about to be started
            if t.ident is not None:
                t.join(max(0.0, deadline - time.monotonic()))
        return not any(t.is_alive() for t in self.threads)

    def refuse_from_now(self):
        """Stop listening but keep the port bound: further connection attempts
        are refused, and no other process can take the port meanwhile."""
        self.stopping = True
        try:
            self.lsock.shutdown(socket.SHUT_RDWR)
        except OSError:
            pass
        self.acceptor.join(2.0)

    def stop(self):
        self.stopping = True
        # closing a listening socket does not wake a thread blocked in
        # accept(); shutdown() does (the accept loop must really end, or it
        # would go on accepting on whatever socket re-uses the descriptor)
        try:
            self.lsock.shutdown(socket.SHUT_RDWR)
        except OSError:
            pass
        try:
            self.lsock.close()
        except OSError:
            pass
        self.acceptor.join(2.0)
        for io in list(self.connections):
            io.close()


class RefusingPort(object):
    """A loop-back port that refuses connections for as long as this object
    lives: the socket is bound but never listens, so nothing else can take the
    port meanwhile (a merely closed port could be re-used by another process
    of a parallel run)."""

    def __init__(self):
        self.sock = socket.socket(socket.AF_INET, socket.SOCK_STREAM)
        self.sock.bind(('127.0.0.1', 0))
        self.port = self.sock.getsockname()[1]

    def close(self):
        self.sock.close()


def closed_port():
    """A loop-back port on which nothing listens (connect is refused)."""
    s = socket.socket(socket.AF_INET, socket.SOCK_STREAM)
    s.bind(('127.0.0.1', 0))
    port = s.getsockname()[1]
    s.close()
    return port
