#!/bin/bash
# Runs the repository's pinned test suite (guard off) and prints pass/fail counts.
cd /repo && exec /venv/bin/python -m pytest -ra -q -p no:cacheprovider --timeout=900 --continue-on-collection-errors "$@"
