#!/bin/bash
# tools/sweep.sh <tier> <seed...> : runs every check at the tier for each seed, prints one line per run
tier=$1; shift
for seed in "$@"; do
  for i in 01 02 03 04 05 06 07 08 09 10 11 12 13 14 15 16 17 18 19 20; do
    out=$(VERIF_SEED=$seed VERIF_OUT=${VERIF_OUT:-} ./check C$i --tier $tier 2>&1); rc=$?
    echo "seed=$seed C$i rc=$rc $(echo "$out" | tail -1 | cut -c1-160)"
    if [ $rc -ne 0 ]; then echo "$out" | grep -E "VIOLATION|INCONCLUSIVE|key=" | head -8 | cut -c1-300; fi
  done
done
