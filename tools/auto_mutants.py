#!/usr/bin/env python3
"""Systematic mutation run: generates AST-level mutants of the library sources
(comparison flips, and/or, negated conditions, +-1 on integer constants,
arithmetic/bit operator swaps, True/False, deleted statements), keeps those
that leave the 87 pinned tests passing, and runs the quick tier of the checks
that guard the mutated file against each (first catch wins).  Survivors are
the interesting output: each is either equivalent, outside the 20 properties,
or a gap in a workload.

  tools/auto_mutants.py --list                     # how many mutants per file
  tools/auto_mutants.py --sample 300 --seed 1 --jobs 4 --out /tmp/am.jsonl
  tools/auto_mutants.py --only minecraft/networking/connection.py:612

Scratch copies live under a temporary directory and are removed."""
import argparse
import ast
import json
import os
import random
import re
import shutil
import subprocess
import sys
import tempfile
import time
from concurrent.futures import ThreadPoolExecutor

HERE = os.path.dirname(os.path.dirname(os.path.abspath(__file__)))
sys.path.insert(0, os.path.join(HERE, 'tools'))
from run_mutants import run_tests  # noqa: E402

REPO = '/repo'
ALL = ['C%02d' % i for i in range(1, 21)]

# which checks guard which file, most likely catcher first
GUARDS = [
    (r'networking/connection\.py$',
     ['C11', 'C10', 'C09', 'C13', 'C14', 'C15', 'C16', 'C12', 'C01', 'C06',
      'C18', 'C08']),
    (r'networking/encryption\.py$', ['C18', 'C17', 'C10', 'C11', 'C01']),
    (r'authentication\.py$', ['C19', 'C10']),
    (r'types/basic\.py$', ['C02', 'C03', 'C04', 'C05', 'C01', 'C07', 'C11']),
    (r'types/utility\.py$', ['C20', 'C04', 'C05', 'C07']),
    (r'types/enum\.py$', ['C20', 'C05']),
    (r'packets/packet\.py$', ['C01', 'C05', 'C07', 'C06', 'C12']),
    (r'packets/packet_buffer\.py$', ['C01', 'C02', 'C05', 'C11']),
    (r'packets/packet_listener\.py$', ['C13', 'C14']),
    (r'packets/keep_alive_packet\.py$', ['C11', 'C05', 'C07', 'C06']),
    (r'packets/plugin_message_packet\.py$', ['C05', 'C07', 'C10', 'C06']),
    (r'clientbound/play/', ['C06', 'C05', 'C07', 'C20', 'C04', 'C11']),
    (r'clientbound/(login|status|handshake)/', ['C06', 'C05', 'C07', 'C10',
                                                'C09']),
    (r'serverbound/', ['C06', 'C05', 'C07', 'C10', 'C09', 'C11']),
    (r'minecraft/__init__\.py$', ['C07', 'C08', 'C06', 'C09', 'C05']),
    (r'minecraft/utility\.py$', ['C08', 'C06', 'C05']),
    (r'minecraft/exceptions\.py$', ['C19', 'C14', 'C10', 'C09']),
]

CMP = {ast.Lt: '<=', ast.LtE: '<', ast.Gt: '>=', ast.GtE: '>', ast.Eq: '!=',
       ast.NotEq: '==', ast.Is: 'is not', ast.IsNot: 'is', ast.In: 'not in',
       ast.NotIn: 'in'}
CMP_TXT = {ast.Lt: '<', ast.LtE: '<=', ast.Gt: '>', ast.GtE: '>=',
           ast.Eq: '==', ast.NotEq: '!=', ast.Is: 'is', ast.IsNot: 'is not',
           ast.In: 'in', ast.NotIn: 'not in'}
BIN = {ast.Add: ('+', '-'), ast.Sub: ('-', '+'), ast.Mult: ('*', '//'),
       ast.LShift: ('<<', '>>'), ast.RShift: ('>>', '<<'),
       ast.BitAnd: ('&', '|'), ast.BitOr: ('|', '&'), ast.Mod: ('%', '//'),
       ast.FloorDiv: ('//', '*')}


def files():
    out = []
    for root, _d, names in os.walk(os.path.join(REPO, 'minecraft')):
        for n in names:
            if n.endswith('.py'):
                out.append(os.path.relpath(os.path.join(root, n), REPO))
    return sorted(out)


def seg(src_lines, node):
    """(start offset, end offset) of a node in the joined source."""
    return node.lineno, node.col_offset, node.end_lineno, node.end_col_offset


class Src(object):
    def __init__(self, text):
        self.text = text
        self.starts = [0]
        for line in text.split('\n'):
            self.starts.append(self.starts[-1] + len(line) + 1)
        # ast column offsets are in utf-8 bytes; the sources are ASCII but be
        # safe: refuse files with non-ASCII content on mutated lines
        self.ascii = all(ord(c) < 128 for c in text)

    def off(self, line, col):
        return self.starts[line - 1] + col

    def span(self, node):
        return (self.off(node.lineno, node.col_offset),
                self.off(node.end_lineno, node.end_col_offset))


def mutants_of(rel):
    text = open(os.path.join(REPO, rel)).read()
    src = Src(text)
    tree = ast.parse(text)
    out = []          # (line, kind, start, end, replacement)

    def add(node, kind, a, b, new):
        if text[a:b] != new:
            out.append((node.lineno, kind, a, b, new))
    parents = {}
    for p in ast.walk(tree):
        for c in ast.iter_child_nodes(p):
            parents[c] = p
    for node in ast.walk(tree):
        if isinstance(node, ast.Compare) and len(node.ops) == 1:
            op = node.ops[0]
            if type(op) in CMP:
                a = src.span(node.left)[1]
                b = src.span(node.comparators[0])[0]
                between = text[a:b]
                old = CMP_TXT[type(op)]
                if between.count(old) >= 1 and between.strip() == old:
                    add(node, 'cmp', a, b, between.replace(
                        old, CMP[type(op)]))
        elif isinstance(node, ast.BoolOp) and len(node.values) == 2:
            a = src.span(node.values[0])[1]
            b = src.span(node.values[1])[0]
            between = text[a:b]
            old = 'and' if isinstance(node.op, ast.And) else 'or'
            new = 'or' if old == 'and' else 'and'
            if re.fullmatch(r'[\s\\()]*%s[\s\\()]*' % old, between) and \
                    '(' not in between and ')' not in between:
                add(node, 'boolop', a, b, between.replace(old, new))
        elif isinstance(node, (ast.If, ast.While)) or \
                isinstance(node, ast.IfExp):
            t = node.test
            a, b = src.span(t)
            add(node, 'negate', a, b, 'not (%s)' % text[a:b])
        elif isinstance(node, ast.Constant):
            a, b = src.span(node)
            if isinstance(node.value, bool):
                add(node, 'bool', a, b, str(not node.value))
            elif isinstance(node.value, int) and not isinstance(
                    parents.get(node), ast.Dict):
                lit = text[a:b]
                if re.fullmatch(r'0x[0-9A-Fa-f]+', lit):
                    add(node, 'const', a, b, '0x%02X' % (node.value + 1))
                elif re.fullmatch(r'\d+', lit):
                    add(node, 'const', a, b, str(node.value + 1))
                    if node.value > 0:
                        add(node, 'const', a, b, str(node.value - 1))
        elif isinstance(node, ast.BinOp) and type(node.op) in BIN:
            a = src.span(node.left)[1]
            b = src.span(node.right)[0]
            between = text[a:b]
            old, new = BIN[type(node.op)]
            if between.strip() == old and not isinstance(
                    node.left, ast.Constant) or between.strip() == old and \
                    not isinstance(getattr(node.left, 'value', None), str):
                add(node, 'binop', a, b, between.replace(old, new))
        elif isinstance(node, ast.UnaryOp) and isinstance(node.op, ast.Not):
            a, b = src.span(node)
            oa, ob = src.span(node.operand)
            add(node, 'unnot', a, b, '(%s)' % text[oa:ob])
        elif isinstance(node, (ast.Expr, ast.Assign, ast.AugAssign)) and \
                isinstance(parents.get(node), (ast.FunctionDef, ast.If,
                                               ast.For, ast.While, ast.With,
                                               ast.Try, ast.ExceptHandler)):
            if isinstance(node, ast.Expr) and isinstance(
                    node.value, ast.Constant):
                continue                      # docstring
            a, b = src.span(node)
            add(node, 'delete', a, b, 'pass')
    if not src.ascii:
        bad_lines = {i + 1 for i, l in enumerate(text.split('\n'))
                     if any(ord(c) > 127 for c in l)}
        # offsets after a non-ASCII character on the same line are unreliable
        out = [m for m in out if not any(bl <= m[0] for bl in bad_lines)]
    return text, out


def guards_for(rel):
    for pat, checks in GUARDS:
        if re.search(pat, rel):
            return checks + [c for c in ALL if c not in checks]
    return list(ALL)


def one(job, args):
    rel, line, kind, a, b, new, text = job
    mid = '%s:%d:%s:%d' % (rel, line, kind, a)
    scratch = tempfile.mkdtemp(prefix='vfam-')
    repo = os.path.join(scratch, 'repo')
    out = os.path.join(scratch, 'out')
    t0 = time.time()
    res = {'id': mid, 'file': rel, 'line': line, 'kind': kind,
           'old': text[a:b][:80], 'new': new[:80],
           'source_line': text.split('\n')[line - 1].strip()[:120]}
    try:
        shutil.copytree(REPO, repo, ignore=shutil.ignore_patterns(
            '.git', '__pycache__', '*.pyc'))
        mutated = text[:a] + new + text[b:]
        try:
            compile(mutated, rel, 'exec')
        except SyntaxError as e:
            res['verdict'] = 'INVALID'
            res['detail'] = str(e)
            return res
        open(os.path.join(repo, rel), 'w').write(mutated)
        missing = run_tests(repo, timeout=240)
        if missing:
            res['verdict'] = 'KILLED-BY-TESTS'
            res['detail'] = '%d pinned tests fail' % len(missing)
            return res
        tried = []
        limit = args.max_checks
        for pid in guards_for(rel)[:limit]:
            env = dict(os.environ, VERIF_REPO=repo, VERIF_OUT=out,
                       VERIF_SEED=str(args.seed))
            try:
                p = subprocess.run([os.path.join(HERE, 'check'), pid,
                                    '--tier', 'quick'], cwd=HERE, env=env,
                                   stdout=subprocess.PIPE,
                                   stderr=subprocess.STDOUT, timeout=900)
            except subprocess.TimeoutExpired:
                tried.append('%s:timeout' % pid)
                res['verdict'] = 'CAUGHT-AS-TIMEOUT'
                res['by'] = pid
                res['tried'] = tried
                return res
            t = p.stdout.decode('utf-8', 'replace')
            if p.returncode == 1 and 'VIOLATION property=%s' % pid in t:
                keys = re.findall(r'^  key=([^:]+(?::[^ ]+)?):', t, re.M)
                res['verdict'] = 'CAUGHT'
                res['by'] = pid
                res['keys'] = keys[:3]
                res['tried'] = tried
                return res
            tried.append('%s:exit%d' % (pid, p.returncode))
        res['verdict'] = 'SURVIVED'
        res['tried'] = tried
        return res
    except Exception as e:
        res['verdict'] = 'ERROR'
        res['detail'] = repr(e)
        return res
    finally:
        res['seconds'] = round(time.time() - t0, 1)
        shutil.rmtree(scratch, ignore_errors=True)


def main():
    ap = argparse.ArgumentParser()
    ap.add_argument('--list', action='store_true')
    ap.add_argument('--sample', type=int, default=100)
    ap.add_argument('--seed', type=int, default=0)
    ap.add_argument('--jobs', type=int, default=3)
    ap.add_argument('--files', default='')
    ap.add_argument('--only', default='')
    ap.add_argument('--max-checks', type=int, default=20)
    ap.add_argument('--out', default='')
    args = ap.parse_args()
    pool = []
    for rel in files():
        if args.files and not re.search(args.files, rel):
            continue
        text, ms = mutants_of(rel)
        if args.list:
            print('%5d %s' % (len(ms), rel))
        for line, kind, a, b, new in ms:
            pool.append((rel, line, kind, a, b, new, text))
    if args.list:
        print('%5d total' % len(pool))
        return 0
    if args.only:
        f, l = args.only.rsplit(':', 1)
        pool = [j for j in pool if j[0] == f and j[1] == int(l)]
    else:
        rng = random.Random(args.seed)
        rng.shuffle(pool)
        pool = pool[:args.sample]
    outf = open(args.out, 'a') if args.out else None
    tally = {}
    with ThreadPoolExecutor(args.jobs) as ex:
        for r in ex.map(lambda j: one(j, args), pool):
            tally[r['verdict']] = tally.get(r['verdict'], 0) + 1
            print('%-16s %-60s %-8s %5.1fs  %s -> %s' % (
                r['verdict'], r['id'][-60:], r.get('by', ''),
                r['seconds'], r['old'][:30], r['new'][:30]))
            sys.stdout.flush()
            if outf:
                outf.write(json.dumps(r) + '\n')
                outf.flush()
    print(tally)
    return 0


if __name__ == '__main__':
    sys.exit(main())
